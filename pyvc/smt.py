"""Discharging obligations: z3 first, cvc5 for what z3 leaves unknown (thorough: both must agree)."""
import hashlib
import os
import subprocess
import tempfile
import time
import z3

HERE = os.path.dirname(os.path.dirname(os.path.abspath(__file__)))
SMT_DIR = os.path.join(HERE, 'evidence', 'smt')


class Result:
    def __init__(self, oid, verdict, backend, seconds, model=None, smt2=None, tag='property', line=0, size=0):
        self.oid, self.verdict, self.backend, self.seconds = oid, verdict, backend, seconds
        self.model, self.smt2, self.tag, self.line, self.size = model, smt2, tag, line, size

    @property
    def discharged(self): return self.verdict == 'unsat'

    def as_json(self):
        return {'obligation': self.oid, 'verdict': {'unsat': 'discharged', 'sat': 'refuted', 'unknown': 'undecided'}.get(self.verdict, self.verdict),
                'backend': self.backend, 'seconds': round(self.seconds, 4), 'tag': self.tag, 'smt_size': self.size}


def to_smt2(assumptions, goal):
    s = z3.Solver()
    s.add(*assumptions)
    s.add(z3.Not(goal))
    return s.to_smt2()


def run_cvc5(smt2_text, timeout_s):
    with tempfile.NamedTemporaryFile('w', suffix='.smt2', delete=False, dir=os.environ.get('TMPDIR', '/tmp')) as f:
        # cvc5 1.0 needs an explicit logic
        f.write('(set-logic ALL)\n' + smt2_text)
        path = f.name
    try:
        out = subprocess.run(['/usr/bin/cvc5', '--tlimit=%d' % int(timeout_s * 1000), '--mbqi', path], capture_output=True, text=True,
                             timeout=timeout_s + 5)
        first = (out.stdout.strip().splitlines() or ['unknown'])[0].strip()
        return first if first in ('sat', 'unsat') else 'unknown'
    except Exception:
        return 'unknown'
    finally:
        os.unlink(path)


def model_dict(m, terms):
    out = {}
    for name, t in (terms or {}).items():
        try:
            out[name] = str(m.eval(t, model_completion=True))
        except Exception as e:       # pragma: no cover
            out[name] = '<%s>' % e
    return out


def _symbols(e, memo):
    """names of the uninterpreted constants / functions occurring in e"""
    out = set()
    stack = [e]
    seen = set()
    while stack:
        x = stack.pop()
        k = x.get_id()
        if k in seen:
            continue
        seen.add(k)
        if k in memo:
            out |= memo[k]
            continue
        if z3.is_quantifier(x):
            stack.append(x.body())
            continue
        if z3.is_app(x):
            if x.decl().kind() == z3.Z3_OP_UNINTERPRETED:
                out.add(x.decl().name())
            stack.extend(x.children())
    memo[e.get_id()] = out
    return out


def relevant(assumptions, goal, hops):
    """hypothesis selection (sound: a subset of the hypotheses): every quantifier-free assumption, and the quantified ones that share a symbol with the goal within `hops` steps"""
    memo = {}
    from .symex import has_quantifier
    sym = [(a, _symbols(a, memo), has_quantifier(a)) for a in assumptions]
    S = set(_symbols(goal, memo))
    chosen = [False] * len(sym)
    for _ in range(hops):
        add = set()
        for k, (a, sa, q) in enumerate(sym):
            if not chosen[k] and (not q or sa & S):
                chosen[k] = True
                if q:
                    add |= sa
        S |= add
    return [a for k, (a, _, _) in enumerate(sym) if chosen[k]]


def discharge(ob, timeout_s=10, both=False, dump_failed=True, retry=True):
    t0 = time.time()
    r = None
    backend = 'z3 ' + z3.get_version_string()
    if getattr(ob, 'focus', None) is not None and len(ob.focus) < len(ob.assumptions):
        # the side-car named the hypotheses this obligation uses: try them alone first (a subset of the hypotheses: sound)
        s = z3.Solver()
        s.set('timeout', int(timeout_s * 1000))
        s.add(*ob.focus)
        s.add(z3.Not(ob.goal))
        if str(s.check()) == 'unsat':
            r = 'unsat'
            backend += ' (declared hypotheses, %d of %d)' % (len(ob.focus), len(ob.assumptions))
    if r is None:
        s = z3.Solver()
        s.set('timeout', int(timeout_s * 1000))
        s.add(*ob.assumptions)
        s.add(z3.Not(ob.goal))
        r = str(s.check())
    if r == 'unknown':
        # quantifier instantiation is heuristic: retry with other seeds before giving the query to cvc5
        for seed in ((7, 42, 1234) if retry else ()):
            s2 = z3.Solver()
            s2.set('timeout', int(timeout_s * 1000))
            s2.set('random_seed', seed)
            s2.set('smt.random_seed', seed)
            s2.add(*ob.assumptions)
            s2.add(z3.Not(ob.goal))
            r2 = str(s2.check())
            if r2 != 'unknown':
                r, s = r2, s2
                backend += ' (seed %d)' % seed
                break
    if r == 'unknown' and retry:
        # large contexts (many quantified invariants) defeat instantiation heuristics: retry with the hypotheses relevant to the goal only
        for hops in (1, 2):
            sub = relevant(ob.assumptions, ob.goal, hops)
            if len(sub) == len(ob.assumptions):
                break
            s3 = z3.Solver()
            s3.set('timeout', int(timeout_s * 1000))
            s3.add(*sub)
            s3.add(z3.Not(ob.goal))
            if str(s3.check()) == 'unsat':
                r, s = 'unsat', s3
                backend += ' (hypothesis selection, %d of %d, %d hop)' % (len(sub), len(ob.assumptions), hops)
                break
    model = None
    size = sum(len(a.sexpr()) for a in ob.assumptions[-3:]) if False else len(ob.assumptions)
    smt2 = None
    if r == 'sat':
        m = s.model()
        model = model_dict(m, ob.model_terms)
        model['_raw'] = str(m)[:4000]
    if (r == 'unknown' and retry) or (both and r == 'unsat'):
        text = to_smt2(ob.assumptions, ob.goal)
        r2 = run_cvc5(text, timeout_s)
        if r == 'unknown' and r2 in ('sat', 'unsat'):
            r, backend = r2, 'cvc5 1.0.3'
        elif both and r2 not in ('unknown', r):
            r, backend = 'unknown', 'z3/cvc5 disagree'
        elif both and r2 == r:
            backend += ' + cvc5 1.0.3'
    if r != 'unsat' and dump_failed:
        os.makedirs(SMT_DIR, exist_ok=True)
        h = hashlib.sha1(ob.oid.encode()).hexdigest()[:12]
        smt2 = os.path.join(SMT_DIR, h + '.smt2')
        with open(smt2, 'w') as f:
            f.write('; obligation %s\n' % ob.oid)
            f.write(to_smt2(ob.assumptions, ob.goal))
    return Result(ob.oid, r, backend, time.time() - t0, model, smt2, ob.tag, ob.line, size)
