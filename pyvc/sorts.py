"""SMT vocabulary shared by the AST engine and the side-car contracts.

Python semantics assumed by this encoding (repeated in every evidence file):
  * int is mathematical, float is REAL (machine arithmetic treated as mathematical);
  * every heap object (instance, dict, list, tuple stored in a list, numpy array) has an integer
    identity `id < alloc`; allocation increases `alloc`; objects never die;
  * dict keys live in the datatype Key = Obj(id) | Tup(Key, Key) | One  (objects hashed by identity,
    2-tuples of keys, the integer 1).  Other key shapes are outside every precondition;
  * a dict is (dom : Key -> Bool, val : Key -> Real|Int); iteration visits each key of the
    pre-state domain exactly once in an unspecified order (ghost set `seen`).
"""
import z3

I, R, B = z3.IntSort(), z3.RealSort(), z3.BoolSort()

Key = z3.Datatype('Key')
Key.declare('Obj', ('oid', I))
Key.declare('Tup', ('fst', Key), ('snd', Key))
Key.declare('One')
Key = Key.create()
Obj, Tup, One = Key.Obj, Key.Tup, Key.One
is_Obj, is_Tup, is_One = Key.is_Obj, Key.is_Tup, Key.is_One
oid, fst, snd = Key.oid, Key.fst, Key.snd

KB = z3.ArraySort(Key, B)
KR = z3.ArraySort(Key, R)
KI = z3.ArraySort(Key, I)
IA_I = z3.ArraySort(I, I)
IA_R = z3.ArraySort(I, R)

# class tags (the hierarchy is read from the repo's class statements by front.py and added here)
CLASS_TAGS = {}
SUBCLASSES = {}          # name -> set of names (reflexive, transitive)


def tag(name):
    if name not in CLASS_TAGS:
        CLASS_TAGS[name] = len(CLASS_TAGS) + 1
        SUBCLASSES.setdefault(name, {name})
    return CLASS_TAGS[name]


def declare_subclass(child, parent):
    tag(child), tag(parent)
    for anc, subs in SUBCLASSES.items():
        if parent in subs:
            subs.add(child)
    SUBCLASSES.setdefault(child, {child})


for _n in ('Point', 'Expression', 'Constraint', 'PSDMatrix', 'Function', 'BlockPartition', 'PEP',
           'Wrapper', 'CvxpyWrapper', 'MosekWrapper', 'tuple', 'dict', 'list', 'ndarray', 'opaque',
           'DataFrame', 'str'):
    tag(_n)
declare_subclass('CvxpyWrapper', 'Wrapper')
declare_subclass('MosekWrapper', 'Wrapper')


def isinstance_f(clsarr, r, name):
    """formula: object r is an instance of class `name` (or a subclass)."""
    return z3.Or(*[clsarr[r] == tag(s) for s in sorted(SUBCLASSES[name])])


_fresh = [0]


def fresh_name(base):
    _fresh[0] += 1
    return '%s!%d' % (base, _fresh[0])


def fresh(base, sort):
    return z3.Const(fresh_name(base), sort)


def forall_k(f, name='k'):
    k = z3.Const(fresh_name(name), Key)
    return z3.ForAll([k], f(k))


def forall_i(f, name='i'):
    i = z3.Const(fresh_name(name), I)
    return z3.ForAll([i], f(i))


def forall_ij(f):
    i = z3.Const(fresh_name('i'), I)
    j = z3.Const(fresh_name('j'), I)
    return z3.ForAll([i, j], f(i, j))


def forall_kk(f):
    a = z3.Const(fresh_name('ka'), Key)
    b = z3.Const(fresh_name('kb'), Key)
    return z3.ForAll([a, b], f(a, b))


# ---- abstract real vectors (numpy 1-D float arrays used as mathematical vectors: assumed external algebra)
Vec = z3.DeclareSort('Vec')
vzero = z3.Function('vzero', I, Vec)
vadd = z3.Function('vadd', Vec, Vec, Vec)
vscale = z3.Function('vscale', R, Vec, Vec)
vdot = z3.Function('vdot', Vec, Vec, R)
vdim = z3.Function('vdim', Vec, I)
VZ = z3.Const('VZ', Vec)      # python scalar 0 used as the start value of a vector accumulation
dcard = z3.Function('dcard', KB, I)     # number of keys of a dict domain (only its sign and emptiness are axiomatised)
