"""C12-O1: inventory of global mutable state, derived from the AST of /repo at every run (so a new registry is noticed).

A *location* is a class-level binding `C.a` (class body assignment) of a class defined under PEPit/ (examples excluded) or a
module-level object.  We compute: the class-body initial value of each location, every site that writes it
(`C.a = ..`, `C.a += ..`, `C.a.append(..)` etc.), what `PEP._reset_classes` assigns, and the module-level mutable objects."""
import ast
from . import front

MUTATORS = {'append', 'extend', 'insert', 'pop', 'remove', 'clear', 'update', 'setdefault', 'add', 'discard', 'sort', 'reverse', 'popitem'}


def analyse():
    files = front.all_repo_py()
    classes = {}
    class_level = {}          # (C, a) -> source of initial value
    module_level = {}         # (file, name) -> source
    for rp in files:
        src, tree = front.parse_file(rp)
        for n in tree.body:
            if isinstance(n, ast.ClassDef):
                classes[n.name] = rp
                for st in n.body:
                    if isinstance(st, ast.Assign):
                        for t in st.targets:
                            if isinstance(t, ast.Name):
                                class_level[(n.name, t.id)] = ast.unparse(st.value)
            elif isinstance(n, ast.Assign):
                for t in n.targets:
                    if isinstance(t, ast.Name) and not (t.id.startswith('__') and t.id.endswith('__')):
                        module_level[(rp, t.id)] = ast.unparse(n.value)
    writes = {}               # (C, a) -> [site]
    mod_writes = {}
    module_names = {name for (_, name) in module_level}
    for rp in files:
        src, tree = front.parse_file(rp)
        for x in ast.walk(tree):
            tgts = []
            if isinstance(x, ast.Assign):
                tgts = x.targets
            elif isinstance(x, (ast.AugAssign, ast.AnnAssign)):
                tgts = [x.target]
            for t in tgts:
                for y in ast.walk(t):
                    if isinstance(y, ast.Attribute) and isinstance(y.value, ast.Name) and y.value.id in classes and isinstance(y.ctx, ast.Store):
                        writes.setdefault((y.value.id, y.attr), []).append('%s:%d' % (rp, x.lineno))
                    if isinstance(y, ast.Attribute) and isinstance(y.value, ast.Name) and y.value.id in module_names and isinstance(y.ctx, ast.Store):
                        mod_writes.setdefault(y.value.id, []).append('%s:%d' % (rp, x.lineno))
                    if isinstance(y, ast.Subscript) and isinstance(y.value, ast.Attribute) and isinstance(y.value.value, ast.Name) and y.value.value.id in classes:
                        writes.setdefault((y.value.value.id, y.value.attr), []).append('%s:%d' % (rp, x.lineno))
            if isinstance(x, ast.Call) and isinstance(x.func, ast.Attribute) and x.func.attr in MUTATORS:
                r = x.func.value
                if isinstance(r, ast.Attribute) and isinstance(r.value, ast.Name) and r.value.id in classes:
                    writes.setdefault((r.value.id, r.attr), []).append('%s:%d' % (rp, x.lineno))
                if isinstance(r, ast.Name) and r.id in module_names:
                    mod_writes.setdefault(r.id, []).append('%s:%d' % (rp, x.lineno))
            if isinstance(x, ast.Global):
                for nm in x.names:
                    mod_writes.setdefault(nm, []).append('%s:%d (global statement)' % (rp, x.lineno))
    # what _reset_classes assigns
    reset = {}
    try:
        fn, _, _ = front.find_function('PEPit/pep.py', 'PEP._reset_classes')
        for st in fn.body:
            if isinstance(st, ast.Assign) and len(st.targets) == 1 and isinstance(st.targets[0], ast.Attribute) and isinstance(st.targets[0].value, ast.Name):
                reset[(st.targets[0].value.id, st.targets[0].attr)] = ast.unparse(st.value)
    except KeyError:
        pass
    # PEP.__init__ starts with the reset
    init_first = None
    try:
        fn, _, _ = front.find_function('PEPit/pep.py', 'PEP.__init__')
        body = [s for s in fn.body if not (isinstance(s, ast.Expr) and isinstance(s.value, ast.Constant))]
        init_first = ast.unparse(body[0]) if body else None
    except KeyError:
        pass
    return dict(classes=classes, class_level=class_level, module_level=module_level, writes=writes, mod_writes=mod_writes, reset=reset, init_first=init_first)


IMMUTABLE_INIT = ('0', 'None', 'True', 'False')


def _mutation_sites_by_attribute_name(attr):
    """every `<expr>.attr.<mutator>(..)`, `<expr>.attr[..] = ..`, `<expr>.attr += ..` of the package (an instance attribute access reaches the class-level object)"""
    sites = []
    for rp in front.all_repo_py():
        src, tree = front.parse_file(rp)
        for x in ast.walk(tree):
            if isinstance(x, ast.Call) and isinstance(x.func, ast.Attribute) and x.func.attr in MUTATORS and isinstance(x.func.value, ast.Attribute) and x.func.value.attr == attr:
                sites.append('%s:%d' % (rp, x.lineno))
            if isinstance(x, (ast.Assign, ast.AugAssign)):
                for t in (x.targets if isinstance(x, ast.Assign) else [x.target]):
                    if isinstance(t, ast.Subscript) and isinstance(t.value, ast.Attribute) and t.value.attr == attr:
                        sites.append('%s:%d' % (rp, x.lineno))
                    if isinstance(x, ast.AugAssign) and isinstance(t, ast.Attribute) and t.attr == attr:
                        sites.append('%s:%d' % (rp, x.lineno))
    return sites


def obligations():
    """list of (id, ok, detail)"""
    a = analyse()
    out = []
    written = {loc for loc in a['writes'] if loc[0] != 'PEP' or loc[1] != '__doc__'}
    for loc in sorted(written):
        sites = [s for s in a['writes'][loc] if 'pep.py' not in s or True]
        non_reset_sites = [s for s in sites]
        ok = loc in a['reset']
        out.append(('C12/inventory/%s.%s/is_reset' % loc, ok,
                    'class-level location %s.%s is written at %s%s' % (loc[0], loc[1], ', '.join(sorted(set(sites))[:4]),
                                                                       '' if ok else ' but PEP._reset_classes does not reset it')))
    for loc, val in sorted(a['reset'].items()):
        init = a['class_level'].get(loc)
        same = init is not None and (init == val or (init in ('list()', '[]') and val in ('list()', '[]')) or (init in ('dict()', '{}') and val in ('dict()', '{}')))
        out.append(('C12/inventory/%s.%s/reset_to_initial' % loc, same, 'reset assigns %s, the class body initialises it to %s' % (val, init)))
    for loc, init in sorted(a['class_level'].items()):
        mutable = init in ('list()', '[]', 'dict()', '{}', 'set()') or init[:1] in '[{'
        if mutable and loc not in a['reset']:
            sites = _mutation_sites_by_attribute_name(loc[1])
            # a class-level table nobody mutates (through the class OR through an instance: `self.a.append(..)` reaches the shared object) is a constant
            out.append(('C12/inventory/%s.%s/mutable_is_reset' % loc, not sites,
                        'mutable class-level object %s.%s = %s is not reset by PEP._reset_classes%s' % (
                            loc[0], loc[1], init[:40], (' and is mutated at %s' % sites[:3]) if sites else ' but is mutated nowhere (constant table)')))
    # a mutable default value of a parameter is one more process-level object, and one no reset can reach
    import ast as _ast0, os as _os0, glob as _glob0
    root0 = _os0.environ.get('PEPIT_REPO', '/repo')
    mutable_defaults = []
    for f in sorted(_glob0.glob(_os0.path.join(root0, 'PEPit', '**', '*.py'), recursive=True)):
        if _os0.sep + 'examples' + _os0.sep in f:
            continue
        for n in _ast0.walk(_ast0.parse(open(f).read())):
            if isinstance(n, (_ast0.FunctionDef, _ast0.AsyncFunctionDef, _ast0.Lambda)):
                for d in n.args.defaults + [x for x in n.args.kw_defaults if x is not None]:
                    if isinstance(d, (_ast0.List, _ast0.Dict, _ast0.Set, _ast0.ListComp, _ast0.DictComp, _ast0.SetComp)) or (
                            isinstance(d, _ast0.Call) and isinstance(d.func, _ast0.Name) and d.func.id in ('list', 'dict', 'set')):
                        mutable_defaults.append('%s:%d %s' % (_os0.path.relpath(f, root0), d.lineno, getattr(n, 'name', 'lambda')))
    out.append(('C12/inventory/parameter_defaults/no_mutable_default', not mutable_defaults,
                'no parameter of a function of the package has a list / dict / set as default value' + ((': found ' + ', '.join(mutable_defaults[:4])) if mutable_defaults else '')))
    out.append(('C12/inventory/PEP.__init__/resets_first', a['init_first'] is not None and '_reset_classes()' in a['init_first'],
                'first statement of PEP.__init__: %s' % a['init_first']))
    # the reset happens when a model is created, and only then (a reset triggered by anything else - garbage collection, a solve - would wipe the registries
    # of the model being built): every call of _reset_classes in the package sits in PEP.__init__
    import ast as _ast, os as _os
    root = _os.environ.get('PEPIT_REPO', '/repo')
    callers = []
    for dp, dn, fns in _os.walk(_os.path.join(root, 'PEPit')):
        dn[:] = [d for d in dn if d not in ('examples', '__pycache__')]
        for fname in fns:
            if not fname.endswith('.py'):
                continue
            path = _os.path.join(dp, fname)
            try:
                tree = _ast.parse(open(path).read())
            except SyntaxError:
                continue
            for cls in [n for n in _ast.walk(tree) if isinstance(n, _ast.ClassDef)] + [tree]:
                for fn in [n for n in getattr(cls, 'body', []) if isinstance(n, (_ast.FunctionDef, _ast.AsyncFunctionDef))]:
                    for x in _ast.walk(fn):
                        if isinstance(x, _ast.Call) and ((isinstance(x.func, _ast.Attribute) and x.func.attr == '_reset_classes') or
                                                         (isinstance(x.func, _ast.Name) and x.func.id == '_reset_classes')):
                            callers.append('%s.%s (%s:%d)' % (getattr(cls, 'name', '<module>'), fn.name, _os.path.relpath(path, root), x.lineno))
    bad = sorted(set(c for c in callers if not c.startswith('PEP.__init__ ')))
    out.append(('C12/inventory/_reset_classes/called_only_when_a_model_is_created', not bad and bool(callers),
                '_reset_classes is called from %s' % (sorted(set(callers)) or 'nowhere')))
    for (rp, name), init in sorted(a['module_level'].items()):
        if name in ('WRAPPERS', '__all__') or name.isupper():
            w = a['mod_writes'].get(name, [])
            out.append(('C12/inventory/module:%s/constant' % name, not w, 'module-level table %s (%s) is written at %s' % (name, rp, w) if w else 'module-level table %s is never written' % name))
            continue
        w = a['mod_writes'].get(name, [])
        out.append(('C12/inventory/module:%s/never_written' % name, not w,
                    'module-level object %s = %s (%s) %s' % (name, init[:40], rp, ('is written at %s' % w) if w else 'is written by no statement')))
    return out, a
