"""Run-time side of the contracts (the *bounded* stand-in, never counted as proved).

The same side-car contract that the AST engine proves is evaluated on concrete executions of the REAL
function under CPython: the Python object graph before and after the call is abstracted into concrete
heap snapshots (the function `snapshot` is the abstraction map of the engine's heap model), and every
requires / ensures / raises / frame clause is decided by the SMT solver on those constants.

It serves three purposes: (1) vacuity guard: a concrete input satisfying `requires` exists and was run;
(2) CPython cross-check of the engine's semantics (a clause proved but refuted at run time = engine bug);
(3) counter-example search when an obligation is not discharged.
"""
import importlib
import sys
import time
from fractions import Fraction
import z3
from .sorts import *          # noqa
from . import symex as sx
from .symex import V, Heap, FIELD_TYPES

DSL_CLASSES = ('Point', 'Expression', 'Constraint', 'PSDMatrix', 'Function', 'BlockPartition', 'PEP')


def rv(x):
    if isinstance(x, bool):
        return z3.RealVal(int(x))
    if isinstance(x, int):
        return z3.RealVal(x)
    f = Fraction(float(x))
    return z3.RealVal('%d/%d' % (f.numerator, f.denominator))


class Abstraction:
    """identity-preserving map: python objects -> heap ids"""
    def __init__(self):
        self.ids = {}
        self.keep = []
        self.vecs = {}
        self.facts = []

    def oid(self, o):
        k = id(o)
        if k not in self.ids:
            self.ids[k] = len(self.ids)
            self.keep.append(o)
        return self.ids[k]

    def known(self, o):
        return id(o) in self.ids

    def vec(self, arr):
        """a numpy vector as a named constant of the abstract sort Vec; its dimension becomes a background fact"""
        k = id(arr)
        if k not in self.vecs:
            c = z3.Const('vec_%d' % len(self.vecs), Vec)
            self.vecs[k] = c
            self.keep.append(arr)
            self.facts.append(vdim(c) == int(arr.shape[0]) if getattr(arr, 'ndim', 0) == 1 else vdim(c) == -1)
        return self.vecs[k]

    def background(self):
        cs = list(self.vecs.values())
        return self.facts + ([z3.Distinct(*cs)] if len(cs) > 1 else [])

    def key(self, k):
        if isinstance(k, tuple) and len(k) == 2:
            return Tup(self.key(k[0]), self.key(k[1]))
        if isinstance(k, (int, float)) and not isinstance(k, bool) and k == 1:
            return One
        if isinstance(k, (int, float, str, bool)) or k is None:
            raise sx.OutOfSubset('dict key %r outside the Key universe' % (k,))
        return Obj(self.oid(k))


def class_name(o):
    for c in type(o).__mro__:
        if c.__name__ in CLASS_TAGS and c.__name__ not in ('opaque',):
            return c.__name__
    return 'opaque'


def field_items(o):
    """(array base name, type, python value) for every typed field present on the object"""
    cname = class_name(o)
    out = []
    d = getattr(o, '__dict__', {})
    for attr, val in d.items():
        try:
            ty = sx.field_type(cname, attr)
        except sx.OutOfSubset:
            continue
        out.append((sx.field_array_name(cname, attr), ty, val))
    return out


def snapshot(ab, roots, global_types, tagname):
    """abstract the object graph reachable from roots + class-level state into a concrete Heap"""
    import numpy as np
    mods = {c: _dsl_class(c) for c in DSL_CLASSES}
    stores = {}        # array name -> {id: z3 value}
    sorts = {}

    def put(name, i, val, sort):
        stores.setdefault(name, {})[i] = val
        sorts[name] = sort

    todo, done = list(roots) + list(ab.keep), set()        # objects known from an earlier snapshot stay in the heap
    glob_vals = {}
    for g, ty in global_types.items():
        cls, attr = g.split('.')
        val = getattr(mods[cls], attr)
        glob_vals[g] = (ty, val)
        if ty.k in ('list', 'dict', 'ref'):
            todo.append(val)

    def visit(o):
        if o is None or isinstance(o, (int, float, str, bool)):
            return
        if isinstance(o, tuple) and not ab.known(o):
            for x in o:
                todo.append(x)
            return
        i = ab.oid(o)
        if i in done:
            return
        done.add(i)
        if isinstance(o, dict):
            put('cls', i, z3.IntVal(tag('dict')), IA_I)
            dom, valr, vali = z3.K(Key, False), z3.K(Key, z3.RealVal(0)), z3.K(Key, z3.IntVal(0))
            isreal = True
            for k, v in o.items():
                try:
                    kk = ab.key(k)
                except sx.OutOfSubset:
                    continue
                _walk_key(k)
                dom = z3.Store(dom, kk, True)
                if isinstance(v, (int, float)) and not isinstance(v, bool):
                    valr = z3.Store(valr, kk, rv(v))
                else:
                    isreal = False
                    vali = z3.Store(vali, kk, ab.oid(v))
                    todo.append(v)
            put('dom', i, dom, z3.ArraySort(I, KB))
            put('valR', i, valr, z3.ArraySort(I, KR))
            put('valI', i, vali, z3.ArraySort(I, KI))
            return
        if isinstance(o, list):
            put('cls', i, z3.IntVal(tag('list')), IA_I)
            put('len', i, z3.IntVal(len(o)), IA_I)
            ei, er = z3.K(I, z3.IntVal(0)), z3.K(I, z3.RealVal(0))
            for j, x in enumerate(o):
                if isinstance(x, (int, float)) and not isinstance(x, bool):
                    er = z3.Store(er, j, rv(x))
                    if isinstance(x, int):
                        ei = z3.Store(ei, j, x)
                elif x is not None:
                    if isinstance(x, tuple):
                        ab.oid(x)          # tuples stored in lists live in the heap
                    ei = z3.Store(ei, j, ab.oid(x))
                    todo.append(x)
            put('eltI', i, ei, z3.ArraySort(I, IA_I))
            put('eltR', i, er, z3.ArraySort(I, IA_R))
            return
        if isinstance(o, tuple):
            put('cls', i, z3.IntVal(tag('tuple')), IA_I)
            for j, x in enumerate(o[:3]):
                if not isinstance(x, (int, float, str, bool)) and x is not None:
                    put('f:t%d' % j, i, z3.IntVal(ab.oid(x)), IA_I)
                    todo.append(x)
            return
        if isinstance(o, np.ndarray):
            put('cls', i, z3.IntVal(tag('ndarray')), IA_I)
            return
        cname = class_name(o)
        exact = type(o).__name__ if type(o).__name__ in CLASS_TAGS else cname
        put('cls', i, z3.IntVal(tag(exact)), IA_I)
        for base, ty, val in field_items(o):
            inner = ty.a[0] if ty.k == 'opt' else ty
            srt = z3.ArraySort(I, sx.smt_sort(inner))
            if ty.k == 'opt':
                put(base + '?none', i, z3.BoolVal(val is None), z3.ArraySort(I, B))
                if val is None:
                    continue
            put(base, i, _scalar_value(ab, inner, val, todo), srt)

    def _walk_key(k):
        if isinstance(k, tuple):
            for x in k:
                _walk_key(x)
        elif not isinstance(k, (int, float)):
            todo.append(k)

    while todo:
        visit(todo.pop())

    H = Heap(tagname)
    H.alloc = z3.IntVal(len(ab.ids))
    for name, ents in stores.items():
        srt = sorts[name]
        rng = srt.range()
        dflt = _default(rng)
        arr = z3.K(I, dflt)
        for i, val in sorted(ents.items()):
            arr = z3.Store(arr, i, val)
        H.arr[name] = arr
    for g, (ty, val) in glob_vals.items():
        if ty.k == 'int':
            H.glob[g] = sx.vint(int(val))
        else:
            H.glob[g] = V(ty, z3.IntVal(ab.oid(val)))
    H._concrete = True
    return H


def _default(sort):
    if sort == B:
        return z3.BoolVal(False)
    if sort == R:
        return z3.RealVal(0)
    if sort == I:
        return z3.IntVal(-7)
    if sort == Vec:
        return z3.Const('vec_none', Vec)
    if isinstance(sort, z3.ArraySortRef):
        return z3.K(sort.domain(), _default(sort.range()))
    raise sx.OutOfSubset('default for sort %s' % sort)


def _scalar_value(ab, ty, val, todo):
    if ty.k == 'int':
        return z3.IntVal(int(val))
    if ty.k == 'real':
        return rv(val)
    if ty.k == 'bool':
        return z3.BoolVal(bool(val))
    if ty.k == 'str':
        return z3.IntVal(sx.str_code(val) if isinstance(val, str) else -1)
    if ty.k in ('ref', 'dict', 'list', 'htuple'):
        todo.append(val)
        return z3.IntVal(ab.oid(val))
    if ty.k == 'vec':
        return ab.vec(val)
    raise sx.OutOfSubset('field of type %r' % (ty,))


_mods = {}


def _dsl_class(name):
    if name not in _mods:
        m = {'Point': 'PEPit.point', 'Expression': 'PEPit.expression', 'Constraint': 'PEPit.constraint',
             'PSDMatrix': 'PEPit.psd_matrix', 'Function': 'PEPit.function', 'BlockPartition': 'PEPit.block_partition',
             'PEP': 'PEPit.pep'}[name]
        _mods[name] = getattr(importlib.import_module(m), name)
    return _mods[name]


def value_of(ab, ty, pyval):
    """python argument / result -> symbolic-value wrapper around concrete terms"""
    if ty is None or ty.k == 'none':
        return sx.VNONE
    if ty.k == 'opt':
        if pyval is None and ty.a[0].k == 'tuple':
            return V(ty, items=[value_of(ab, t, None) if t.k == 'opt' else V(t, _default(sx.smt_sort(t))) for t in ty.a[0].a], none=z3.BoolVal(True))
        if pyval is None:
            return V(ty, _default(sx.smt_sort(ty.a[0])), none=z3.BoolVal(True))
        inner = value_of(ab, ty.a[0], pyval)
        return V(ty, inner.t, items=inner.items, none=z3.BoolVal(False))
    if ty.k == 'int':
        return sx.vint(int(pyval))
    if ty.k == 'real':
        return V(sx.TReal, rv(pyval))
    if ty.k == 'bool':
        return sx.vbool(bool(pyval))
    if ty.k == 'str':
        return V(sx.TStr, z3.IntVal(sx.str_code(pyval)), py=pyval)
    if ty.k in ('ref', 'dict', 'list', 'htuple'):
        return V(ty, z3.IntVal(ab.oid(pyval)))
    if ty.k == 'any':
        return V(ty, z3.IntVal(ab.oid(pyval)) if not isinstance(pyval, (int, float, str, bool, type(None))) else z3.IntVal(-1))
    if ty.k == 'tuple':
        return V(ty, items=[value_of(ab, t, x) for t, x in zip(ty.a, pyval)])
    if ty.k == 'key':
        return V(ty, ab.key(pyval))
    if ty.k == 'vec':
        return V(ty, ab.vec(pyval))
    if ty.k in ('arr1', 'arr1i'):
        import numpy as np
        arr = np.asarray(pyval)
        if arr.ndim != 1:
            raise sx.OutOfSubset('expected a 1-D array, got shape %s' % (arr.shape,))
        t = z3.K(I, z3.RealVal(0) if ty.k == 'arr1' else z3.IntVal(0))
        for i, x in enumerate(arr.tolist()):
            t = z3.Store(t, i, rv(x) if ty.k == 'arr1' else z3.IntVal(int(x)))
        return V(ty, t, items=[z3.IntVal(arr.shape[0])], py='fresh')
    if ty.k == 'arr2':
        import numpy as np
        arr = np.asarray(pyval)
        if arr.ndim != 2:
            raise sx.OutOfSubset('expected a 2-D array, got shape %s' % (arr.shape,))
        ii, jj = z3.Int('ci'), z3.Int('cj')
        body = z3.RealVal(0)
        for i in range(arr.shape[0]):
            for j in range(arr.shape[1]):
                if arr[i, j] != 0:
                    body = z3.If(z3.And(ii == i, jj == j), rv(arr[i, j]), body)
        return V(ty, z3.Lambda([ii, jj], body), items=[z3.IntVal(arr.shape[0]), z3.IntVal(arr.shape[1])], py='fresh')
    raise sx.OutOfSubset('concrete value of type %r' % (ty,))


def py_type_of(pyval, declared, variants):
    """pick the declared type / variant matching a concrete argument"""
    import numbers
    for ty in [declared] + list(variants):
        k = ty.k
        if k == 'opt' and (pyval is None or _matches(pyval, ty.a[0])):
            return ty
        if _matches(pyval, ty):
            return ty
    return None


def _matches(pyval, ty):
    k = ty.k
    if k == 'real':
        return isinstance(pyval, (int, float)) and not isinstance(pyval, bool)
    if k == 'int':
        return isinstance(pyval, int) and not isinstance(pyval, bool)
    if k == 'bool':
        return isinstance(pyval, bool)
    if k == 'str':
        return isinstance(pyval, str)
    if k == 'dict':
        return isinstance(pyval, dict)
    if k == 'list':
        return isinstance(pyval, list)
    if k == 'ref':
        return ty.a[0] is None or any(c.__name__ == ty.a[0] for c in type(pyval).__mro__)
    if k == 'any':
        return not isinstance(pyval, (int, float)) and not any(c.__name__ in DSL_CLASSES for c in type(pyval).__mro__)
    if k == 'htuple':
        return isinstance(pyval, tuple)
    if k == 'tuple':
        return isinstance(pyval, tuple) and len(pyval) == len(ty.a) and all(_matches(x, t) for x, t in zip(pyval, ty.a))
    if k in ('arr1', 'arr1i'):
        return hasattr(pyval, 'ndim') and pyval.ndim == 1
    if k == 'arr2':
        return hasattr(pyval, 'ndim') and pyval.ndim == 2
    if k == 'vec':
        return hasattr(pyval, 'ndim') and pyval.ndim == 1
    return False


BACKGROUND = []


def holds(f, timeout_ms=5000):
    """decide a closed formula over concrete heaps: True / False / None (inconclusive)"""
    s = z3.Solver()
    s.set('timeout', timeout_ms)
    s.add(*BACKGROUND)
    s.add(z3.Not(f))
    r = s.check()
    if r == z3.unsat:
        return True
    if r == z3.sat:
        return False
    return None


class RunResult:
    def __init__(self):
        self.accepted = False       # requires held
        self.failed = []            # [(label, detail)]
        self.inconclusive = []
        self.outcome = None         # 'return' | exception class name
        self.detail = ''


def run_contract(c, real_fn, argvals, global_types, extra_roots=()):
    """execute real_fn(**argvals) under CPython and evaluate contract c on the pre/post snapshots"""
    rr = RunResult()
    ab = Abstraction()
    tys = {}
    for (n, ty) in c.params:
        t = py_type_of(argvals[n], ty, c.variants.get(n, []))
        if t is None:
            rr.detail = 'argument %s=%r fits no declared variant' % (n, argvals[n])
            return rr
        tys[n] = t
    roots = [argvals[n] for n, _ in c.params] + list(extra_roots) + (list(c.runtime_roots()) if getattr(c, 'runtime_roots', None) else [])
    S0 = snapshot(ab, roots, global_types, 'pre')
    a = {n: value_of(ab, tys[n], argvals[n]) for n, _ in c.params}
    if getattr(c, 'runtime_facts', None):
        try:
            facts = list(c.runtime_facts(argvals, ab))
        except TypeError:
            facts = list(c.runtime_facts(argvals))
    else:
        facts = list(c.defs(S0, a))
    BACKGROUND[:] = ab.background() + list(c.axioms()) + facts
    pre_copy = c.runtime_pre(argvals) if getattr(c, 'runtime_pre', None) else None
    for lab, f in c.requires(S0, a):
        h = holds(f)
        if h is not True:
            rr.detail = 'requires[%s] %s' % (lab, 'false' if h is False else 'inconclusive')
            return rr
    rr.accepted = True
    n_pre = len(ab.ids)
    try:
        out = real_fn(*[argvals[n] for n, _ in c.params])
        rr.outcome = 'return'
    except Exception as e:        # noqa
        out = None
        rr.outcome = type(e).__name__
        rr.exc_text = str(e)[:200]
    roots2 = roots + ([out] if out is not None else [])
    S = snapshot(ab, roots2, global_types, 'post')
    BACKGROUND[:] = ab.background() + list(c.axioms()) + facts
    engine = sx.Engine.__new__(sx.Engine)
    if rr.outcome != 'return':
        allowed = [when for exc, when in c.raises if sx.Engine.exc_matches(engine, rr.outcome, exc)]
        ok = False
        for when in allowed:
            if holds(when(S0, a)) is True:
                ok = True
        if not ok:
            rr.failed.append(('raises.only[%s]' % rr.outcome, 'exception not permitted by the contract: %s' % getattr(rr, 'exc_text', '')))
        return rr
    for exc, when in c.raises:
        h = holds(z3.Not(when(S0, a)))
        if h is False:
            rr.failed.append(('raises.must[%s]' % exc, 'normal return although the contract requires an exception'))
    rt = c.returns_for(a)
    try:
        res = value_of(ab, rt, out)
    except Exception as e:
        rr.failed.append(('post[result_type]', 'result %r does not have declared type %r (%s)' % (out, rt, e)))
        return rr
    if c.runtime:
        for lab, detail in c.runtime(argvals, out, pre_copy):
            rr.failed.append(('post[%s]' % lab, detail))
    for lab, f, tg in c.ensures(S0, S, a, res):
        if tg == 'ghost':
            continue          # clause over an uninterpreted spec function: decided by the contract's run-time oracle instead
        h = holds(f)
        if h is False:
            rr.failed.append(('post[%s]' % lab, tg))
        elif h is None:
            rr.inconclusive.append('post[%s]' % lab)
    # frame
    mods = c.modifies(S0, a)
    for name, cur in sorted(S.arr.items()):
        if name not in S0.arr:
            continue
        old = S0.arr[name]
        pred = mods.get(name)
        for r in range(n_pre):
            if pred is not None and holds(pred(z3.IntVal(r))) is not False:
                continue
            if holds(cur[r] == old[r]) is False:
                rr.failed.append(('frame[%s]' % name, 'pre-existing object %d changed' % r))
                break
    for g, gv in S.glob.items():
        if g in c.mod_globals:
            continue
        if holds(gv.t == S0.glob[g].t) is False:
            rr.failed.append(('frame[global %s]' % g, 'changed'))
    return rr
