"""Structural contract of PEP._solve_with_wrapper, checked on the AST of /repo at every run.

_solve_with_wrapper (190 lines, solver calls, string options, numpy linear algebra) is outside the subset of the symbolic engine.
What IS decided here is its *skeleton*: the order of the phases, which declared source each send loop iterates over, that every
object sent is recorded in the list through which multipliers are exposed, that class / partition constraints are regenerated
unconditionally at every solve, that nothing after `assign_dual_values` can write a multiplier, the early `None` return and the
option checks.  These are syntactic obligations (a weaker form of frame / ordering contract): when one of them fails the property
is reported UNDECIDED (the code no longer has the shape the argument needs), never as a violation; the bounded solve harness then
decides.  Each obligation names the property whose argument uses it.
"""
import ast
from . import front


def _calls(node, attr):
    return [x for x in ast.walk(node) if isinstance(x, ast.Call) and isinstance(x.func, ast.Attribute) and x.func.attr == attr]


def _src(n):
    return ast.unparse(n)


def _top_index(body, pred):
    for i, st in enumerate(body):
        if pred(st):
            return i
    return None


def _contains(st, pred):
    return any(pred(x) for x in ast.walk(st))


EXPECTED_SENDS = [
    ('self.list_of_performance_metrics', 'send_constraint_to_solver', '_list_of_constraints_sent_to_wrapper'),
    ('self.list_of_constraints', 'send_constraint_to_solver', '_list_of_constraints_sent_to_wrapper'),
    ('self.list_of_psd', 'send_lmi_constraint_to_solver', '_list_of_psd_sent_to_wrapper'),
    ('function.list_of_class_constraints', 'send_constraint_to_solver', '_list_of_constraints_sent_to_wrapper'),
    ('function.list_of_class_psd', 'send_lmi_constraint_to_solver', '_list_of_psd_sent_to_wrapper'),
    ('function.list_of_constraints', 'send_constraint_to_solver', '_list_of_constraints_sent_to_wrapper'),
    ('function.list_of_psd', 'send_lmi_constraint_to_solver', '_list_of_psd_sent_to_wrapper'),
    ('partition.list_of_constraints', 'send_constraint_to_solver', '_list_of_constraints_sent_to_wrapper'),
]


def send_loops(fn):
    """innermost for-loops whose body calls wrapper.send_*: (source text, send method, sent-arg text, tracking list appended with what, unconditional?)"""
    out = []
    for x in ast.walk(fn):
        if not isinstance(x, ast.For):
            continue
        sends = [c for st in x.body for c in _calls(st, 'send_constraint_to_solver') + _calls(st, 'send_lmi_constraint_to_solver')
                 if not any(isinstance(y, ast.For) and c in list(ast.walk(y)) for y in x.body)]
        direct = [st for st in x.body if isinstance(st, ast.Expr) and isinstance(st.value, ast.Call) and isinstance(st.value.func, ast.Attribute)
                  and st.value.func.attr in ('send_constraint_to_solver', 'send_lmi_constraint_to_solver')]
        if not direct:
            continue
        src = _src(x.iter)
        if src.startswith('enumerate(') and src.endswith(')'):
            src = src[len('enumerate('):-1]
        call = direct[0].value
        sent = _src(call.args[-1])
        appends = [st for st in x.body if isinstance(st, ast.Expr) and isinstance(st.value, ast.Call) and isinstance(st.value.func, ast.Attribute)
                   and st.value.func.attr == 'append' and isinstance(st.value.func.value, ast.Attribute)]
        tracked = [(a.value.func.value.attr, _src(a.value.args[0])) for a in appends]
        out.append(dict(line=x.lineno, source=src, method=call.func.attr, sent=sent, tracked=tracked, n_direct=len(direct)))
    return sorted(out, key=lambda d: d['line'])


def obligations():
    """list of (id, properties, ok, detail)"""
    out = []
    try:
        fn, _, _ = front.find_function('PEPit/pep.py', 'PEP._solve_with_wrapper')
    except KeyError as e:
        return [('skeleton/_solve_with_wrapper/found', ['C05', 'C13', 'C14', 'C16'], False, str(e))]
    body = [s for s in fn.body if not (isinstance(s, ast.Expr) and isinstance(s.value, ast.Constant))]
    P = 'skeleton/PEP._solve_with_wrapper/'

    def add(name, props, ok, detail):
        out.append((P + name, props, bool(ok), detail))

    def is_assign_self(st, attr):
        return isinstance(st, ast.Assign) and any(isinstance(t, ast.Attribute) and isinstance(t.value, ast.Name) and t.value.id == 'self' and t.attr == attr for t in st.targets)

    i_obj = _top_index(body, lambda st: is_assign_self(st, 'objective') and 'Expression(is_leaf=True)' in _src(st.value))
    i_main = _top_index(body, lambda st: _contains(st, lambda x: isinstance(x, ast.Call) and isinstance(x.func, ast.Attribute) and x.func.attr == 'set_main_variables'))
    i_c = _top_index(body, lambda st: is_assign_self(st, '_list_of_constraints_sent_to_wrapper') and _src(st.value) in ('list()', '[]'))
    i_p = _top_index(body, lambda st: is_assign_self(st, '_list_of_psd_sent_to_wrapper') and _src(st.value) in ('list()', '[]'))
    first_send = _top_index(body, lambda st: _contains(st, lambda x: isinstance(x, ast.Call) and isinstance(x.func, ast.Attribute) and x.func.attr.startswith('send_')))
    add('fresh_objective_leaf', ['C13', 'C05'], i_obj is not None and first_send is not None and i_obj < first_send, 'a new objective leaf is created at every solve, before anything is sent')
    add('fresh_tracking_lists', ['C13', 'C01'], None not in (i_c, i_p, first_send) and i_c < first_send and i_p < first_send,
        'the lists exposing multipliers are rebound to fresh lists before the first send')

    # regeneration of class / partition constraints, unconditional, before the variables are created
    def regen(method, src_hint):
        for k, st in enumerate(body):
            if isinstance(st, ast.For) and len(st.body) == 1 and isinstance(st.body[0], ast.Expr) and isinstance(st.body[0].value, ast.Call) \
                    and isinstance(st.body[0].value.func, ast.Attribute) and st.body[0].value.func.attr == method \
                    and isinstance(st.body[0].value.func.value, ast.Name) and isinstance(st.target, ast.Name) and st.body[0].value.func.value.id == st.target.id:
                return k, _src(st.iter)
        return None, None
    k1, it1 = regen('set_class_constraints', 'leaf')
    k2, it2 = regen('add_partition_constraints', 'partition')
    add('class_constraints_regenerated_unconditionally', ['C13', 'C05'], k1 is not None and i_main is not None and k1 < i_main,
        'for every leaf function: function.set_class_constraints() (loop body is exactly that call) before the solver variables are created; iterates over %s' % it1)
    add('partition_constraints_regenerated_unconditionally', ['C15', 'C13'], k2 is not None and i_main is not None and k2 < i_main and it2 == 'BlockPartition.list_of_partitions',
        'for every partition: partition.add_partition_constraints() unconditionally; iterates over %s' % it2)
    leaf_def = [st for st in body if isinstance(st, ast.Assign) and isinstance(st.targets[0], ast.Name) and st.targets[0].id == 'list_of_leaf_functions']
    add('leaf_functions_are_all_leaves_of_the_registry', ['C05', 'C13'],
        len(leaf_def) == 1 and _src(leaf_def[0].value) == '[function for function in Function.list_of_functions if function.get_is_leaf()]' and it1 == 'list_of_leaf_functions',
        'list_of_leaf_functions = every function of the registry with get_is_leaf()')
    fwc = [st for st in body if isinstance(st, ast.Assign) and isinstance(st.targets[0], ast.Name) and st.targets[0].id == 'list_of_functions_with_constraints']
    add('functions_with_constraints_cover_all_declared', ['C05'],
        len(fwc) == 1 and _src(fwc[0].value) == '[function for function in Function.list_of_functions if len(function.list_of_constraints) > 0 or len(function.list_of_psd) > 0]',
        'functions with own constraints / LMIs = every function of the registry (leaf or composite) that has some')

    # the send loops
    loops = send_loops(fn)
    got = [(l['source'], l['method'], l['tracked'][0][0] if l['tracked'] else None) for l in loops]
    add('send_loops_are_the_declared_sources_in_order', ['C05', 'C13', 'C01'], got == EXPECTED_SENDS,
        'send loops found: %s' % [(g[0], g[1].replace('_to_solver', '')) for g in got])
    ok_track = all(l['n_direct'] == 1 and len(l['tracked']) == 1 and l['tracked'][0][1] == l['sent'] for l in loops) and len(loops) == len(EXPECTED_SENDS)
    add('every_sent_object_is_recorded_once_in_the_same_iteration', ['C01', 'C05'], ok_track,
        'in each send loop body: one send call and one append of the SAME object to the tracking list (both unconditional)')
    metric = loops[0] if loops else None
    mdef = None
    if metric:
        for x in ast.walk(fn):
            if isinstance(x, ast.For) and x.lineno == metric['line']:
                for st in x.body:
                    if isinstance(st, ast.Assign) and isinstance(st.targets[0], ast.Name) and st.targets[0].id == metric['sent']:
                        mdef = _src(st.value)
    add('metrics_enter_as_objective_le_metric', ['C05'], mdef in ('self.objective <= performance_metric', '(self.objective <= performance_metric)'),
        'the constraint sent for a metric is `self.objective <= performance_metric` (found: %s)' % mdef)

    # problem, solve, early None return, duals, heuristic, evaluation
    def idx_call(attr):
        return _top_index(body, lambda st: _contains(st, lambda x: isinstance(x, ast.Call) and isinstance(x.func, ast.Attribute) and x.func.attr == attr))
    i_gen, i_solve, i_ass, i_eval, i_chk = idx_call('generate_problem'), idx_call('solve'), idx_call('assign_dual_values'), idx_call('_eval_points_and_function_values'), idx_call('check_feasibility')
    i_none = _top_index(body, lambda st: isinstance(st, ast.If) and _src(st.test) == 'wc_value is None' and any(isinstance(y, ast.Return) for y in st.body))
    last_send = max([l['line'] for l in loops], default=0)
    add('problem_generated_after_all_sends', ['C05'], i_gen is not None and body[i_gen].lineno > last_send and 'generate_problem(self.objective)' in _src(body[i_gen]),
        'wrapper.generate_problem(self.objective) follows the last send loop')
    add('no_value_returns_before_any_value_is_written', ['C16', 'C13'], None not in (i_none, i_ass, i_eval, i_chk, i_solve) and i_solve < i_none < min(i_ass, i_eval, i_chk),
        '`if wc_value is None: return wc_value` directly after the solve, before duals / values are assigned')
    after = body[i_ass + 1:] if i_ass is not None else []
    writes_after = [x for st in after for x in ast.walk(st)
                    if (isinstance(x, ast.Attribute) and isinstance(x.ctx, ast.Store) and x.attr in ('residual', '_dual_variable_value', 'dual_values'))
                    or (isinstance(x, ast.Call) and isinstance(x.func, ast.Attribute) and x.func.attr in ('assign_dual_values', 'get_dual_variables', '_recover_dual_values'))]
    add('multipliers_frozen_before_the_heuristic', ['C14', 'C01'],
        i_ass is not None and is_assign_self(body[i_ass], 'residual') and not writes_after and _top_index(after, lambda st: isinstance(st, ast.If) and 'dimension_reduction_heuristic' in _src(st.test)) is not None,
        'self.residual = wrapper.assign_dual_values() precedes the heuristic branch; nothing afterwards writes or re-reads a multiplier (%d offending nodes)' % len(writes_after))
    # wrapper methods called after the duals were assigned write no multiplier field
    offenders = []
    for rp, cls in (('PEPit/wrappers/cvxpy_wrapper.py', 'CvxpyWrapper'), ('PEPit/wrappers/mosek_wrapper.py', 'MosekWrapper')):
        for m in ('solve', 'prepare_heuristic', 'heuristic'):
            try:
                f2, _, _ = front.find_function(rp, '%s.%s' % (cls, m))
            except KeyError:
                continue
            for x in ast.walk(f2):
                if isinstance(x, ast.Attribute) and isinstance(x.ctx, ast.Store) and x.attr in ('residual', '_dual_variable_value', 'dual_values'):
                    offenders.append('%s.%s:%d' % (cls, m, x.lineno))
    try:
        f3, _, _ = front.find_function('PEPit/wrapper.py', 'Wrapper.get_primal_variables')
        offenders += ['Wrapper.get_primal_variables:%d' % x.lineno for x in ast.walk(f3) if isinstance(x, ast.Attribute) and isinstance(x.ctx, ast.Store)]
    except KeyError:
        pass
    add('wrapper_methods_of_the_heuristic_write_no_multiplier', ['C14'], not offenders, 'solve / prepare_heuristic / heuristic / get_primal_variables store to no multiplier field %s' % offenders)
    # option handling
    tail = body[-1]
    ok_tail = (isinstance(tail, ast.If) and _src(tail.test) == "return_primal_or_dual == 'dual'" and _src(tail.body[0]) == 'return dual_objective'
               and len(tail.orelse) == 1 and isinstance(tail.orelse[0], ast.If) and _src(tail.orelse[0].test) == "return_primal_or_dual == 'primal'"
               and _src(tail.orelse[0].body[0]) == 'return wc_value' and len(tail.orelse[0].orelse) == 1 and isinstance(tail.orelse[0].orelse[0], ast.Raise)
               and _src(tail.orelse[0].orelse[0].exc).startswith('ValueError('))
    add('return_mode_dual_primal_else_ValueError', ['C16', 'C01'], ok_tail, "last statement: 'dual' -> dual_objective, 'primal' -> wc_value, anything else -> ValueError")
    heur = [st for st in after if isinstance(st, ast.If) and 'dimension_reduction_heuristic' in _src(st.test)]
    ok_h = False
    if heur:
        inner = [st for st in heur[0].body if isinstance(st, ast.If) and _src(st.test) == "dimension_reduction_heuristic == 'trace'"]
        if inner:
            h = inner[0]
            ok_h = ('wrapper.heuristic(np.identity(Point.counter))' in _src(h) and len(h.orelse) == 1 and isinstance(h.orelse[0], ast.If)
                    and _src(h.orelse[0].test) == "dimension_reduction_heuristic.startswith('logdet')" and len(h.orelse[0].orelse) == 1
                    and isinstance(h.orelse[0].orelse[0], ast.Raise) and _src(h.orelse[0].orelse[0].exc).startswith('ValueError('))
            prep = _top_index(heur[0].body, lambda st: 'prepare_heuristic(wc_value, tol_dimension_reduction)' in _src(st))
            ok_h = ok_h and prep is not None
    add('heuristic_dispatch_trace_logdet_else_ValueError', ['C14', 'C16'], ok_h,
        "'trace' -> identity weight, 'logdet<N>' -> N reweighted solves, anything else -> ValueError; prepare_heuristic(wc_value, tol_dimension_reduction) first")
    # PEP.solve forwards each option to the parameter of the same name (a call-site precondition: positional arguments line up with the callee's signature)
    try:
        solve_fn, _, _ = front.find_function('PEPit/pep.py', 'PEP.solve')
        params = [a.arg for a in fn.args.args][1:]
        calls = [c for c in _calls(solve_fn, '_solve_with_wrapper')]
        ok_fw = len(calls) == 1
        detail_fw = ''
        if ok_fw:
            call = calls[0]
            for k, arg in enumerate(call.args):
                if k == 0 and params and params[0] == 'wrapper':
                    continue            # the wrapper OBJECT built by solve, under whatever local name; the options follow
                if not (k < len(params) and isinstance(arg, ast.Name) and arg.id == params[k]):
                    ok_fw, detail_fw = False, 'argument %d is %r for parameter %r' % (k, _src(arg), params[k] if k < len(params) else None)
                    break
            for kw in call.keywords:
                if kw.arg is not None and not (isinstance(kw.value, ast.Name) and kw.value.id == kw.arg):
                    ok_fw, detail_fw = False, 'keyword %s=%s' % (kw.arg, _src(kw.value))
            given = set(params[:len(call.args)]) | {kw.arg for kw in call.keywords if kw.arg}
            missing = [p_ for p_ in params if p_ not in given]
            if missing:
                ok_fw, detail_fw = False, 'options not forwarded: %s' % missing
    except KeyError as e:
        ok_fw, detail_fw = False, str(e)
    add('solve_forwards_each_option_to_its_parameter', ['C14', 'C16', 'C13'], ok_fw,
        'PEP.solve passes wrapper, verbose, return_primal_or_dual, dimension_reduction_heuristic, eig_regularization, tol_dimension_reduction to the parameters of the same names ' + detail_fw)
    add('values_evaluated_from_the_final_solution', ['C02', 'C14'], None not in (i_eval, i_chk) and i_eval < i_chk and 'self._eval_points_and_function_values(F_value, G_value' in _src(body[i_eval]),
        'points and function values are assigned from the (G, F) of the last solve, then check_feasibility computes the dual bound')
    return out


def apply(run, pid):
    """count the skeleton obligations used by property pid; a failing one makes the property UNDECIDED (never a violation)"""
    n = 0
    for oid, props, ok, detail in obligations():
        if pid not in props:
            continue
        n += 1
        run.count('%s/%s' % (pid, oid), ok, 'static (AST skeleton of /repo)', 0.0, 'property', 'unsat' if ok else 'unknown',
                  sample={'obligation': oid, 'verdict': 'discharged' if ok else 'shape changed', 'detail': detail[:200]})
        if not ok:
            run.undecide('%s/%s' % (pid, oid), 'the code no longer has the shape this argument relies on: ' + detail[:300])
    if n:
        run.trust('pyvc.skeleton: syntactic conformance of PEP._solve_with_wrapper to its phase structure (weaker than a semantic contract: ordering / frame '
                  'facts read off the AST; a mismatch is reported undecided, the bounded solve harness decides)')
        try:
            run.functions.append(front.extraction_report('PEPit/pep.py', 'PEP._solve_with_wrapper'))
        except KeyError:
            pass
    return n
