"""Spec-level lemmas (Lean 4 + Mathlib), re-checked in the thorough tier.  They do not mention the code: they connect the
code-level contracts to the wording of the properties (DESIGN.md 2.9).  The quick tier only records that they exist."""
import hashlib
import os
import re
import subprocess
import time

HERE = os.path.dirname(os.path.dirname(os.path.abspath(__file__)))


def check(run, fname, what):
    path = os.path.join(HERE, 'lean', fname)
    src = open(path).read()
    thms = re.findall(r'^theorem\s+(\w+)', src, re.M)
    sha = hashlib.sha256(src.encode()).hexdigest()[:16]
    if run.tier == 'quick':
        run.note('spec-level lemmas lean/%s (%s; sha %s; theorems %s) are re-checked by `lean` in the thorough tier only' % (fname, what, sha, ', '.join(thms)))
        return
    t0 = time.time()
    try:
        r = subprocess.run(['lean', path], capture_output=True, text=True, timeout=1500)
        ok = r.returncode == 0 and 'error' not in r.stdout
        out = (r.stdout + r.stderr)[-600:]
    except Exception as e:
        ok, out = False, str(e)
    sec = time.time() - t0
    for t in thms:
        run.count('lean/%s::%s' % (fname, t), ok, 'lean 4.33.0 + Mathlib', sec / max(1, len(thms)), 'property', 'unsat' if ok else 'unknown',
                  sample={'obligation': 'lean/%s::%s' % (fname, t), 'verdict': 'discharged' if ok else 'not checked', 'what': what})
    if not ok:
        run.undecide('lean/%s' % fname, 'lean did not accept the file: %s' % out)
    run.trust('Lean 4.33.0 kernel + Mathlib v4.33.0 for the spec-level lemmas in lean/%s' % fname)
