"""Parallel drivers: prove functions with the AST engine; run the run-time contract harness."""
import importlib
import multiprocessing as mp
import os
import random
import sys
import time
import traceback

JOBS = int(os.environ.get('VERIF_JOBS', '16'))
CONTRACT_MODULES = ['contracts.dict_operations', 'contracts.point', 'contracts.expression', 'contracts.evals', 'contracts.translations', 'contracts.pep', 'contracts.wrappers', 'contracts.block_partition', 'contracts.function', 'contracts.mosek', 'contracts.psd_matrix', 'contracts.pairs', 'contracts.pepeval', 'contracts.solve']


def load_contracts():
    for m in CONTRACT_MODULES:
        importlib.import_module(m)
    from .contract import REG
    return REG


def _prove(task):
    key, timeout_s, both = task
    try:
        REG = load_contracts()
        from .verify import verify_contract
        rep = verify_contract(REG.by_key[key], timeout_s=timeout_s, both=both)
        return key, rep
    except Exception as e:      # pragma: no cover
        from .verify import FunctionReport
        rep = FunctionReport(key)
        rep.out_of_subset = 'engine error: %s\n%s' % (e, traceback.format_exc()[-1500:])
        return key, rep


def prove_functions(keys, timeout_s=10, both=False):
    ctx = mp.get_context('fork')
    with ctx.Pool(min(JOBS, max(1, len(keys)))) as pool:
        out = dict(pool.map(_prove, [(k, timeout_s, both) for k in keys], chunksize=1))
    return out


# ------------------------------------------------------------------------------------- run time
def real_function(key):
    path, qual = key.split('::')
    mod = importlib.import_module(path[:-3].replace('/', '.'))
    obj = mod
    for part in qual.split('.'):
        obj = getattr(obj, part)
    return mod, obj


def make_input(c, key, seed, it):
    """deterministic input number `it` for contract c"""
    from . import gen
    rng = random.Random('%s|%s|%d' % (seed, key, it))
    mod, fn = real_function(key)
    w = gen.World(rng)
    if getattr(c, 'gen', None):
        return fn, c.gen(w, rng), w
    qual = key.split('::')[1]
    args = {}
    for n, ty in c.params:
        t = rng.choice([ty] + list(c.variants.get(n, [])))
        if n == 'self' and qual.endswith('__init__'):
            cls = getattr(mod, qual.split('.')[0])
            args[n] = cls.__new__(cls)
        else:
            args[n] = w.gen(t, n)
    return fn, args, w


def describe(v):
    d = getattr(v, 'decomposition_dict', None)
    if d is not None and hasattr(v, 'list_of_points'):
        return '%s(samples=%d, class_constraints=%d, class_lmis=%d)' % (type(v).__name__, len(v.list_of_points), len(v.list_of_class_constraints),
                                                                     len(v.list_of_class_psd))
    if d is not None and hasattr(v, '_is_leaf'):
        def kn(k):
            if isinstance(k, tuple):
                return '(%s,%s)' % (kn(k[0]), kn(k[1]))
            if hasattr(k, 'counter'):
                return '%s%s' % (type(k).__name__[0], k.counter)
            return repr(k)
        return '%s(leaf=%s, %s, value=%s)' % (type(v).__name__, v._is_leaf, {kn(k): c for k, c in d.items()},
                                              'None' if v._value is None else 'set')
    if hasattr(v, 'equality_or_inequality') and hasattr(v, 'expression'):
        return 'Constraint(%s, %s, value=%r, dual=%r)' % (describe(v.expression), v.equality_or_inequality, v._value, v._dual_variable_value)
    if isinstance(v, dict):
        return repr({describe(k) if not isinstance(k, (int, float, tuple)) else repr(k): x for k, x in v.items()})[:300]
    return repr(v)[:200]


def _runtime(task):
    key, n, seed = task
    out = {'key': key, 'accepted': 0, 'runs': 0, 'fails': [], 'inconclusive': 0, 'outcomes': {}, 'error': None, 'seconds': 0.0,
           'sample': None}
    t0 = time.time()
    try:
        if '/repo' not in sys.path:
            sys.path.insert(0, os.environ.get('PEPIT_REPO', '/repo'))
        REG = load_contracts()
        from . import concrete
        c = REG.by_key[key]
        for it in range(n):
            fn, args, w = make_input(c, key, seed, it)
            desc = {k: describe(v) for k, v in args.items()}
            rr = c.runtime_direct(fn, args) if getattr(c, 'runtime_direct', None) else concrete.run_contract(c, fn, args, REG.global_types)
            out['runs'] += 1
            out['accepted'] += bool(rr.accepted)
            out['inconclusive'] += len(rr.inconclusive)
            out['outcomes'][str(rr.outcome)] = out['outcomes'].get(str(rr.outcome), 0) + 1
            if out['sample'] is None and rr.accepted:
                out['sample'] = {'input': desc, 'outcome': rr.outcome}
            if rr.failed:
                out['fails'].append({'iteration': it, 'clauses': [list(x) for x in rr.failed], 'input': desc, 'outcome': rr.outcome})
    except Exception as e:
        out['error'] = '%s\n%s' % (e, traceback.format_exc()[-1200:])
    out['seconds'] = time.time() - t0
    return key, out


def runtime_functions(keys, n, seed):
    ctx = mp.get_context('fork')
    with ctx.Pool(min(JOBS, max(1, len(keys)))) as pool:
        return dict(pool.map(_runtime, [(k, n, seed) for k in keys], chunksize=1))


def replay_runtime(key, seed, it):
    if '/repo' not in sys.path:
        sys.path.insert(0, os.environ.get('PEPIT_REPO', '/repo'))
    REG = load_contracts()
    from . import concrete
    c = REG.by_key[key]
    fn, args, w = make_input(c, key, seed, it)
    rr = c.runtime_direct(fn, args) if getattr(c, 'runtime_direct', None) else concrete.run_contract(c, fn, args, REG.global_types)
    return rr, {k: describe(v) for k, v in args.items()}
