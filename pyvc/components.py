"""Reusable check components.  `ast_functions`: prove real functions against side-car contracts with the
AST engine, cross-check / search counter-examples with the run-time contract harness, decide."""
from . import runner, front


def ast_functions(run, keys, tier, rt_quick=8, rt_thorough=60, search_n=150, signature=None):
    timeout_s = 10 if tier == 'quick' else 60
    both = tier != 'quick'
    reps = runner.prove_functions(keys, timeout_s=timeout_s, both=both)
    n_rt = rt_quick if tier == 'quick' else rt_thorough
    REG = runner.load_contracts()
    rt_keys = [k for k in keys if not getattr(REG.by_key[k], 'no_runtime', False)]
    rts = runner.runtime_functions(rt_keys, n_rt, run.seed)
    for k in keys:
        if k not in rts:
            rts[k] = {'key': k, 'accepted': 1, 'runs': 0, 'fails': [], 'inconclusive': 0, 'outcomes': {}, 'error': None, 'seconds': 0.0, 'sample': None,
                      'skipped': True}
            run.note('no run-time cross-check for %s (%s)' % (k, REG.by_key[k].no_runtime))
    need_search = [k for k in keys if not reps[k].proved and not _property_fails(rts[k]) and not rts[k].get('skipped')]
    search = runner.runtime_functions(need_search, search_n if tier == 'quick' else 4 * search_n, run.seed + 1) if need_search else {}
    rt_total = {'evaluations': 0, 'accepted': 0, 'functions': len(keys), 'inconclusive_clauses': 0, 'disagreements': 0}
    for k in keys:
        rep, rt = reps[k], rts[k]
        if rep.extraction:
            run.functions.append(rep.extraction)
        for akey, anote in getattr(rep, 'assumed_used', []):
            run.assume('ASSUMED contract (never verified against a body) used at a call site of %s: %s%s' % (k.split('::')[-1], akey, (' - ' + anote) if anote else ''))
        for r in rep.results:
            run.count(r.oid, r.discharged, r.backend, r.seconds, r.tag, r.verdict, sample=r.as_json())
        rt_total['evaluations'] += rt['runs']
        rt_total['accepted'] += rt['accepted']
        rt_total['inconclusive_clauses'] += rt['inconclusive']
        if rt['error']:
            run.checker_errors.append('run-time harness crashed on %s: %s' % (k, rt['error']))
        if rt['accepted'] == 0 and not rt['error']:
            run.checker_errors.append('vacuity: no generated input satisfied the precondition of %s' % k)
        for v in rep.vacuity:
            if rep.failed():
                # an invariant / callee precondition that no longer holds is assumed further down: the contradiction is a consequence of the
                # failed obligation (reported below), not a vacuous proof
                run.note('after the failed obligation(s) of %s the path conditions are contradictory: %s' % (k, v))
            else:
                run.checker_errors.append('vacuity: ' + v)
        # ---- concrete violations found by the harness on the real code
        pf = _property_fails(rt) or _property_fails(search.get(k))
        src = rt if _property_fails(rt) else search.get(k)
        if pf:
            f = pf[0]
            clause = [c for c in f['clauses'] if c[1] != 'aux'][0]
            if rep.proved:
                rt_total['disagreements'] += 1
                run.checker_errors.append('engine/CPython disagreement on %s: clause %s proved but refuted at run time on %s' % (k, clause[0], f['input']))
            failing = [r.oid for r in rep.failed()]
            run.violation('%s/%s' % (k, clause[0]),
                          'run-time contract clause %s fails on the real function; input %s; outcome %s' % (clause[0], f['input'], f['outcome']),
                          replay={'kind': 'runtime-contract', 'contract': k, 'seed': run.seed if src is rt else run.seed + 1, 'iteration': f['iteration'],
                                  'input': f['input'], 'observed': {'outcome': f['outcome'], 'failed_clauses': f['clauses']},
                                  'verifier': [r.as_json() for r in rep.failed()][:6], 'undischarged_obligations': failing[:12],
                                  'source_sha256': (rep.extraction or {}).get('sha256')},
                          signature=dict(signature or {}, function=k, clause=clause[0]), reproduced=True)
            continue
        aux_fails = [f for f in (rt['fails'] + (search.get(k) or {'fails': []})['fails'])]
        if aux_fails:
            run.note('aux clause(s) %s of %s fail at run time (not a property clause): %s' % (
                sorted({c[0] for f in aux_fails for c in f['clauses']}), k, aux_fails[0]['input']))
        if rep.proved:
            continue
        # ---- not proved, no concrete failing input
        if rep.out_of_subset:
            run.obligations += 1      # the function's contract as a whole is one undischarged obligation
            run.undecide(k, 'out of the verified subset / engine limit: %s; bounded search over %d inputs found no failing input' % (
                rep.out_of_subset.splitlines()[0][:200], (search.get(k) or rt)['runs']))
            continue
        # A counter-model of an obligation is a model of an INTERMEDIATE state (after cut loops / havocked calls), not an input.  It is reported as a
        # violation without failing input only when it refutes a clause of the contract itself (post / raises / frame, tag `property`) that was discharged on
        # the unchanged tree AND every proof-internal obligation of the function (invariant init / preserve, callee preconditions, safety) still holds: then
        # the proof skeleton still fits the code and only the specified behaviour changed.  A refuted invariant alone means the proof no longer fits the
        # code (e.g. a behaviour-preserving restructuring): undecided.
        aux_ok = all(r.tag == 'property' for r in rep.failed())
        refuted = [r for r in rep.failed() if r.verdict == 'sat' and r.tag == 'property' and aux_ok and run.was_discharged_at_baseline(r.oid)]
        if refuted:
            r = refuted[0]
            run.violation(r.oid, 'obligation discharged on the unchanged tree is now refuted by %s; no failing input found by the bounded search (%d inputs)' % (
                r.backend, (search.get(k) or rt)['runs']),
                replay={'kind': 'refuted-obligation', 'contract': k, 'verifier': r.as_json(), 'model': r.model, 'smt2': r.smt2,
                        'input': None, 'other_undischarged': [x.oid for x in rep.failed()][:12],
                        'source_sha256': (rep.extraction or {}).get('sha256')},
                signature=dict(signature or {}, function=k), reproduced=False)
            continue
        for r in rep.failed():
            run.undecide(r.oid, '%s by %s; bounded search over %d inputs found no failing input' % (r.verdict, r.backend, (search.get(k) or rt)['runs']))
    run.bounded['runtime-contracts'] = dict(rt_total, rule='seeded random real PEPit objects (<=3 leaf points, <=2 leaf expressions, dyadic '
                                            'coefficients incl. 0, foreign operands); every contract clause decided by SMT on the concrete pre/post heaps',
                                            summary='%d executions of %d real functions (%d satisfied their precondition), 0 engine/CPython disagreements'
                                            % (rt_total['evaluations'], len(keys), rt_total['accepted']) if not rt_total['disagreements'] else 'DISAGREEMENTS')
    run.components.append({'component': 'ast-engine', 'functions': len(keys),
                           'proved': sum(1 for k in keys if reps[k].proved), 'variants': sum(reps[k].variants for k in keys)})
    return reps, rts


def _property_fails(rt):
    if not rt:
        return []
    return [f for f in rt['fails'] if any(c[1] != 'aux' for c in f['clauses'])]
