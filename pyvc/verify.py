"""verify one function (all parameter-type variants) against its side-car contract"""
import itertools
import time
import traceback
from . import front, smt, symex as sx
from .contract import REG


class FunctionReport:
    def __init__(self, key):
        self.key = key
        self.results = []          # smt.Result
        self.out_of_subset = None  # reason string
        self.extraction = None
        self.vacuity = []          # problems
        self.seconds = 0.0
        self.variants = 0
        self.canary = ''           # how non-vacuity was witnessed
        self.assumed_used = []     # (key, note) of every ASSUMED contract a call site of this function was checked against

    @property
    def proved(self):
        return self.out_of_subset is None and not self.vacuity and bool(self.results) and all(r.discharged for r in self.results)

    def failed(self):
        return [r for r in self.results if not r.discharged]


def variants_of(c):
    names = [n for n, _ in c.params if n in c.variants]
    if not names:
        return [({}, '')]
    out = []
    base = dict(c.params)
    for combo in itertools.product(*[[base[n]] + list(c.variants[n]) for n in names]):
        vt = dict(zip(names, combo))
        out.append((vt, ','.join('%s:%s' % (n, vt[n]) for n in names)))
    return out


def verify_contract(c, prefix='', timeout_s=10, both=False, source_override=None):
    """source_override: (FunctionDef, class_name) for self-tests on mutated text"""
    rep = FunctionReport(c.key)
    t0 = time.time()
    from . import sorts
    sorts._fresh[0] = 0          # symbol names do not depend on what this process verified before (solver heuristics are name-sensitive)
    try:
        if source_override is not None:
            fn, cls = source_override
        else:
            fn, cls, _ = front.find_function(c.path, c.qualname)
            rep.extraction = front.extraction_report(c.path, c.qualname)
    except KeyError as e:
        rep.out_of_subset = 'function not found: %s' % e
        return rep
    canary_ok = False
    n_canaries = 0
    for vt, vlabel in variants_of(c):
        rep.variants += 1
        qn = '%s%s::%s%s' % (prefix, c.path, c.qualname, ('{%s}' % vlabel) if vlabel else '')
        eng = sx.Engine(fn, c, REG, qn, cls, REG.global_types)
        try:
            obls = eng.verify(vt)
        except sx.OutOfSubset as e:
            rep.out_of_subset = '%s [%s]' % (e, vlabel)
            continue
        except Exception as e:      # engine bug: reported as undecided, never as a violation
            rep.out_of_subset = 'engine error: %s\n%s' % (e, traceback.format_exc()[-1500:])
            continue
        for item in getattr(eng, 'assumed_used', []):
            if item not in rep.assumed_used:
                rep.assumed_used.append(item)
        if eng.pre_sat == 'unsat':
            rep.vacuity.append('%s: precondition not satisfiable' % qn)
        if not obls:
            rep.vacuity.append('%s: zero obligations' % qn)
        for ob in obls:
            # once two obligations of this function are undischarged the function is undecided anyway: later ones get one attempt, no re-seeding / second solver
            degraded = len(rep.failed()) >= 2
            rep.results.append(smt.discharge(ob, timeout_s=min(timeout_s, 4) if degraded else timeout_s, both=both and not degraded, retry=not degraded))
        # canary: `False` at a normal exit must NOT be provable (else the path conditions are contradictory)
        for cn in eng.canaries:
            n_canaries += 1
            if canary_ok:
                break
            r = smt.discharge(cn, timeout_s=1, dump_failed=False)
            if r.verdict != 'unsat':
                canary_ok = True
                rep.canary = '%s: %s' % (cn.oid, r.verdict)
    if c.refines and rep.out_of_subset is None:
        # behavioural subtyping: callers that only know the base-class contract may rely on it for this override
        import z3
        from .sorts import fresh, I
        base = REG.by_key[c.refines]
        H0 = sx.Heap.symbolic('pre', REG.global_types)
        args = {n: sx.fresh_value(ty, n) for n, ty in c.params}
        eng = sx.Engine.__new__(sx.Engine)
        eng.obls, eng.discovery, eng.prune, eng.pending_exits, eng.exits = [], True, False, [], []
        eng.global_types, eng.reg, eng.qualname = REG.global_types, REG, 'refine'
        st = sx.State(H0.copy())
        st.pc += [H0.alloc >= 0] + sx.heap_ref_axioms(H0)
        for v in args.values():
            st.pc += eng.wf_param(H0, v)
        st.pc += [f for _, f in c.requires(H0, args)]
        # the post-state of an arbitrary call of the override, as a caller knowing ITS contract sees it (havoc + frame + ensures)
        res = eng.apply_contract(st, c, [args[n] for n, _ in c.params], {}, 0, 'refine')
        for lab, f in base.requires(H0, args):
            ob = sx.Obligation('%s%s::%s/refines.requires[%s]' % (prefix, c.path, c.qualname, lab), [g for _, g in c.requires(H0, args)] + [H0.alloc >= 0], f, 'property')
            rep.results.append(smt.discharge(ob, timeout_s=timeout_s, both=both))
        for lab, f, tg in base.ensures(H0, st.heap, args, res):
            ob = sx.Obligation('%s%s::%s/refines.ensures[%s]' % (prefix, c.path, c.qualname, lab), st.pc, f, tg)
            rep.results.append(smt.discharge(ob, timeout_s=timeout_s, both=both))
    if rep.out_of_subset is None and not getattr(c, 'never_returns', False):
        if n_canaries == 0 or not canary_ok:
            rep.vacuity.append('%s: no normal exit is reachable (canary `False` was provable at every exit)' % c.key)
    rep.seconds = time.time() - t0
    return rep
