"""entry point:  python -m pyvc.check <Cxx> --tier quick|thorough [--replay file]

exit 0: property held on everything explored (possibly KNOWN-FINDING / UNDECIDED lines)
exit 1: a line `VIOLATION property=<id> replay=<path>` was printed
exit 3: the checker itself failed (never a violation)"""
import argparse
import importlib
import json
import os
import sys
import traceback

HERE = os.path.dirname(os.path.dirname(os.path.abspath(__file__)))
sys.path.insert(0, HERE)
REPO = os.environ.get('PEPIT_REPO', '/repo')
sys.path.insert(0, REPO)


def main():
    ap = argparse.ArgumentParser()
    ap.add_argument('property')
    ap.add_argument('--tier', default=os.environ.get('VERIF_TIER', 'quick'), choices=['quick', 'thorough'])
    ap.add_argument('--replay')
    a = ap.parse_args()
    seed = int(os.environ.get('VERIF_SEED', '20261003'))
    import warnings
    warnings.filterwarnings('ignore')
    try:
        mod = importlib.import_module('props.' + a.property)
    except ImportError as e:
        print('no check for property %s (%s)' % (a.property, e), file=sys.stderr)
        return 3
    if a.replay:
        return replay(mod, a.property, a.replay)
    from pyvc.report import PropertyRun
    run = PropertyRun(a.property, a.tier, seed)
    try:
        mod.run(run)
        return run.finish()
    except Exception:
        traceback.print_exc()
        return 3


def replay(mod, pid, path):
    rec = json.load(open(path if os.path.isabs(path) else os.path.join(HERE, path)))
    print('replaying %s: %s' % (rec.get('obligation'), rec.get('what_fails')))
    if rec.get('kind') == 'runtime-contract':
        from pyvc import runner
        rr, desc = runner.replay_runtime(rec['contract'], rec['seed'], rec['iteration'])
        print('input:', desc)
        print('outcome:', rr.outcome, 'failed clauses:', rr.failed)
        bad = [c for c in rr.failed if c[1] != 'aux']
        if bad:
            print('VIOLATION property=%s replay=%s' % (pid, path))
            return 1
        print('not reproduced on the current tree')
        return 0
    if hasattr(mod, 'replay'):
        return mod.replay(rec, path)
    print('no failing input recorded (obligation-level finding); re-run the check to re-derive the obligation')
    return 0


if __name__ == '__main__':
    sys.exit(main())
