"""Assumed external contract of the cvxpy modelling API, as far as PEPit's CvxpyWrapper uses it (DESIGN.md 3.4).

cvxpy objects are modelled by what they DENOTE (this is the assumption; it cannot be checked against cvxpy here):
  * a Variable is an opaque object (class tag CvxVar) with a shape;
  * an affine expression over the wrapper's two main variables is the value  aff(Fvar, Gvar, Fw, Gw, c)
        = c + <Fvar, Fw> + sum(Gvar o Gw)         built by  `c + F @ Fw + cp.sum(cp.multiply(G, Gw))`
  * M[i, j] of an auxiliary symmetric variable M is the value  entry(M, i, j);
  * a constraint is a heap object (class tag CvxCons) whose ghost fields say what it denotes:
        ck = 1: var >> 0        ck = 2: aff <= 0      ck = 3: aff == 0      ck = 4: entry(M,i,j) == aff     ck = 5: aff >= rhs
"""
import ast
import z3
from .sorts import *          # noqa
from . import symex as sx
from .symex import V, T, OutOfSubset, vint, vreal, to_real, TArr1, TArr2, A2

TExpr, TEntry, TElem = T('cvxexpr'), T('cvxentry'), T('cvxelem')
KIND = {'psd': 1, 'le0': 2, 'eq0': 3, 'entry': 4, 'ge': 5}
for _c in ('CvxVar', 'CvxCons', 'CvxExprObj', 'CvxProb', 'CvxObjective'):
    tag(_c)

sx.FIELD_TYPES.update({
    'CvxCons.ck': sx.TInt, 'CvxCons.cvar': sx.TRef('CvxVar'), 'CvxCons.cF': sx.TInt, 'CvxCons.cG': sx.TInt,
    'CvxCons.cFw': TArr1, 'CvxCons.cGw': TArr2, 'CvxCons.cc': sx.TReal, 'CvxCons.ci': sx.TInt, 'CvxCons.cj': sx.TInt, 'CvxCons.crhs': sx.TReal,
    'CvxVar.symmetric': sx.TBool,
    'CvxExprObj.cF': sx.TInt, 'CvxExprObj.cG': sx.TInt, 'CvxExprObj.cFw': TArr1, 'CvxExprObj.cGw': TArr2, 'CvxExprObj.cc': sx.TReal,
    'CvxObjective.sense': sx.TInt, 'CvxObjective.expr': sx.TRef('CvxExprObj'),       # sense: 1 maximise, -1 minimise
    'CvxProb.objective': sx.TRef('CvxObjective'), 'CvxProb.constraints': sx.TList(sx.TRef('CvxCons')),
})

_old_sort = sx.smt_sort


def smt_sort(t):
    if t.k == 'arr1':
        return IA_R
    if t.k == 'arr2':
        return A2
    return _old_sort(t)


sx.smt_sort = smt_sort

ZERO1 = z3.K(I, z3.RealVal(0))


def zero2():
    i, j = fresh('i', I), fresh('j', I)
    return z3.Lambda([i, j], z3.RealVal(0))


def mk_expr(Fvar, Gvar, Fw, Gw, c):
    return V(TExpr, items=[Fvar, Gvar, Fw, Gw, c])


def add_expr(a, b, line):
    if a.ty.k in ('int', 'real'):
        a = mk_expr(None, None, ZERO1, zero2(), to_real(a.t))
    if b.ty.k in ('int', 'real'):
        b = mk_expr(None, None, ZERO1, zero2(), to_real(b.t))
    if a.ty.k != 'cvxexpr' or b.ty.k != 'cvxexpr':
        raise OutOfSubset('cvxpy expression sum with %r, %r at line %d' % (a.ty, b.ty, line))

    def pick(x, y):
        if x is None:
            return y
        if y is None or x.eq(y):
            return x
        raise OutOfSubset('cvxpy expressions over different variables at line %d' % line)
    i, j, k = fresh('i', I), fresh('j', I), fresh('k', I)
    return mk_expr(pick(a.items[0], b.items[0]), pick(a.items[1], b.items[1]),
                   z3.Lambda([k], a.items[2][k] + b.items[2][k]), z3.Lambda([i, j], a.items[3][i, j] + b.items[3][i, j]), a.items[4] + b.items[4])


def new_cons(eng, st, kind, **fields):
    r = eng.alloc(st, 'CvxCons')
    eng.write_field(st, 'CvxCons', 'ck', r, vint(KIND[kind]), 0)
    for name, v in fields.items():
        if v is None:
            continue
        ty = sx.FIELD_TYPES['CvxCons.' + name]
        base = 'f:CvxCons.' + name
        st.heap.set(base, z3.Store(st.heap.A(base, z3.ArraySort(I, smt_sort(ty))), r, v))
    return V(sx.TRef('CvxCons'), r)


def cons_from_expr(eng, st, kind, e, rhs=None):
    F, G, Fw, Gw, c = e.items
    return new_cons(eng, st, kind, cF=F if F is not None else z3.IntVal(-1), cG=G if G is not None else z3.IntVal(-1), cFw=Fw, cGw=Gw, cc=c, crhs=rhs)


def box(eng, st, e):
    """a cvxpy expression stored in an attribute / passed to Problem: a heap object carrying the same denotation"""
    r = eng.alloc(st, 'CvxExprObj')
    F, G, Fw, Gw, c = e.items
    for name, v in (('cF', F if F is not None else z3.IntVal(-1)), ('cG', G if G is not None else z3.IntVal(-1)), ('cFw', Fw), ('cGw', Gw), ('cc', c)):
        base = 'f:CvxExprObj.' + name
        st.heap.set(base, z3.Store(st.heap.A(base, z3.ArraySort(I, smt_sort(sx.FIELD_TYPES['CvxExprObj.' + name]))), r, v))
    return V(sx.TRef('CvxExprObj'), r)


def unbox(st, r):
    g = lambda n: st.heap.A('f:CvxExprObj.' + n, z3.ArraySort(I, smt_sort(sx.FIELD_TYPES['CvxExprObj.' + n])))[r]
    return mk_expr(g('cF'), g('cG'), g('cFw'), g('cGw'), g('cc'))


def install(Engine):
    """extend the engine with the cvxpy model"""
    old_call_py, old_arith, old_compare, old_subscript, old_fresh = Engine.call_py, Engine.arith, Engine.compare, Engine.ev_Subscript, sx.fresh_value

    def call_py(self, st, what, args, kw, e):
        line = e.lineno
        if what[0] == 'attr' and what[1] == ('module', 'cp'):
            n = what[2]
            if n == 'Variable' and len(args) == 1 and args[0].ty.k == 'tuple':
                dims = [self.as_int(st, d, line) for d in args[0].items]
                r = self.alloc(st, 'CvxVar')
                st.heap.set('f:shape0', z3.Store(st.heap.A('f:shape0', IA_I), r, dims[0].t))
                st.heap.set('f:shape1', z3.Store(st.heap.A('f:shape1', IA_I), r, dims[1].t if len(dims) > 1 else z3.IntVal(-1)))
                sym = kw.get('symmetric')
                st.heap.set('f:CvxVar.symmetric', z3.Store(st.heap.A('f:CvxVar.symmetric', z3.ArraySort(I, B)), r, sym.t if sym is not None else z3.BoolVal(False)))
                return V(sx.TRef('CvxVar'), r)
            if n == 'multiply' and len(args) == 2 and args[0].ty.k == 'opt' and args[0].ty.a[0].k == 'ref':
                self.emit('safe.operand_not_none@%d' % line, st, z3.Not(args[0].none), line, tag='aux')
                args = [V(args[0].ty.a[0], args[0].t), args[1]]
            if n == 'multiply' and len(args) == 2 and args[0].ty.k == 'ref' and args[1].ty.k == 'arr2':
                return V(TElem, items=[args[0].t, args[1].t])
            if n == 'sum' and len(args) == 1 and args[0].ty.k == 'cvxelem':
                return mk_expr(None, args[0].items[0], ZERO1, args[0].items[1], z3.RealVal(0))
            if n in ('Maximize', 'Minimize') and len(args) == 1:
                ex = args[0] if args[0].ty.k == 'ref' else box(self, st, args[0])
                r = self.alloc(st, 'CvxObjective')
                st.heap.set('f:CvxObjective.sense', z3.Store(st.heap.A('f:CvxObjective.sense', IA_I), r, z3.IntVal(1 if n == 'Maximize' else -1)))
                st.heap.set('f:CvxObjective.expr', z3.Store(st.heap.A('f:CvxObjective.expr', IA_I), r, ex.t))
                return V(sx.TRef('CvxObjective'), r)
            if n == 'Problem' and set(kw) == {'objective', 'constraints'} and kw['constraints'].ty.k == 'list':
                r = self.alloc(st, 'CvxProb')
                src = kw['constraints']
                cp_list = self.new_list(st, sx.TRef('CvxCons'))        # cvxpy keeps its own list with the same constraint objects, in order
                st.heap.set('len', z3.Store(st.heap.A('len'), cp_list.t, st.heap.len(src.t)))
                st.heap.set('eltI', z3.Store(st.heap.A('eltI'), cp_list.t, st.heap.A('eltI')[src.t]))
                st.heap.set('f:CvxProb.objective', z3.Store(st.heap.A('f:CvxProb.objective', IA_I), r, kw['objective'].t))
                st.heap.set('f:CvxProb.constraints', z3.Store(st.heap.A('f:CvxProb.constraints', IA_I), r, cp_list.t))
                return V(sx.TRef('CvxProb'), r)
        return old_call_py(self, st, what, args, kw, e)

    def arith(self, op, a, b, st, line):
        a, b = self.unwrap_operand(a, st, line), self.unwrap_operand(b, st, line)
        if isinstance(op, ast.MatMult) and a.ty.k == 'ref' and a.ty.a[0] == 'CvxVar' and b.ty.k == 'arr1':
            return mk_expr(a.t, None, b.t, zero2(), z3.RealVal(0))
        if isinstance(op, ast.Add) and (a.ty.k == 'cvxexpr' or b.ty.k == 'cvxexpr'):
            return add_expr(a, b, line)
        if isinstance(op, ast.Sub) and a.ty.k in ('int', 'real') and b.ty.k in ('int', 'real'):
            return old_arith(self, op, a, b, st, line)
        if isinstance(op, ast.RShift) and a.ty.k == 'ref' and a.ty.a[0] == 'CvxVar' and b.ty.k == 'int':
            return new_cons(self, st, 'psd', cvar=a.t)
        if isinstance(op, ast.Add) and a.ty.k == 'list' and b.ty.k == 'list':
            raise OutOfSubset('list concatenation at line %d' % line)
        return old_arith(self, op, a, b, st, line)

    def compare(self, op, a, b, st, line):
        if a.ty.k == 'cvxexpr' and b.ty.k in ('int', 'real'):
            if isinstance(op, ast.LtE) and z3.is_true(z3.simplify(to_real(b.t) == 0)):
                return cons_from_expr(self, st, 'le0', a)
            if isinstance(op, ast.Eq) and z3.is_true(z3.simplify(to_real(b.t) == 0)):
                return cons_from_expr(self, st, 'eq0', a)
            if isinstance(op, ast.GtE):
                return cons_from_expr(self, st, 'ge', a, rhs=to_real(b.t))
            raise OutOfSubset('cvxpy comparison %s at line %d' % (type(op).__name__, line))
        if a.ty.k == 'opt' and a.ty.a[0].k == 'ref' and a.ty.a[0].a[0] == 'CvxExprObj':
            a = self.unwrap_operand(a, st, line)
        if a.ty.k == 'ref' and a.ty.a[0] == 'CvxExprObj' and b.ty.k in ('int', 'real') and isinstance(op, ast.GtE):
            return cons_from_expr(self, st, 'ge', unbox(st, a.t), rhs=to_real(b.t))
        if a.ty.k == 'cvxentry' and b.ty.k == 'cvxexpr' and isinstance(op, ast.Eq):
            F, G, Fw, Gw, c = b.items
            return new_cons(self, st, 'entry', cvar=a.items[0], ci=a.items[1], cj=a.items[2],
                            cF=F if F is not None else z3.IntVal(-1), cG=G if G is not None else z3.IntVal(-1), cFw=Fw, cGw=Gw, cc=c)
        return old_compare(self, op, a, b, st, line)

    def ev_Subscript(self, e, st):
        if not isinstance(e.slice, ast.Slice):
            base = self.ev(e.value, st)
            if base.ty.k == 'ref' and base.ty.a[0] == 'CvxVar':
                idx = self.ev(e.slice, st)
                if idx.ty.k == 'tuple' and len(idx.items) == 2 and all(x.ty.k == 'int' for x in idx.items):
                    return V(TEntry, items=[base.t, idx.items[0].t, idx.items[1].t])
                raise OutOfSubset('cvxpy variable index at line %d' % e.lineno)
        return old_subscript(self, e, st)

    def fresh_value(ty, base):
        if ty.k == 'cvxexpr':
            return mk_expr(fresh(base + '.F', I), fresh(base + '.G', I), fresh(base + '.Fw', IA_R), fresh(base + '.Gw', A2), fresh(base + '.c', R))
        return old_fresh(ty, base)

    old_write = Engine.write_field

    def write_field(self, st, cls, attr, r, v, line):
        if v.ty.k == 'cvxexpr':
            v = box(self, st, v)
        return old_write(self, st, cls, attr, r, v, line)

    Engine.write_field = write_field
    Engine.call_py, Engine.arith, Engine.compare, Engine.ev_Subscript = call_py, arith, compare, ev_Subscript
    sx.fresh_value = fresh_value


install(sx.Engine)
