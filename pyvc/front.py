"""Front end: locate the real source of a function under /repo, parse it, report what is dropped."""
import ast
import hashlib
import os

REPO = os.environ.get('PEPIT_REPO', '/repo')
_cache = {}


def parse_file(relpath):
    p = os.path.join(REPO, relpath)
    st = os.stat(p)
    k = (p, st.st_mtime_ns, st.st_size)
    if k not in _cache:
        src = open(p).read()
        import warnings
        with warnings.catch_warnings():
            warnings.simplefilter('ignore')
            _cache[k] = (src, ast.parse(src))
    return _cache[k]


def find_function(relpath, qualname):
    """returns (FunctionDef, class_name or None, source segment)"""
    src, tree = parse_file(relpath)
    parts = qualname.split('.')
    body, cls = tree.body, None
    node = None
    for i, name in enumerate(parts):
        node = None
        for n in body:
            if isinstance(n, (ast.FunctionDef, ast.ClassDef)) and n.name == name:
                node = n
                break
        if node is None:
            raise KeyError('%s::%s not found' % (relpath, qualname))
        if isinstance(node, ast.ClassDef):
            cls = node.name
        body = node.body
    if not isinstance(node, ast.FunctionDef):
        raise KeyError('%s::%s is not a function' % (relpath, qualname))
    seg = ast.get_source_segment(src, node)
    return node, cls, seg


def class_hierarchy(relpaths):
    """(child, parent) pairs read from the class statements"""
    out = []
    for rp in relpaths:
        src, tree = parse_file(rp)
        for n in tree.body:
            if isinstance(n, ast.ClassDef):
                for b in n.bases:
                    if isinstance(b, ast.Name):
                        out.append((n.name, b.id))
    return out


def extraction_report(relpath, qualname):
    node, cls, seg = find_function(relpath, qualname)
    dropped = []
    n_stmts = 0
    for x in ast.walk(node):
        if isinstance(x, ast.stmt):
            n_stmts += 1
        if isinstance(x, ast.Expr) and isinstance(x.value, ast.Constant) and isinstance(x.value.value, str):
            dropped.append('docstring@%d' % x.lineno)
        if isinstance(x, (ast.Import, ast.ImportFrom)):
            dropped.append('import@%d' % x.lineno)
        if isinstance(x, ast.Call) and isinstance(x.func, ast.Name) and x.func.id == 'print':
            dropped.append('print@%d' % x.lineno)
        if isinstance(x, ast.Call) and isinstance(x.func, ast.Attribute) and x.func.attr == 'warn':
            dropped.append('warnings.warn@%d' % x.lineno)
    import copy
    from . import symex as _sx
    if ast.dump(_sx.DesugarComprehension().visit(copy.deepcopy(node))) != ast.dump(node):
        dropped.append('rewritten: nested list comprehension inside np.array(...) expanded into the two loops it abbreviates (same evaluation order)')
    return {'file': relpath, 'function': qualname, 'lines': [node.lineno, node.end_lineno],
            'sha256': hashlib.sha256(seg.encode()).hexdigest(), 'statements': n_stmts, 'dropped': dropped}


def all_repo_py(sub='PEPit', exclude=('examples',)):
    out = []
    base = os.path.join(REPO, sub)
    for d, dirs, files in os.walk(base):
        dirs[:] = [x for x in dirs if x not in exclude and not x.startswith('__')]
        for f in sorted(files):
            if f.endswith('.py'):
                out.append(os.path.relpath(os.path.join(d, f), REPO))
    return sorted(out)
