"""Per-property run record: obligations, violations, known findings, replay files, evidence JSON."""
import hashlib
import json
import os
import re
import sys
import time

HERE = os.path.dirname(os.path.dirname(os.path.abspath(__file__)))
EVID = os.path.join(HERE, 'evidence')
REPLAYS = os.path.join(HERE, 'replays')
KNOWN = os.path.join(HERE, 'known_findings.json')
BASELINE = os.path.join(HERE, 'baseline_obligations.json')

COMMON_ASSUMPTIONS = [
    'machine arithmetic treated as mathematical: Python float is REAL, int is mathematical',
    'home-made VC generator (pyvc) is trusted: its encoding of the Python subset (DESIGN.md 2.3) is cross-checked against CPython '
    'by the run-time contract harness on every run, not proved',
    'dict keys are hashed by identity without collisions (Point / Expression define no value equality used by dict lookup)',
    'static field typing table (pyvc.symex.FIELD_TYPES): e.g. decomposition_dict always holds a dict; references point to live objects',
]


def load_json(path, default):
    try:
        with open(path) as f:
            return json.load(f)
    except FileNotFoundError:
        return default


class Violation:
    def __init__(self, obligation, what, replay=None, signature=None, reproduced=True):
        self.obligation, self.what, self.replay, self.signature, self.reproduced = obligation, what, replay or {}, signature or {}, reproduced
        self.path = None


class PropertyRun:
    def __init__(self, pid, tier, seed):
        self.pid, self.tier, self.seed = pid, tier, seed
        self.t0 = time.time()
        self.obligations = 0
        self.discharged = 0
        self.samples = []
        self.functions = []
        self.violations = []
        self.undecided = []
        self.notes = []
        self.trusted = []
        self.assumptions = list(COMMON_ASSUMPTIONS)
        self.bounded = {}
        self.backends = {}
        self.solver_seconds = 0.0
        self.checker_errors = []
        self.components = []
        self.extra = {}
        self.baseline = load_json(BASELINE, {}).get(pid, {})
        self.new_baseline = {}

    # ------------------------------------------------------------------ accounting
    def count(self, oid, discharged, backend='', seconds=0.0, tag='property', verdict=None, sample=None):
        self.obligations += 1
        self.discharged += bool(discharged)
        self.backends[backend] = self.backends.get(backend, 0) + 1
        self.solver_seconds += seconds
        self.new_baseline[oid] = 'discharged' if discharged else (verdict or 'failed')
        if sample is not None and (len(self.samples) < 40 or not discharged):
            self.samples.append(sample)

    def violation(self, obligation, what, replay=None, signature=None, reproduced=True):
        self.violations.append(Violation(obligation, what, replay, signature, reproduced))

    def undecide(self, obligation, why):
        self.undecided.append({'obligation': obligation, 'why': why})

    def note(self, text):
        self.notes.append(text)

    def trust(self, *items):
        for i in items:
            if i not in self.trusted:
                self.trusted.append(i)

    def assume(self, *items):
        for i in items:
            if i not in self.assumptions:
                self.assumptions.append(i)

    def was_discharged_at_baseline(self, oid):
        # path ordinals (#n) change with the code: a clause counts as discharged at baseline when every instance of it was
        stem = re.sub(r'#\d+$', '', oid)
        same = [v for k, v in self.baseline.items() if re.sub(r'#\d+$', '', k) == stem]
        return bool(same) and all(v == 'discharged' for v in same)

    # ------------------------------------------------------------------ finish
    def write_replay(self, v):
        d = os.path.join(REPLAYS, self.pid)
        os.makedirs(d, exist_ok=True)
        h = hashlib.sha1((v.obligation + json.dumps(v.replay, sort_keys=True, default=str)).encode()).hexdigest()[:12]
        path = os.path.join(d, h + '.json')
        rec = {'property': self.pid, 'obligation': v.obligation, 'what_fails': v.what,
               'reproduced_on_real_code': bool(v.reproduced), 'signature': v.signature}
        rec.update(v.replay)
        rec['rerun'] = 'bin/check %s --replay %s' % (self.pid, os.path.relpath(path, HERE))
        with open(path, 'w') as f:
            json.dump(rec, f, indent=1, default=str)
        v.path = os.path.relpath(path, HERE)
        return v.path

    def match_known(self, v, known):
        for k in known.get('findings', []):
            if k.get('property') != self.pid:
                continue
            if k.get('obligation') != v.obligation:
                continue
            sig = k.get('signature', {})
            if all(v.signature.get(a) == b for a, b in sig.items()):
                return k
        return None

    def finish(self):
        known = load_json(KNOWN, {'findings': [], 'fixed': []})
        real, knowns = [], []
        for v in self.violations:
            k = self.match_known(v, known)
            (knowns if k else real).append((v, k))
        for v, k in knowns:
            print('KNOWN-FINDING: property=%s %s [%s] %s' % (self.pid, k.get('id', ''), v.obligation, k.get('what_fails', v.what)))
        for u in self.undecided:
            print('UNDECIDED property=%s obligation=%s (%s)' % (self.pid, u['obligation'], u['why'][:300]))
        for n in self.notes:
            print('NOTE property=%s %s' % (self.pid, n))
        for v, _ in real:
            p = self.write_replay(v)
            print('VIOLATION property=%s replay=%s%s' % (self.pid, p, '' if v.reproduced else ' no-failing-input-found'))
            print('   obligation: %s\n   what: %s' % (v.obligation, v.what))
        wall = time.time() - self.t0
        proved_all = self.obligations > 0 and self.discharged == self.obligations and not self.undecided and not real
        claimed = 'other'
        for c in load_json(os.path.join(HERE, 'MANIFEST.json'), {}).get('checks', []):
            if c.get('property_id') == self.pid:
                claimed = c.get('level_claimed', {}).get('category', 'other')
        # the level written is the level claimed in MANIFEST.json whenever this run supports it; a proof-level claim needs every
        # obligation discharged, nothing undecided, no violation and no known finding among the obligations
        level = 'proof' if (claimed == 'proof' and proved_all and not knowns) else 'other'
        cov = {
            'obligations': self.obligations, 'discharged': self.discharged,
            'checker_cmd': 'bin/check %s --tier %s' % (self.pid, self.tier),
            'trusted_base': self.trusted,
            'samples': self.samples[:60],
            'functions_under_contract': self.functions,
            'backends': self.backends, 'solver_seconds': round(self.solver_seconds, 3),
            'components': self.components,
            'bounded': self.bounded,
            'undecided': self.undecided, 'notes': self.notes,
            'known_findings_reported': [{'id': k.get('id'), 'obligation': v.obligation} for v, k in knowns],
            'violations_reported': [{'obligation': v.obligation, 'what': v.what, 'replay': v.path, 'reproduced_on_real_code': v.reproduced}
                                    for v, _ in real],
        }
        cov.update(self.extra)
        expl = []
        if level == 'other':
            if self.discharged < self.obligations:
                expl.append('%d of %d obligations not discharged' % (self.obligations - self.discharged, self.obligations))
            if self.undecided:
                expl.append('%d obligations undecided (bounded stand-in only): %s' % (len(self.undecided), ', '.join(u['obligation'] for u in self.undecided[:8])))
            if knowns:
                expl.append('known findings: ' + ', '.join(sorted({str(k.get('id')) for _, k in knowns})))
            if real:
                expl.append('%d violation(s) reported' % len(real))
        bparts = ['%s: %s' % (k, v.get('summary', '')) for k, v in self.bounded.items()]
        cov['explanation'] = ('; '.join(expl) + '. ' if expl else 'all obligations discharged. ') + \
            ('Bounded stand-ins (never counted as proved): ' + ' | '.join(bparts) if bparts else '')
        ev = {'property_id': self.pid, 'tier': self.tier, 'seed': int(self.seed), 'level': level, 'coverage': cov,
              'assumptions': self.assumptions, 'wall_s': round(wall, 2), 'violations': len(real)}
        os.makedirs(EVID, exist_ok=True)
        if not os.environ.get('VERIF_NO_EVIDENCE'):          # (self-tests on scratch copies must not overwrite the evidence of the real tree)
            with open(os.path.join(EVID, self.pid + '.json'), 'w') as f:
                json.dump(ev, f, indent=1, default=str)
        try:
            import jsonschema
            schema = load_json('/root/.vp/EVIDENCE.schema.json', None)
            if schema:
                jsonschema.validate(ev, schema)
        except ImportError:
            pass
        if os.environ.get('VERIF_WRITE_BASELINE'):
            allb = load_json(BASELINE, {})
            allb[self.pid] = self.new_baseline
            with open(BASELINE, 'w') as f:
                json.dump(allb, f, indent=0, sort_keys=True)
        print('%s %s: obligations=%d discharged=%d undecided=%d known=%d violations=%d level=%s wall=%.1fs' % (
            self.pid, self.tier, self.obligations, self.discharged, len(self.undecided), len(knowns), len(real), level, wall))
        if self.checker_errors:
            for e in self.checker_errors:
                print('CHECKER-ERROR %s' % e, file=sys.stderr)
            return 3
        return 1 if real else 0
