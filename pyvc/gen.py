"""Seeded generators of REAL PEPit objects for the run-time contract harness (bounded stand-in).

Scalars are small dyadic rationals so that float arithmetic on them is exact and the run-time
evaluation of a contract (exact rational arithmetic in the solver) is not disturbed by rounding."""
import importlib
import random

TINY = 2.0 ** -45        # a tiny dyadic (2.8e-14): exact in float arithmetic, below any plausible round-off threshold
SCALARS = [-2, -1, -0.5, 0, 0.25, 0.5, 1, 2, 3, 4, -3, 1.5, TINY, -TINY, 0]
DIVISORS = [-2, -0.5, 0, 0.25, 1, 2, 4, 0.5, -1]


class Opaque:
    """a foreign operand: no special methods"""
    def __repr__(self): return 'Opaque()'


class World:
    def __init__(self, rng, n_points=3, n_exprs=2):
        self.rng = rng
        pep = importlib.import_module('PEPit.pep')
        self.PEP = pep.PEP
        self.Point = importlib.import_module('PEPit.point').Point
        self.Expression = importlib.import_module('PEPit.expression').Expression
        self.Constraint = importlib.import_module('PEPit.constraint').Constraint
        self.problem = self.PEP()
        self.leaf_points = [self.Point() for _ in range(n_points)]
        self.leaf_exprs = [self.Expression() for _ in range(n_exprs)]

    def scalar(self):
        x = self.rng.choice(SCALARS)
        return float(x) if self.rng.random() < 0.5 else (int(x) if float(x).is_integer() else x)

    def point_dict(self, allow_zero=True):
        d = {}
        for p in self.leaf_points:
            if self.rng.random() < 0.6:
                c = self.rng.choice(SCALARS)
                if c != 0 or (allow_zero and self.rng.random() < 0.5):
                    d[p] = c
        return d

    def expr_dict(self, allow_zero=True):
        d = {}
        for e in self.leaf_exprs:
            if self.rng.random() < 0.5:
                d[e] = self.rng.choice(SCALARS)
        for p in self.leaf_points:
            for q in self.leaf_points:
                if self.rng.random() < 0.25:
                    d[(p, q)] = self.rng.choice(SCALARS)
        if self.rng.random() < 0.5:
            d[1] = self.rng.choice(SCALARS)
        if not allow_zero:
            d = {k: v for k, v in d.items() if v != 0}
        return d

    def any_dict(self):
        r = self.rng.random()
        if r < 0.35:
            return self.point_dict()
        if r < 0.7:
            return self.expr_dict()
        d = {}
        keys = self.leaf_points + self.leaf_exprs + [1] + [(p, q) for p in self.leaf_points[:2] for q in self.leaf_points[:2]]
        for k in keys:
            if self.rng.random() < 0.4:
                d[k] = self.rng.choice(SCALARS)
        return d

    def point(self):
        if self.rng.random() < 0.35:
            return self.rng.choice(self.leaf_points)
        return self.Point(is_leaf=False, decomposition_dict=self.point_dict())

    def expression(self):
        if self.rng.random() < 0.3:
            return self.rng.choice(self.leaf_exprs)
        return self.Expression(is_leaf=False, decomposition_dict=self.expr_dict())

    def opaque(self):
        return self.rng.choice([Opaque(), 'a string', [1, 2], None, {'a': 1}])

    def gen(self, ty, name=''):
        k = ty.k
        if k == 'real':
            if 'denominator' in name:
                return self.rng.choice(DIVISORS)
            return self.scalar()
        if k == 'int':
            return self.rng.choice([2, 2, 2, 0, 1, 3, -1])
        if k == 'bool':
            return self.rng.random() < 0.5
        if k == 'str':
            return self.rng.choice(['equality', 'inequality', 'equality', 'inequality', 'other'])
        if k == 'opt':
            return None if self.rng.random() < 0.4 else self.gen(ty.a[0], name)
        if k == 'dict':
            return self.any_dict()
        if k == 'ref':
            c = ty.a[0]
            if c == 'Point':
                return self.point()
            if c == 'Expression':
                return self.expression()
            if c == 'Constraint':
                return self.Constraint(self.expression(), self.rng.choice(['equality', 'inequality']))
        if k == 'any':
            return self.opaque()
        raise NotImplementedError('no generator for %r' % (ty,))
