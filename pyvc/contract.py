"""Side-car contract objects and the registry the engine resolves calls against."""
import z3
from .sorts import *      # noqa
from . import symex as sx


class Contract:
    """requires / ensures / raises / modifies of one real function, keyed by `path::qualname`.

    ensures(S0, S, a, res) -> list of (label, formula, tag)   tag in {'property', 'aux'}
    requires(S0, a)        -> list of (label, formula)
    raises                 -> list of (ExceptionName, when(S0, a) -> formula):  the exception is raised
                              IF AND ONLY IF `when` holds in the pre-state
    modifies(S0, a)        -> {heap array name: predicate(r)}  pre-existing objects that may change
    touches(S0, a)         -> heap arrays the callee may write at all (fresh objects included)
    loops                  -> {ordinal: {'inv': fn(LoopCtx) -> [(label, formula)], 'mods': fn(LoopCtx) -> {...}}}
    """
    def __init__(self, key, params, returns=None, requires=None, ensures=None, raises=None, modifies=None,
                 touches=None, loops=None, defaults=None, variants=None, mod_globals=(), result=None,
                 adapt=None, assumed=False, note='', array_sorts=None, axioms=None, gen=None, runtime=None, local_types=None, runtime_pre=None, defs=None, refines=None, pure=False, allocates=True):
        self.key, self.params, self.returns = key, params, returns
        self._requires = requires or (lambda S, a: [])
        self._ensures = ensures or (lambda S0, S, a, r: [])
        self.raises = raises or []
        self._modifies = modifies or (lambda S, a: {})
        self._touches = touches
        self.loops = loops or {}
        self.defaults = defaults or {}
        self.variants = variants or {}
        self.mod_globals = list(mod_globals)
        self._result = result
        self._adapt = adapt
        self.assumed = assumed            # True: external / trusted contract, never verified against a body
        self.note = note
        self._array_sorts = array_sorts or {}
        self.axioms = axioms or (lambda: [])   # definitional axioms of spec functions used by this contract (assumed)
        self.local_types = local_types or {}   # checked type hints for locals bound to dict keys
        self.runtime_pre = runtime_pre
        self.allocates = allocates and not pure    # False: the call allocates no heap object (checked at the definition)
        self.pure = pure                       # no heap effect at all (nothing written, nothing allocated): checked as `no_allocation` + frame at the definition
        self.refines = refines                 # key of an abstract (base-class) contract whose ensures this contract's ensures must imply
        self.defs = defs or (lambda S, a: [])   # definitional axioms of spec functions over the pre-state (assumed at definition AND at call sites)
        self.gen = gen                         # custom input generator for the run-time harness
        self.runtime = runtime                 # custom run-time oracle (for clauses over uninterpreted spec functions)

    @property
    def path(self): return self.key.split('::')[0]
    @property
    def qualname(self): return self.key.split('::')[1]

    def returns_for(self, a):
        return self.returns(a) if callable(self.returns) else self.returns

    def requires(self, S, a): return self._requires(S, a)
    def ensures(self, S0, S, a, r): return [(x if len(x) == 3 else (x[0], x[1], 'property')) for x in self._ensures(S0, S, a, r)]
    def modifies(self, S, a): return self._modifies(S, a)

    def touches(self, S, a):
        if self._touches is not None:
            return self._touches(S, a)
        return sorted(self._modifies(S, a))

    def array_sort(self, name):
        return self._array_sorts.get(name)

    def adapt_args(self, eng, st, a, line):
        """coerce call-site argument values to the declared parameter types (or pick the variant)"""
        out = {}
        for (n, ty) in self.params:
            v = a[n]
            want = [ty] + list(self.variants.get(n, []))
            out[n] = coerce_arg(eng, st, v, want, self.key, n, line)
        if self._adapt:
            out = self._adapt(eng, st, out, line)
        return out

    def fresh_result(self, eng, st, S0, a):
        if self._result is not None:
            return self._result(eng, st, S0, a)
        rt = self.returns_for(a)
        if rt is None or rt.k == 'none':
            return sx.VNONE
        res = sx.fresh_value(rt, 'res')
        for f in result_wf(st.heap, res):
            st.pc.append(f)
        return res

    def type_invariants(self, H0):
        return []


def result_wf(H, v):
    out = []
    if v.ty.k in ('ref', 'dict', 'list', 'htuple'):
        out += [v.t >= 0, v.t < H.alloc]
        if v.ty.k == 'ref' and v.ty.a[0]:
            out.append(isinstance_f(H.A('cls'), v.t, v.ty.a[0]))
        if v.ty.k == 'dict':
            out.append(H.cls(v.t) == tag('dict'))
        if v.ty.k == 'list':
            out += [H.cls(v.t) == tag('list'), H.len(v.t) >= 0]
    if v.ty.k == 'tuple':
        for it in v.items:
            out += result_wf(H, it)
    if v.ty.k == 'opt':
        out += [z3.Implies(z3.Not(v.none), f) for f in result_wf(H, sx.V(v.ty.a[0], v.t, items=v.items))]
    return out


def coerce_arg(eng, st, v, want, key, pname, line):
    for ty in want:
        if v.ty == ty:
            return v
        if ty.k == 'real' and v.ty.k == 'int':
            return sx.vreal(sx.to_real(v.t))
        if ty.k == 'ref' and v.ty.k == 'ref':
            a, b = v.ty.a[0], ty.a[0]
            if a is None or b is None or a in SUBCLASSES.get(b, ()):
                return v
        if ty.k == 'ref' and v.ty.k == 'key':
            r = eng.as_ref(st, v, line, 'argument')
            return sx.V(ty, r.t)
        if ty.k == 'opt':
            if v.ty.k == 'none':
                return sx.V(ty, fresh('none', sx.smt_sort(ty.a[0])), none=z3.BoolVal(True))
            try:
                inner = coerce_arg(eng, st, v, [ty.a[0]], key, pname, line)
                return sx.V(ty, inner.t, none=z3.BoolVal(False))
            except sx.OutOfSubset:
                pass
        if ty.k == 'enum' and v.ty.k == 'py' and isinstance(v.py, tuple) and v.py[0] == 'attr':
            codes = {'up': 1, 'fx': 2, 'fr': 3, 'lo': 4, 'maximize': 11, 'minimize': 12, 'itr': 21, 'msg': 31, 'log': 32}
            if v.py[2] in codes:
                return sx.V(ty, z3.IntVal(codes[v.py[2]]))
        if ty.k == 'any':
            return sx.V(ty, v.t if v.t is not None else z3.IntVal(0))
        if ty.k == 'dict' and v.ty.k == 'dict':
            return v
        if ty.k == 'list' and v.ty.k == 'list' and (v.ty.a[0].k == 'any' or ty.a[0].k == 'any'):
            return sx.V(ty, v.t)
    raise sx.OutOfSubset('argument %s of %s: got %r, contract accepts %r (line %d)' % (pname, key, v.ty, want, line))


class Registry:
    def __init__(self):
        self.by_key = {}
        self.functions = {}       # bare function name -> Contract
        self.methods = {}         # (Class, method) -> Contract
        self.externals = {}
        self.module_globals = {}
        self.global_types = {}
        self.class_methods = {}   # class -> set of method names defined in the repo (from front.py)

    def add(self, c):
        self.by_key[c.key] = c
        q = c.qualname
        if '.' in q:
            cls, m = q.split('.', 1)
            self.methods[(cls, m)] = c
        else:
            self.functions[q] = c
        return c

    def lookup_function(self, name):
        return self.functions.get(name)

    def lookup_method(self, cls, name):
        if cls is None:
            return None
        if (cls, name) in self.methods:
            return self.methods[(cls, name)]
        for anc, subs in SUBCLASSES.items():
            if cls in subs and (anc, name) in self.methods:
                return self.methods[(anc, name)]
        return None

    def class_defines(self, cls, name):
        """does the repo's class (or an ancestor) define this method? read from the class statements"""
        if cls is None:
            return True
        for anc, subs in SUBCLASSES.items():
            if cls in subs and name in self.class_methods.get(anc, ()):
                return True
        return False

    def has_contract(self, cls, name):
        return self.lookup_method(cls, name) is not None

    def external(self, what):
        return self.externals.get(what)

    def all_mod_globals(self):
        out = []
        for c in self.by_key.values():
            for g in c.mod_globals:
                if g not in out:
                    out.append(g)
        return out


REG = Registry()


def contract(key, params, **kw):
    return REG.add(Contract(key, params, **kw))
