"""AST engine: forward symbolic execution of real Python function bodies (parsed from /repo at every
run) against side-car contracts, producing SMT proof obligations.

Modular: a call is replaced by the callee's contract (assert requires, havoc modifies, assume ensures,
fork on raises); a loop is cut by its invariant.  Nothing of a callee body is ever inlined.
A construct outside the supported subset raises OutOfSubset: the function's obligations are then
reported *undecided* by the caller, never discharged and never a violation.
"""
import ast
import itertools
import re
import z3
from .sorts import *          # noqa


class OutOfSubset(Exception):
    pass


class DeadPath(Exception):
    """the current path's condition became False (a callee always raises): stop executing it"""


_hq_cache = {}


def has_quantifier(f):
    k = f.get_id()
    if k in _hq_cache:
        return _hq_cache[k][1]
    seen, stack, res = set(), [f], False
    while stack:
        x = stack.pop()
        i = x.get_id()
        if i in seen:
            continue
        seen.add(i)
        if z3.is_quantifier(x):
            res = True
            break
        stack.extend(x.children())
    _hq_cache[k] = (f, res)       # keeping f alive keeps its id from being reused
    return res


# ------------------------------------------------------------------------------------------- types
class T:
    def __init__(self, k, *a):
        self.k, self.a = k, a

    def __repr__(self):
        return self.k + (repr(list(self.a)) if self.a else '')

    def __eq__(self, o):
        return isinstance(o, T) and (self.k, self.a) == (o.k, o.a)

    def __hash__(self):
        return hash((self.k, self.a))


TInt, TReal, TBool, TStr, TNone, TKey, TAny = (T(x) for x in ('int', 'real', 'bool', 'str', 'none', 'key', 'any'))


TVec = T('vec')
TArr1, TArr1i, TArr2 = T('arr1'), T('arr1i'), T('arr2')     # local numpy arrays (value semantics; see np_* rules)
A2 = z3.ArraySort(I, I, R)


def TRef(cls): return T('ref', cls)
def TDict(vt): return T('dict', vt)          # vt: TReal or a TRef/TList... (stored as Int)
def TList(et): return T('list', et)
def TTuple(*ts): return T('tuple', *ts)      # immutable value tuple
def TOpt(t): return T('opt', t)
def THeapTuple(*ts): return T('htuple', *ts)  # tuple object living in the heap (identity matters)


CDict = TDict(TReal)
Scalar = TReal


def smt_sort(t):
    if t.k in ('int', 'ref', 'dict', 'list', 'str', 'htuple', 'any', 'kwargs'):
        return I
    if t.k == 'real':
        return R
    if t.k == 'bool':
        return B
    if t.k == 'key':
        return Key
    if t.k == 'vec':
        return Vec
    raise OutOfSubset('no SMT sort for %r' % (t,))


# ------------------------------------------------------------------------------------------ values
class V:
    """symbolic value: static type + z3 term(s)"""
    def __init__(self, ty, t=None, items=None, none=None, py=None):
        self.ty, self.t, self.items, self.none, self.py = ty, t, items, none, py

    def __repr__(self):
        return 'V(%r,%s)' % (self.ty, self.t if self.t is not None else (self.items if self.items is not None else self.py))


def vint(x): return V(TInt, z3.IntVal(x) if isinstance(x, int) else x)
def vreal(x): return V(TReal, z3.RealVal(x) if isinstance(x, (int, float)) else x)
def vbool(x): return V(TBool, z3.BoolVal(x) if isinstance(x, bool) else x)
def vref(cls, t): return V(TRef(cls), t)
VNONE = V(TNone)
def vpy(o): return V(T('py'), py=o)


STR_CODES = {}


def str_code(s):
    if s not in STR_CODES:
        STR_CODES[s] = len(STR_CODES) + 1
    return STR_CODES[s]


def vstr(s): return V(TStr, z3.IntVal(str_code(s)), py=s)


# str.format by denotation: the result of TEMPLATE.format(a1..an) is the uninterpreted term fmt_n(template, a1..an) (no axiom: only congruence is used,
# i.e. equal templates and arguments give equal strings); None is formatted as the string 'None'
FMT = {n: z3.Function('fmt%d' % n, *([I] * (n + 2))) for n in range(1, 6)}
ZERO_CELL = -1          # the python int 0 stored in a table cell that otherwise holds object references (ids are >= 0)


def to_real(t):
    return z3.ToReal(t) if t.sort() == I else t


# ------------------------------------------------------------------------------------------- heap
FIELD_TYPES = {
    # attribute name (optionally 'Class.attr') -> type
    'decomposition_dict': CDict,
    '_is_leaf': TBool,
    'counter': TOpt(TInt),
    'name': TOpt(TStr),
    'Expression._value': TOpt(TReal),
    'Constraint._value': TOpt(TReal),
    'Constraint._dual_variable_value': TOpt(TReal),
    'Constraint.expression': TRef('Expression'),
    'Constraint.equality_or_inequality': TStr,
    'reuse_gradient': TBool,
    't0': TInt, 't1': TInt, 't2': TInt, 'tr0': TReal, 'tr1': TReal, 'tr2': TReal,
    'shape0': TInt, 'shape1': TInt,
}


def _owner(cls, attr):
    """the class (cls itself or an ancestor) that declares a class-specific type for attr, else None (generic table)"""
    if cls and '%s.%s' % (cls, attr) in FIELD_TYPES:
        return cls
    for anc, subs in SUBCLASSES.items():
        if cls in subs and '%s.%s' % (anc, attr) in FIELD_TYPES:
            return anc
    return None


def field_type(cls, attr):
    o = _owner(cls, attr)
    if o is not None:
        return FIELD_TYPES['%s.%s' % (o, attr)]
    if attr in FIELD_TYPES:
        return FIELD_TYPES[attr]
    raise OutOfSubset('unknown field %s.%s' % (cls, attr))


def field_array_name(cls, attr):
    o = _owner(cls, attr)
    return 'f:%s.%s' % (o, attr) if o is not None else 'f:' + attr


BASE_ARRAYS = {'cls': IA_I, 'dom': z3.ArraySort(I, KB), 'valR': z3.ArraySort(I, KR), 'valI': z3.ArraySort(I, KI),
               'len': IA_I, 'eltI': z3.ArraySort(I, IA_I), 'eltR': z3.ArraySort(I, IA_R)}


class Heap:
    """one snapshot: name -> z3 array term, alloc, globals"""
    MATERIALIZED = set()       # (tag, array name) of every symbolic array created lazily: the pre-state arrays a proof can depend on

    def __init__(self, tagname):
        self.tagname = tagname
        self.arr = {}
        self.alloc = None
        self.glob = {}      # 'Class.attr' -> V

    @staticmethod
    def symbolic(tagname, global_types):
        h = Heap(tagname)
        h.alloc = z3.Int('alloc@' + tagname)
        for n, ty in global_types.items():
            h.glob[n] = fresh_value(ty, n + '@' + tagname)
        return h

    def copy(self):
        h = Heap(self.tagname)
        h.arr, h.alloc, h.glob = dict(self.arr), self.alloc, dict(self.glob)
        if getattr(self, '_concrete', False):
            h._concrete = True
        return h

    def A(self, name, sort=None):
        if name not in self.arr:
            if sort is None:
                sort = BASE_ARRAYS.get(name)
            if sort is None and name.startswith('f:'):
                base = name[2:]
                if base.endswith('?none'):
                    sort = z3.ArraySort(I, B)
                else:
                    ty = FIELD_TYPES.get(base)
                    if ty is not None:
                        sort = z3.ArraySort(I, smt_sort(ty.a[0] if ty.k == 'opt' else ty))
            if sort is None:
                raise OutOfSubset('untyped heap array ' + name)
            if getattr(self, '_concrete', False):
                from .concrete import _default
                self.arr[name] = z3.K(I, _default(sort.range()))
                return self.arr[name]
            Heap.MATERIALIZED.add((self.tagname, name))
            # lazily materialised arrays share ONE initial symbol per tag so that all snapshots derived
            # from the same origin agree on untouched arrays
            self.arr[name] = z3.Const('%s@%s' % (name, self.tagname), sort)
        return self.arr[name]

    # ---- typed accessors used by contracts
    def cls(self, r): return self.A('cls')[r]
    def dom(self, d): return self.A('dom')[d]
    def valR(self, d): return self.A('valR')[d]
    def has(self, d, k): return self.A('dom')[d][k]
    def get(self, d, k): return self.A('valR')[d][k]
    def val0(self, d, k): return z3.If(self.has(d, k), self.get(d, k), z3.RealVal(0))
    def geti(self, d, k): return self.A('valI')[d][k]
    def len(self, l): return self.A('len')[l]
    def elt(self, l, i): return self.A('eltI')[l][i]
    def eltr(self, l, i): return self.A('eltR')[l][i]

    def farr(self, cls, attr, none=False):
        ty = field_type(cls, attr)
        base = field_array_name(cls, attr)
        if none:
            return self.A(base + '?none', z3.ArraySort(I, B))
        inner = ty.a[0] if ty.k == 'opt' else ty
        return self.A(base, z3.ArraySort(I, smt_sort(inner)))

    def fld(self, cls, attr, r): return self.farr(cls, attr)[r]
    def fld_none(self, cls, attr, r): return self.farr(cls, attr, none=True)[r]
    def dd(self, cls, r): return self.fld(cls, 'decomposition_dict', r)

    def coeff(self, cls, r, k):
        d = self.dd(cls, r)
        return self.val0(d, k)

    def hask(self, cls, r, k): return self.has(self.dd(cls, r), k)
    def g(self, name): return self.glob[name].t

    def set(self, name, arr):
        self.arr[name] = arr


STR_LOWER = z3.Function('str_lower', I, I)
KW_EMPTY = z3.Int('kwargs_empty')


def extra_param_type(default):
    if isinstance(default, ast.Constant):
        v = default.value
        if isinstance(v, bool):
            return TBool
        if isinstance(v, int):
            return TInt
        if isinstance(v, float):
            return TReal
    return None


_EXTRA_PARAMS = {}


def extra_params_of(key):
    """names of the optional parameters (constant bool / int / float default) of the real function behind a contract key"""
    if key not in _EXTRA_PARAMS:
        out = set()
        try:
            from . import front
            path, qual = key.split('::')
            fn = front.find_function(path, qual)[0]
            fa = fn.args
            pos = fa.posonlyargs + fa.args
            for a, d in list(zip(pos[len(pos) - len(fa.defaults):], fa.defaults)) + [(a, d) for a, d in zip(fa.kwonlyargs, fa.kw_defaults) if d is not None]:
                if extra_param_type(d) is not None:
                    out.add(a.arg)
        except Exception:       # noqa
            pass
        _EXTRA_PARAMS[key] = out
    return _EXTRA_PARAMS[key]


_REAL_ORDER = {}


def real_positional_order(key):
    """positional parameter names of the real function behind a contract key (None when there is no such function in the tree)"""
    if key not in _REAL_ORDER:
        try:
            from . import front
            path, qual = key.split('::')
            fn = front.find_function(path, qual)[0]
            _REAL_ORDER[key] = [a.arg for a in fn.args.posonlyargs + fn.args.args]
        except Exception:       # noqa
            _REAL_ORDER[key] = None
    return _REAL_ORDER[key]


def fresh_value(ty, base):
    if ty.k == 'opt':
        inner = fresh_value(ty.a[0], base)
        return V(ty, inner.t, items=inner.items, none=fresh(base + '?none', B))
    if ty.k == 'tuple':
        return V(ty, items=[fresh_value(t, '%s.%d' % (base, i)) for i, t in enumerate(ty.a)])
    if ty.k == 'none':
        return VNONE
    if ty.k == 'callable':
        return V(ty, py=ty.a[0])
    if ty.k in ('arr1', 'arr1i', 'arr2'):
        srt = {'arr1': IA_R, 'arr1i': IA_I, 'arr2': A2}[ty.k]
        return V(ty, fresh(base, srt), items=[fresh(base + '.n%d' % i, I) for i in range(2 if ty.k == 'arr2' else 1)], py='fresh')
    return V(ty, fresh(base, smt_sort(ty)))


def heap_ref_axioms(H, only=None):
    """Language-level invariant assumed of every pre-state: a reference-typed field of an allocated object
    points to an allocated object (of the kind the static field table declares).
    only: set of array names actually used by the proof (axioms about arrays no obligation mentions are omitted)"""
    out = []
    for key, ty in sorted(FIELD_TYPES.items()):
        inner = ty.a[0] if ty.k == 'opt' else ty
        if inner.k not in ('ref', 'dict', 'list', 'htuple'):
            continue
        if only is not None and ('f:' + key) not in only:
            continue
        cls, attr = key.split('.') if '.' in key else (None, key)
        arr = H.farr(cls, attr)
        r = fresh('r', I)
        body = [arr[r] >= 0, arr[r] < H.alloc]
        if inner.k == 'dict':
            body.append(H.cls(arr[r]) == tag('dict'))
        if inner.k == 'list':
            body += [H.cls(arr[r]) == tag('list'), H.len(arr[r]) >= 0]
        if inner.k == 'ref' and inner.a[0]:
            body.append(isinstance_f(H.A('cls'), arr[r], inner.a[0]))
        guard = [r >= 0, r < H.alloc]
        if ty.k == 'opt':
            guard.append(z3.Not(H.farr(cls, attr, none=True)[r]))
        out.append(z3.ForAll([r], z3.Implies(z3.And(*guard), z3.And(*body)), patterns=[arr[r]]))
    return out


# ------------------------------------------------------------------------------------------ state
class State:
    def __init__(self, heap, env=None, pc=None):
        self.heap, self.env, self.pc = heap, env or {}, pc or []
        self.ghost = {}

    def fork(self, *conds):
        s = State(self.heap.copy(), dict(self.env), list(self.pc) + [c for c in conds if c is not None])
        s.ghost = dict(self.ghost)
        return s


class Exit:
    def __init__(self, kind, state, value=None, exc=None, line=0):
        self.kind, self.state, self.value, self.exc, self.line = kind, state, value, exc, line


class Obligation:
    def __init__(self, oid, assumptions, goal, tag='property', line=0, note=''):
        self.oid, self.assumptions, self.goal, self.tag, self.line, self.note = oid, list(assumptions), goal, tag, line, note
        self.model_terms = {}     # name -> z3 term to evaluate in a counter-model
        self.focus = None         # optional subset of the assumptions to try first (hypothesis selection declared by the side-car: `uses`)


IMPLICIT_EXC = ('KeyError', 'IndexError', 'AttributeError', 'TypeError')


# --------------------------------------------------------------------------------------- executor
OBJMAT_ENTRY = None          # set by the contracts: spec function mentry(psd, i, j)
NP_ROWSCALE = None           # set by the numpy model (contracts/pepeval.py): v * M
NP_COLUMN = None             # M[:, j] as a vector


class DesugarComprehension(ast.NodeTransformer):
    """T = np.array([[E for a in ROW] for ROW in SRC])  with an element expression E that calls something (it can raise / has effects)
    is rewritten, before execution, into the loops it abbreviates (same evaluation order as CPython):
        __comp0 = []
        for ROW in SRC:
            __comp1 = []
            for a in ROW:
                __comp1.append(E)
            __comp0.append(__comp1)
        T = np.array(__comp0)
    so that the two loops can be cut by side-car invariants like any other loop."""
    def visit_Assign(self, node):
        v = node.value
        if not (isinstance(v, ast.Call) and isinstance(v.func, ast.Attribute) and v.func.attr == 'array' and isinstance(v.func.value, ast.Name)
                and v.func.value.id == 'np' and len(v.args) == 1 and not v.keywords and isinstance(v.args[0], ast.ListComp)):
            return node
        outer = v.args[0]
        if not (len(outer.generators) == 1 and not outer.generators[0].ifs and isinstance(outer.elt, ast.ListComp)
                and len(outer.elt.generators) == 1 and not outer.elt.generators[0].ifs
                and any(isinstance(x, ast.Call) for x in ast.walk(outer.elt.elt))):
            return node
        g1, g2 = outer.generators[0], outer.elt.generators[0]
        src = '''
__comp0 = []
for _a in _b:
    __comp1 = []
    for _c in _d:
        __comp1.append(_e)
    __comp0.append(__comp1)
_t = np.array(__comp0)
'''
        body = ast.parse(src).body
        f1 = body[1]
        f1.target, f1.iter = g1.target, g1.iter
        f2 = f1.body[1]
        f2.target, f2.iter = g2.target, g2.iter
        f2.body[0].value.args = [outer.elt.elt]
        body[2].targets = node.targets
        for k, st_ in enumerate(body):
            for x in ast.walk(st_):
                x.lineno = getattr(node, 'lineno', 0)
                x.end_lineno = getattr(node, 'end_lineno', x.lineno)
                x.col_offset = node.col_offset
                x.end_col_offset = node.col_offset
        for x in ast.walk(f2):
            x.col_offset = node.col_offset + 1           # the inner loop sorts after the outer one (loop ordinals)
        return body


class Engine:
    def __init__(self, fn_ast, contract, registry, qualname, class_name=None, global_types=None, prune=True):
        import copy
        fn_ast = DesugarComprehension().visit(copy.deepcopy(fn_ast))
        self.fn, self.c, self.reg, self.qualname, self.class_name = fn_ast, contract, registry, qualname, class_name
        self.global_types = global_types or {}
        self.obls = []
        self.loop_ord = 0
        fors = sorted([n for n in ast.walk(fn_ast) if isinstance(n, ast.For)], key=lambda n: (n.lineno, n.col_offset))
        self.loop_ids = {id(n): i + 1 for i, n in enumerate(fors)}
        self.prune = prune
        self.local_order = []
        self.notes = []
        self.discovery = False

    # ---------------------------------------------------------------- helpers
    def label(self, f, lab):
        if not hasattr(self, 'labels'):
            self.labels = {}
        self.labels[f.get_id()] = lab
        return f

    def focused(self, pc, uses):
        """the hypotheses an obligation declared it uses: every quantifier-free fact of the path, plus the labelled (quantified) facts named in `uses`"""
        labels = getattr(self, 'labels', {})
        want = set(uses)
        return [a for a in pc if not has_quantifier(a) or labels.get(a.get_id()) in want]

    def emit(self, kind, st, goal, line=0, tag='property', extra=None, uses=None):
        if self.discovery:
            return
        oid = '%s/%s' % (self.qualname, re.sub(r'@\d+', '', kind))      # ids are stable under line shifts
        n = sum(1 for o in self.obls if o.oid == oid or o.oid.startswith(oid + '#'))
        if n:
            oid = '%s#%d' % (oid, n)
        ob = Obligation(oid, st.pc + (extra or []), goal, tag, line)
        if uses is not None:
            ob.focus = self.focused(st.pc + (extra or []), uses)
        self.obls.append(ob)
        return ob

    def feasible(self, st):
        if any(z3.is_false(f) for f in st.pc[-3:]):
            return False
        if not self.prune:
            return True
        # quantifier-free part only: cheap, and dropping a path needs `unsat`, which is sound on a subset
        s = z3.Solver()
        s.set('timeout', 1000)
        s.add(*[f for f in st.pc if not has_quantifier(f)])
        return s.check() != z3.unsat

    def alloc(self, st, cls):
        r = st.heap.alloc
        st.heap.alloc = r + 1
        st.heap.set('cls', z3.Store(st.heap.A('cls'), r, tag(cls)))
        return r

    def truth(self, v):
        """python truthiness of a value as a z3 Bool"""
        if v.ty.k == 'bool':
            return v.t
        if v.ty.k == 'opt':
            inner = V(v.ty.a[0], v.t, items=v.items)
            if v.ty.a[0].k in ('ref', 'htuple'):
                return z3.Not(v.none)
            return z3.And(z3.Not(v.none), self.truth(inner))
        if v.ty.k == 'int':
            return v.t != 0
        if v.ty.k == 'real':
            return v.t != 0
        if v.ty.k == 'none':
            return z3.BoolVal(False)
        if v.ty.k == 'str':
            return v.t != str_code('')
        if v.ty.k == 'list' and getattr(self, '_cur_heap', None) is not None:
            return self._cur_heap.len(v.t) != 0
        if v.ty.k == 'dict' and getattr(self, '_cur_heap', None) is not None:
            return self._cur_heap.dom(v.t) != z3.K(Key, False)          # a dict is true iff it has a key
        if v.ty.k in ('ref',):
            return z3.BoolVal(True)
        if v.ty.k == 'tuple':
            return z3.BoolVal(len(v.items) > 0)
        raise OutOfSubset('truthiness of %r' % (v.ty,))

    def to_key(self, st, v):
        if v.ty.k == 'key':
            return v.t
        if v.ty.k in ('ref', 'htuple'):
            return Obj(v.t)
        if v.ty.k == 'tuple' and len(v.items) == 2:
            return Tup(self.to_key(st, v.items[0]), self.to_key(st, v.items[1]))
        if v.ty.k == 'int' and z3.is_int_value(v.t) and v.t.as_long() == 1:
            return One
        if v.ty.k == 'str':
            return Tup(One, Obj(v.t))          # a string key (never a DSL key: those are objects, pairs of objects, or 1)
        raise OutOfSubset('value of type %r used as dict key' % (v.ty,))

    def as_ref(self, st, v, line, why='attribute access'):
        """coerce a dict key to an object reference (needs is_Obj: safety obligation)"""
        if v.ty.k == 'ref':
            return v
        if v.ty.k == 'key':
            self.emit('safe.key_is_object@%d' % line, st, is_Obj(v.t), line, tag='aux')
            st.pc.append(is_Obj(v.t))
            return V(TRef(None), oid(v.t))
        raise OutOfSubset('%s on value of type %r' % (why, v.ty))

    # ---------------------------------------------------------------- expressions
    def ev(self, e, st):
        self._cur_heap = st.heap          # (truthiness of a list needs its current length)
        m = getattr(self, 'ev_' + type(e).__name__, None)
        if m is None:
            raise OutOfSubset('expression %s at line %d' % (type(e).__name__, e.lineno))
        return m(e, st)

    def ev_Constant(self, e, st):
        c = e.value
        if isinstance(c, bool):
            return vbool(c)
        if isinstance(c, int):
            return vint(c)
        if isinstance(c, float):
            return V(TReal, z3.RealVal(repr(c)))
        if c is None:
            return VNONE
        if isinstance(c, str):
            return vstr(c)
        raise OutOfSubset('constant %r' % (c,))

    def ev_Name(self, e, st):
        if e.id in st.env:
            return st.env[e.id]
        if e.id in ('int', 'float', 'tuple', 'dict', 'list', 'str', 'bool', 'isinstance', 'type', 'len', 'range',
                    'enumerate', 'zip', 'max', 'min', 'abs', 'print', 'super', 'sum'):
            return vpy(('builtin', e.id))
        if e.id in CLASS_TAGS or e.id.endswith('Error') or e.id in ('Exception', 'NotImplementedError'):
            return vpy(('class', e.id))
        if self.reg.lookup_function(e.id) is not None:
            return vpy(('function', e.id))
        if e.id in ('np', 'pd', 'warnings', 'cp', 'mosek', 'importlib'):
            return vpy(('module', e.id))
        if e.id in self.reg.module_globals:
            return self.reg.module_globals[e.id](self, st)
        # a local that is assigned somewhere in the function but not on this path: an UnboundLocalError if the path is feasible - when the whole path condition
        # (quantified facts included) is unsatisfiable the path does not exist
        if any(isinstance(n, ast.Name) and n.id == e.id and isinstance(n.ctx, ast.Store) for n in ast.walk(self.fn)):
            chk = z3.Solver()
            chk.set('timeout', 3000)
            chk.add(*st.pc)
            if chk.check() == z3.unsat:
                raise DeadPath()
        raise OutOfSubset('free name %s at line %d' % (e.id, e.lineno))

    def ev_Tuple(self, e, st):
        items = [self.ev(x, st) for x in e.elts]
        return V(TTuple(*[i.ty for i in items]), items=items)

    def ev_UnaryOp(self, e, st):
        v = self.ev(e.operand, st)
        if isinstance(e.op, ast.Not):
            return vbool(z3.Not(self.truth(v)))
        if isinstance(e.op, ast.USub):
            if v.ty.k == 'int':
                return vint(-v.t)
            if v.ty.k == 'real':
                return vreal(-v.t)
            if v.ty.k == 'ref':
                return self.call_method(st, v, '__neg__', [], {}, e.lineno)
            if v.ty.k == 'any':
                # opaque foreign operand: modelled as an object without special methods
                self.pending_exits.append(Exit('raise', st.fork(), exc='TypeError', line=e.lineno))
                st.pc.append(z3.BoolVal(False))
                return v
        if isinstance(e.op, ast.UAdd) and v.ty.k in ('int', 'real'):
            return v
        raise OutOfSubset('unary %s on %r' % (type(e.op).__name__, v.ty))

    def ev_BoolOp(self, e, st):
        # short-circuit evaluation: operand k is evaluated under "all earlier operands true" (and) / "all earlier operands false" (or), with the locals
        # narrowed accordingly (`p and p[0] ...`).  The temporary path conditions are removed afterwards; facts learned while evaluating a later operand
        # are kept as implications of those conditions; a later operand may allocate (`== dict()`) but not otherwise change the heap.
        is_and = isinstance(e.op, ast.And)
        vals, ts, conds = [], [], []
        saved_env = dict(st.env)
        try:
            for idx, x in enumerate(e.values):
                n_pc = len(st.pc)
                before = dict(st.heap.arr)
                v = self.ev(x, st)
                self._cur_heap = st.heap
                t = self.truth(v)
                vals.append(v)
                ts.append(t)
                if idx > 0:
                    if any(st.heap.arr.get(k) is not a for k, a in before.items()) or len(st.heap.arr) != len(before):
                        pure_alloc = all(isinstance(c.func, ast.Name) and c.func.id in ('dict', 'list', 'tuple', 'len', 'isinstance', 'type', 'abs', 'float', 'int')
                                         for c in ast.walk(x) if isinstance(c, ast.Call))
                        if not pure_alloc:
                            raise OutOfSubset('operand %d of a boolean operation changes the heap, line %d' % (idx, e.lineno))
                    guard = z3.And(*[c for _, c in conds])
                    for k in range(n_pc, len(st.pc)):
                        st.pc[k] = z3.Implies(guard, st.pc[k])
                if idx + 1 < len(e.values):
                    c = t if is_and else z3.Not(t)
                    st.pc.append(c)
                    conds.append((len(st.pc) - 1, c))
                    self.narrow_none(x, st, is_and)
        finally:
            for pos, _ in reversed(conds):
                del st.pc[pos]
            for k in list(st.env):
                if k in saved_env:
                    st.env[k] = saved_env[k]
        if all(v.ty.k == 'bool' for v in vals):
            return vbool(z3.And(*ts) if isinstance(e.op, ast.And) else z3.Or(*ts))
        if isinstance(e.op, ast.Or) and len(vals) == 2 and vals[0].ty.k == 'str' and vals[1].ty.k == 'str':
            return V(TStr, z3.If(ts[0], vals[0].t, vals[1].t))
        if isinstance(e.op, ast.Or) and len(vals) == 2 and vals[0].ty.k == 'opt' and vals[0].ty.a[0] == vals[1].ty:
            # `a or b` with a Optional: value-level select
            a, b = vals
            return V(b.ty, z3.If(ts[0], a.t, b.t))
        if len(vals) == 2 and all(v.ty.k in ('int', 'real') for v in vals):
            # value-level select: `x or default` is x unless x is zero
            a, b = vals
            pick_a = ts[0] if isinstance(e.op, ast.Or) else z3.Not(ts[0])
            if a.ty.k == b.ty.k == 'int':
                return vint(z3.If(pick_a, a.t, b.t))
            return vreal(z3.If(pick_a, to_real(a.t), to_real(b.t)))
        return vbool(z3.And(*ts) if isinstance(e.op, ast.And) else z3.Or(*ts))

    def ev_IfExp(self, e, st):
        # `a if c else b` with side-effect-free branches of one scalar / reference type: a value-level select
        n_ex = len(self.pending_exits)
        c = self.truth(self.ev(e.test, st))
        # each branch is evaluated under its own path condition (its safety obligations, e.g. a key lookup, are conditional on the test)
        sa, sb = st.fork(c), st.fork(z3.Not(c))
        a, b = self.ev(e.body, sa), self.ev(e.orelse, sb)
        if len(self.pending_exits) != n_ex or any(sa.heap.arr.get(k) is not v for k, v in st.heap.arr.items()) or any(sb.heap.arr.get(k) is not v for k, v in st.heap.arr.items()):
            raise OutOfSubset('conditional expression whose parts can raise or have effects, line %d' % e.lineno)
        if a.ty.k in ('int', 'real') and b.ty.k in ('int', 'real'):
            if a.ty.k == b.ty.k == 'int':
                return vint(z3.If(c, a.t, b.t))
            return vreal(z3.If(c, to_real(a.t), to_real(b.t)))
        if a.ty == b.ty and a.ty.k in ('ref', 'str', 'bool', 'key', 'list', 'dict', 'htuple'):
            return V(a.ty, z3.If(c, a.t, b.t))
        raise OutOfSubset('conditional expression over %r / %r at line %d' % (a.ty, b.ty, e.lineno))

    def unwrap_operand(self, v, st, line):
        if v.ty.k == 'opt' and v.ty.a[0].k in ('ref', 'int', 'real'):
            # None as an operand raises TypeError: must not happen (safety obligation)
            self.emit('safe.operand_not_none@%d' % line, st, z3.Not(v.none), line, tag='aux')
            st.pc.append(z3.Not(v.none))
            return V(v.ty.a[0], v.t)
        return v

    def arith(self, op, a, b, st, line):
        a, b = self.unwrap_operand(a, st, line), self.unwrap_operand(b, st, line)
        # a python bool in arithmetic is the int 0 / 1
        if a.ty.k == 'bool' and b.ty.k in ('int', 'real', 'bool'):
            a = vint(z3.If(a.t, z3.IntVal(1), z3.IntVal(0)))
        if b.ty.k == 'bool' and a.ty.k in ('int', 'real'):
            b = vint(z3.If(b.t, z3.IntVal(1), z3.IntVal(0)))
        if a.ty.k == 'opt' or b.ty.k == 'opt':
            raise OutOfSubset('arithmetic on optional at line %d' % line)
        if a.ty.k in ('int', 'real') and b.ty.k in ('int', 'real'):
            both_int = a.ty.k == 'int' and b.ty.k == 'int'
            x, y = (a.t, b.t) if both_int else (to_real(a.t), to_real(b.t))
            mk = vint if both_int else vreal
            if isinstance(op, ast.Add):
                return mk(x + y)
            if isinstance(op, ast.Sub):
                return mk(x - y)
            if isinstance(op, ast.Mult):
                return mk(x * y)
            if isinstance(op, ast.Div):
                # division by zero is an explicit exceptional exit
                if z3.is_false(z3.simplify(y == 0)):
                    return vreal(to_real(x) / to_real(y))
                bad = st.fork(y == 0)
                if self.feasible(bad):
                    self.pending_exits.append(Exit('raise', bad, exc='ZeroDivisionError', line=line))
                st.pc.append(y != 0)
                return vreal(to_real(x) / to_real(y))
            if isinstance(op, ast.Pow) and z3.is_int_value(b.t) and b.t.as_long() == 2:
                return mk(x * x)
            if isinstance(op, ast.FloorDiv) and both_int and z3.is_int_value(b.t) and b.t.as_long() > 0:
                return vint(x / y)          # SMT integer division = Python floor division for a positive divisor
        if a.ty.k == 'vec' or b.ty.k == 'vec':
            return self.vec_arith(op, a, b, st, line)
        if isinstance(op, ast.Add) and {a.ty.k, b.ty.k} == {'int', 'arr1i'}:
            arr, sc = (a, b) if a.ty.k == 'arr1i' else (b, a)
            kk = fresh('k', I)
            return V(TArr1i, z3.Lambda([kk], arr.t[kk] + sc.t), items=arr.items, py='fresh')      # numpy broadcasting of a python int (unbounded ints)
        if isinstance(op, ast.Mult) and a.ty.k == 'arr1' and b.ty.k == 'arr2' and NP_ROWSCALE is not None:
            # numpy broadcasting v * M (column j of M scaled by v[j]): an uninterpreted function of both (assumed external algebra)
            self.emit('safe.broadcast@%d' % line, st, a.items[0] == b.items[1], line, tag='aux')
            return V(TArr2, NP_ROWSCALE(a.t, b.t), items=b.items, py='fresh')
        if a.ty.k == 'arr2' or b.ty.k == 'arr2':
            ii, jj = fresh('i', I), fresh('j', I)
            if isinstance(op, ast.Add) and a.ty.k == 'arr2' and b.ty.k == 'arr2':
                self.emit('safe.broadcast@%d' % line, st, z3.And(a.items[0] == b.items[0], a.items[1] == b.items[1]), line, tag='aux')
                return V(TArr2, z3.Lambda([ii, jj], a.t[ii, jj] + b.t[ii, jj]), items=a.items, py='fresh')
            if isinstance(op, ast.Div) and a.ty.k == 'arr2' and b.ty.k in ('int', 'real') and z3.is_false(z3.simplify(to_real(b.t) == 0)):
                return V(TArr2, z3.Lambda([ii, jj], a.t[ii, jj] / to_real(b.t)), items=a.items, py='fresh')
            raise OutOfSubset('2-D array operator %s at line %d' % (type(op).__name__, line))
        name = {ast.Add: '__add__', ast.Sub: '__sub__', ast.Mult: '__mul__', ast.Div: '__truediv__',
                ast.Pow: '__pow__'}.get(type(op))
        rname = {ast.Add: '__radd__', ast.Sub: '__rsub__', ast.Mult: '__rmul__', ast.Div: '__rtruediv__', ast.Pow: '__rpow__'}.get(type(op))
        if name and a.ty.k == 'ref' and self.reg.class_defines(a.ty.a[0], name):
            return self.call_method(st, a, name, [b], {}, line)
        if rname and b.ty.k == 'ref' and self.reg.class_defines(b.ty.a[0], rname):
            return self.call_method(st, b, rname, [a], {}, line)
        if (a.ty.k in ('int', 'real', 'any', 'ref') and b.ty.k in ('int', 'real', 'any', 'ref')
                and (a.ty.k in ('ref', 'any') or b.ty.k in ('ref', 'any'))):
            # neither operand implements the operator (checked against the class statements of the repo;
            # opaque operands are objects without special methods): CPython raises TypeError
            self.pending_exits.append(Exit('raise', st.fork(), exc='TypeError', line=line))
            st.pc.append(z3.BoolVal(False))
            return vreal(0)
        raise OutOfSubset('operator %s on %r, %r at line %d' % (type(op).__name__, a.ty, b.ty, line))

    def vec_arith(self, op, a, b, st, line):
        """numpy 1-D arrays as mathematical vectors (assumed external algebra); shape mismatch is numpy's
        broadcasting ValueError, modelled as a safety obligation"""
        if isinstance(op, ast.Mult) and a.ty.k in ('int', 'real') and b.ty.k == 'vec':
            r = vscale(to_real(a.t), b.t)
            st.pc.append(vdim(r) == vdim(b.t))
            return V(TVec, r, py='fresh')
        if isinstance(op, ast.Mult) and b.ty.k in ('int', 'real') and a.ty.k == 'vec':
            r = vscale(to_real(b.t), a.t)
            st.pc.append(vdim(r) == vdim(a.t))
            return V(TVec, r, py='fresh')
        if isinstance(op, ast.Add) and a.ty.k == 'vec' and b.ty.k == 'vec' and (a.t.eq(VZ) or b.t.eq(VZ)):
            return V(TVec, b.t if a.t.eq(VZ) else a.t, py='fresh')
        if isinstance(op, ast.Add) and a.ty.k == 'vec' and b.ty.k == 'vec':
            # VZ is the python scalar 0 (broadcasts against any shape); otherwise shapes must agree
            ok = z3.Or(a.t == VZ, b.t == VZ, vdim(a.t) == vdim(b.t))
            self.emit('safe.broadcast@%d' % line, st, ok, line, tag='property')
            st.pc.append(ok)
            st.pc.append(vdim(vadd(a.t, b.t)) == vdim(a.t))
            r = z3.If(a.t == VZ, b.t, z3.If(b.t == VZ, a.t, vadd(a.t, b.t)))
            return V(TVec, r, py='fresh')
        if isinstance(op, ast.Add) and a.ty.k == 'int' and z3.is_int_value(a.t) and a.t.as_long() == 0 and b.ty.k == 'vec':
            return V(TVec, b.t, py='fresh')       # 0 + v : scalar broadcast, a new array equal to v
        if isinstance(op, ast.Add) and b.ty.k == 'int' and z3.is_int_value(b.t) and b.t.as_long() == 0 and a.ty.k == 'vec':
            return V(TVec, a.t, py='fresh')
        raise OutOfSubset('vector operator %s on %r, %r at line %d' % (type(op).__name__, a.ty, b.ty, line))

    def ev_BinOp(self, e, st):
        a = self.ev(e.left, st)
        b = self.ev(e.right, st)
        return self.arith(e.op, a, b, st, e.lineno)

    def ev_Compare(self, e, st):
        if len(e.ops) != 1:
            # chained comparison a <= b <= c
            parts = []
            left = self.ev(e.left, st)
            for op, r in zip(e.ops, e.comparators):
                right = self.ev(r, st)
                parts.append(self.compare(op, left, right, st, e.lineno).t)
                left = right
            return vbool(z3.And(*parts))
        return self.compare(e.ops[0], self.ev(e.left, st), self.ev(e.comparators[0], st), st, e.lineno)

    def compare(self, op, a, b, st, line):
        if isinstance(op, (ast.Is, ast.IsNot)):
            if b.ty.k == 'none':
                r = a.none if a.ty.k == 'opt' else z3.BoolVal(a.ty.k == 'none')
            elif a.ty.k in ('ref', 'htuple', 'dict', 'list') and b.ty.k == a.ty.k:
                r = a.t == b.t
            else:
                raise OutOfSubset('is-comparison of %r and %r' % (a.ty, b.ty))
            return vbool(r if isinstance(op, ast.Is) else z3.Not(r))
        if isinstance(op, (ast.In, ast.NotIn)):
            if b.ty.k == 'dict' or b.ty.k == 'dictkeys':
                r = st.heap.has(b.t, self.to_key(st, a))
            elif b.ty.k == 'set' and all(i.ty.k == 'str' for i in b.items) and a.ty.k == 'str':
                r = z3.Or(*[a.t == i.t for i in b.items])
            elif b.ty.k == 'list' and b.ty.a[0].k in ('ref', 'htuple', 'any') and (
                    a.ty.k == 'htuple' or (a.ty.k == 'ref' and a.ty.a[0] in ('Constraint', 'PSDMatrix', 'Point', 'Function', 'BlockPartition'))):
                # membership in a list of objects that define no __eq__ of their own returning a bool: identity (Constraint / PSDMatrix / tuples of them)
                kq = fresh('kq', I)
                r = z3.Exists([kq], z3.And(kq >= 0, kq < st.heap.len(b.t), st.heap.elt(b.t, kq) == a.t))
            else:
                raise OutOfSubset('membership in %r' % (b.ty,))
            return vbool(r if isinstance(op, ast.In) else z3.Not(r))
        if isinstance(op, (ast.Eq, ast.NotEq)):
            r = self.equal(a, b, st, line)
            return vbool(r if isinstance(op, ast.Eq) else z3.Not(r))
        if a.ty.k == 'opt' and a.ty.a[0].k == 'int':
            a = self.as_int(st, a, line)
        if b.ty.k == 'opt' and b.ty.a[0].k == 'int':
            b = self.as_int(st, b, line)
        if a.ty.k in ('int', 'real') and b.ty.k in ('int', 'real'):
            x, y = (a.t, b.t) if a.ty.k == b.ty.k else (to_real(a.t), to_real(b.t))
            f = {ast.Lt: lambda: x < y, ast.LtE: lambda: x <= y, ast.Gt: lambda: x > y, ast.GtE: lambda: x >= y}[type(op)]
            return vbool(f())
        name = {ast.LtE: '__le__', ast.Lt: '__lt__', ast.GtE: '__ge__', ast.Gt: '__gt__'}[type(op)]
        refl = {ast.LtE: '__ge__', ast.Lt: '__gt__', ast.GtE: '__le__', ast.Gt: '__lt__'}[type(op)]
        if a.ty.k == 'ref':
            return self.call_method(st, a, name, [b], {}, line)
        if b.ty.k == 'ref':
            return self.call_method(st, b, refl, [a], {}, line)
        raise OutOfSubset('comparison of %r and %r at line %d' % (a.ty, b.ty, line))

    def equal(self, a, b, st, line):
        ka, kb = a.ty.k, b.ty.k
        if ka in ('int', 'real') and kb in ('int', 'real'):
            return (a.t == b.t) if ka == kb else (to_real(a.t) == to_real(b.t))
        if ka == 'key' and kb == 'int' and z3.is_int_value(b.t) and b.t.as_long() == 1:
            return is_One(a.t)
        if ka == 'str' and kb == 'str':
            return a.t == b.t
        if ka == 'npshape' and kb == 'tuple' and len(b.items) == 1 and b.items[0].ty.k == 'int' and z3.is_int_value(b.items[0].t) and b.items[0].t.as_long() == 0:
            # shape == (0,): only a 1-D empty array; an array built from a list of rows is 1-D exactly when there is no row
            kind = a.items[0]
            return z3.BoolVal(False) if kind == 'row' else st.heap.len(a.t) == 0
        if ka == 'py' and kb == 'py':
            return z3.BoolVal(a.py == b.py)
        if ka == 'typeof' and kb == 'py' and b.py[0] == 'class':
            return a.py(b.py[1])
        if ka == 'typeof' and kb == 'py' and b.py == ('builtin', 'tuple'):
            return a.py('tuple')
        if ka == 'typeof' and kb == 'py' and b.py == ('builtin', 'dict'):
            return a.py('dict')
        if ka == 'ref' and self.reg.has_contract(a.ty.a[0], '__eq__'):
            raise OutOfSubset('== dispatching to __eq__ as a value at line %d' % line)
        if ka == 'dict' and kb == 'dict' and a.ty.a[0].k == 'real' and b.ty.a[0].k == 'real':
            # dict == dict: same keys, same values (keys compared as Key terms: identity of the key objects)
            k = fresh('k', Key)
            return z3.ForAll([k], z3.And(st.heap.has(a.t, k) == st.heap.has(b.t, k),
                                         z3.Implies(st.heap.has(a.t, k), st.heap.get(a.t, k) == st.heap.get(b.t, k))))
        if ka == 'list' and kb == 'list':
            # list == list: same length and pairwise equal elements (elements are object references compared by identity:
            # assumed for the opaque solver objects stored in these lists)
            i = fresh('i', I)
            ea, eb = self.list_elem(st, a, i), self.list_elem(st, b, i)
            return z3.And(st.heap.len(a.t) == st.heap.len(b.t),
                          z3.ForAll([i], z3.Implies(z3.And(i >= 0, i < st.heap.len(a.t)), ea.t == eb.t)))
        if ka == 'tuple' and kb == 'tuple' and len(a.items) == len(b.items):
            return z3.And(*[self.equal(x, y, st, line) for x, y in zip(a.items, b.items)])
        raise OutOfSubset('equality of %r and %r at line %d' % (a.ty, b.ty, line))

    def ev_Attribute(self, e, st):
        # class-level attribute  C.attr
        if isinstance(e.value, ast.Name) and e.value.id not in st.env and e.value.id in CLASS_TAGS:
            gname = '%s.%s' % (e.value.id, e.attr)
            if gname in st.heap.glob:
                return st.heap.glob[gname]
            raise OutOfSubset('class attribute %s' % gname)
        base = self.ev(e.value, st)
        if base.ty.k == 'py':
            return vpy(('attr', base.py, e.attr))
        if base.ty.k == 'objarr' and e.attr == 'shape':
            return V(T('npshape'), base.t, items=base.items)
        if base.ty.k in ('arr1', 'arr1i') and e.attr == 'shape':
            return V(TTuple(TInt), items=[vint(base.items[0])])
        if base.ty.k == 'arr2' and e.attr == 'shape':
            return V(TTuple(TInt, TInt), items=[vint(base.items[0]), vint(base.items[1])])
        if base.ty.k == 'arr2' and e.attr == 'T':
            ii, jj = fresh('i', I), fresh('j', I)
            return V(TArr2, z3.Lambda([ii, jj], base.t[jj, ii]), items=[base.items[1], base.items[0]], py='fresh')
        base = self.as_ref(st, base, e.lineno) if base.ty.k == 'key' else base
        if base.ty.k == 'opt':
            self.emit('safe.not_none@%d' % e.lineno, st, z3.Not(base.none), e.lineno, tag='aux')
            base = V(base.ty.a[0], base.t)
        if base.ty.k == 'ref' and e.attr == 'shape':
            return V(TTuple(TInt, TInt), items=[vint(st.heap.fld(None, 'shape0', base.t)), vint(st.heap.fld(None, 'shape1', base.t))])
        if base.ty.k == 'ref' and base.ty.a[0] == 'PSDMatrix' and e.attr == 'matrix_of_expressions' and OBJMAT_ENTRY is not None:
            # the numpy object array of a PSDMatrix: entry (i, j) is the spec function mentry(psd, i, j), its shape is the PSDMatrix's
            return V(T('objmat'), base.t)
        if base.ty.k == 'ref':
            cls = base.ty.a[0]
            return self.read_field(st, cls, e.attr, base.t)
        raise OutOfSubset('attribute %s of %r at line %d' % (e.attr, base.ty, e.lineno))

    def read_field(self, st, cls, attr, r):
        ty = field_type(cls, attr)
        inner = ty.a[0] if ty.k == 'opt' else ty
        if inner.k == 'arr2':
            base = field_array_name(cls, attr)
            dims = [st.heap.A(base + '#%d' % k, z3.ArraySort(I, I))[r] for k in (0, 1)]
            return V(ty, st.heap.farr(cls, attr)[r], items=dims, none=st.heap.fld_none(cls, attr, r) if ty.k == 'opt' else None)
        if ty.k == 'opt':
            return V(ty, st.heap.fld(cls, attr, r), none=st.heap.fld_none(cls, attr, r))
        return V(ty, st.heap.fld(cls, attr, r))

    def write_field(self, st, cls, attr, r, v, line):
        ty = field_type(cls, attr)
        base = field_array_name(cls, attr)
        if (ty.a[0] if ty.k == 'opt' else ty).k == 'arr2' and v.ty.k == 'arr2':
            for k in (0, 1):
                st.heap.set(base + '#%d' % k, z3.Store(st.heap.A(base + '#%d' % k, z3.ArraySort(I, I)), r, v.items[k]))
        if ty.k == 'opt':
            inner = ty.a[0]
            if v.ty.k == 'none':
                st.heap.set(base + '?none', z3.Store(st.heap.farr(cls, attr, none=True), r, True))
                return
            if v.ty.k == 'opt':
                st.heap.set(base + '?none', z3.Store(st.heap.farr(cls, attr, none=True), r, v.none))
                st.heap.set(base, z3.Store(st.heap.farr(cls, attr), r, self.coerce(v.t, inner)))
                return
            st.heap.set(base + '?none', z3.Store(st.heap.farr(cls, attr, none=True), r, False))
            st.heap.set(base, z3.Store(st.heap.farr(cls, attr), r, self.coerce(v.t, inner)))
            return
        if v.ty.k == 'none':
            raise OutOfSubset('None stored in non-optional field %s at line %d' % (attr, line))
        if v.ty.k == 'opt':
            self.emit('safe.not_none_store[%s]@%d' % (attr, line), st, z3.Not(v.none), line, tag='aux')
        st.heap.set(base, z3.Store(st.heap.farr(cls, attr), r, self.coerce(v.t, ty)))

    def coerce(self, t, ty):
        if ty.k == 'real':
            return to_real(t)
        return t

    def as_int(self, st, v, line):
        """an int-valued index; an Optional[int] (e.g. `.counter`) must not be None here (TypeError otherwise)"""
        if v.ty.k == 'opt' and v.ty.a[0].k == 'int':
            self.emit('safe.index_not_none@%d' % line, st, z3.Not(v.none), line, tag='aux')
            st.pc.append(z3.Not(v.none))
            return vint(v.t)
        return v

    def np_index(self, st, arr, idx, dim, line):
        """numpy index into axis `dim`: must be an int in [-n, n); negative indices wrap"""
        n = arr.items[dim]
        self.emit('safe.IndexError@%d' % line, st, z3.And(idx >= -n, idx < n), line, tag='aux')
        return z3.If(idx >= 0, idx, idx + n)

    def ev_Subscript(self, e, st):
        base = self.ev(e.value, st)
        if base.ty.k in ('arr1', 'arr1i'):
            idx = self.as_int(st, self.ev(e.slice, st), e.lineno)
            if idx.ty.k != 'int':
                raise OutOfSubset('array index of type %r at line %d' % (idx.ty, e.lineno))
            i = self.np_index(st, base, idx.t, 0, e.lineno)
            return vreal(base.t[i]) if base.ty.k == 'arr1' else vint(base.t[i])
        if base.ty.k == 'arr2' and isinstance(e.slice, ast.Tuple) and len(e.slice.elts) == 2 and isinstance(e.slice.elts[0], ast.Slice) \
                and e.slice.elts[0].lower is None and e.slice.elts[0].upper is None and e.slice.elts[0].step is None and NP_COLUMN is not None:
            # M[:, j]: column j as a vector
            j = self.as_int(st, self.ev(e.slice.elts[1], st), e.lineno)
            if j.ty.k != 'int':
                raise OutOfSubset('column index of type %r at line %d' % (j.ty, e.lineno))
            jj = self.np_index(st, base, j.t, 1, e.lineno)
            col = NP_COLUMN(base.t, jj)
            st.pc.append(vdim(col) == base.items[0])
            return V(TVec, col, py='fresh')
        if base.ty.k == 'arr2':
            idx = self.ev(e.slice, st)
            if idx.ty.k == 'tuple':
                idx = V(idx.ty, items=[self.as_int(st, x, e.lineno) for x in idx.items])
            if idx.ty.k == 'tuple' and len(idx.items) == 2 and all(x.ty.k == 'int' for x in idx.items):
                i = self.np_index(st, base, idx.items[0].t, 0, e.lineno)
                j = self.np_index(st, base, idx.items[1].t, 1, e.lineno)
                return vreal(base.t[i, j])
            raise OutOfSubset('2-D array index at line %d' % e.lineno)
        if base.ty.k == 'dict':
            k = self.to_key(st, self.ev(e.slice, st))
            self.emit('safe.KeyError@%d' % e.lineno, st, st.heap.has(base.t, k), e.lineno, tag='aux')
            vt = base.ty.a[0]
            if vt.k == 'real':
                return vreal(st.heap.get(base.t, k))
            return V(vt, st.heap.geti(base.t, k))
        if base.ty.k in ('key', 'tuple') and isinstance(e.slice, ast.Slice):
            s = e.slice
            if (s.lower is None and s.upper is None and isinstance(s.step, ast.UnaryOp)
                    and isinstance(s.step.op, ast.USub) and getattr(s.step.operand, 'value', None) == 1):
                if base.ty.k == 'tuple' and len(base.items) == 2:
                    return V(TTuple(base.items[1].ty, base.items[0].ty), items=base.items[::-1])
                if base.ty.k == 'key':
                    self.emit('safe.key_is_tuple@%d' % e.lineno, st, is_Tup(base.t), e.lineno, tag='aux')
                    return V(TKey, Tup(snd(base.t), fst(base.t)))
            raise OutOfSubset('slice at line %d' % e.lineno)
        if base.ty.k == 'tuple':
            idx = self.ev(e.slice, st)
            if idx.ty.k == 'int' and z3.is_int_value(z3.simplify(idx.t)):
                j = z3.simplify(idx.t).as_long()
                if -len(base.items) <= j < len(base.items):
                    return base.items[j]
                raise OutOfSubset('tuple index out of range at line %d' % e.lineno)
        if base.ty.k == 'list' and isinstance(e.slice, ast.Slice):
            sl = e.slice
            if sl.upper is None and sl.step is None and sl.lower is not None:
                lo = self.ev(sl.lower, st)
                if lo.ty.k == 'int' and z3.is_int_value(lo.t) and lo.t.as_long() >= 0:
                    k = lo.t.as_long()
                    out = self.new_list(st, base.ty.a[0])
                    n = st.heap.len(base.t)
                    st.heap.set('len', z3.Store(st.heap.A('len'), out.t, z3.If(n >= k, n - k, 0)))
                    arr = 'eltR' if base.ty.a[0].k == 'real' else 'eltI'
                    iq = fresh('iq', I)
                    st.heap.set(arr, z3.Store(st.heap.A(arr), out.t, z3.Lambda([iq], st.heap.A(arr)[base.t][iq + k])))
                    return out
            raise OutOfSubset('list slice at line %d' % e.lineno)
        if base.ty.k == 'list':
            idx = self.ev(e.slice, st)
            if idx.ty.k != 'int':
                raise OutOfSubset('list index of type %r' % (idx.ty,))
            n = st.heap.len(base.t)
            i = idx.t
            if z3.is_int_value(i) and i.as_long() < 0:
                i = n + i
            self.emit('safe.IndexError@%d' % e.lineno, st, z3.And(i >= 0, i < n), e.lineno, tag='aux')
            return self.list_elem(st, base, i)
        if base.ty.k == 'htuple' and isinstance(e.slice, ast.Slice):
            sl = e.slice
            if sl.upper is None and sl.step is None and isinstance(sl.lower, ast.Constant) and isinstance(sl.lower.value, int) and sl.lower.value >= 0:
                k0 = sl.lower.value
                items = [self.htuple_item(st.heap, t, j, base.t) for j, t in enumerate(base.ty.a)][k0:]
                return V(TTuple(*[i.ty for i in items]), items=items)
            raise OutOfSubset('tuple slice at line %d' % e.lineno)
        if base.ty.k == 'htuple':
            idx = self.ev(e.slice, st)
            if idx.ty.k == 'int' and z3.is_int_value(idx.t):
                j = idx.t.as_long()
                if j < 0:
                    j += len(base.ty.a)
                return self.htuple_item(st.heap, base.ty.a[j], j, base.t)
        if base.ty.k == 'calltable':
            idx = self.ev(e.slice, st)
            if idx.ty.k != 'str':
                raise OutOfSubset('table of callables indexed by %r at line %d' % (idx.ty, e.lineno))
            self.emit('safe.KeyError@%d' % e.lineno, st, base.py[1](idx.t), e.lineno, tag='aux')
            return V(T('callable', base.py[0]), idx.t)
        if base.ty.k == 'ref' and self.reg.lookup_method(base.ty.a[0], '__getitem__') is not None:
            return self.call_method(st, base, '__getitem__', [self.ev(e.slice, st)], {}, e.lineno)
        raise OutOfSubset('subscript of %r at line %d' % (base.ty, e.lineno))

    def list_elem(self, st, lst, i):
        et = lst.ty.a[0]
        if et.k == 'real':
            return vreal(st.heap.eltr(lst.t, i))
        return V(et, st.heap.elt(lst.t, i))

    def ev_Dict(self, e, st):
        d = self.alloc(st, 'dict')
        dom, val = z3.K(Key, False), z3.K(Key, z3.RealVal(0))
        for k, v in zip(e.keys, e.values):
            kk = self.to_key(st, self.ev(k, st))
            vv = self.ev(v, st)
            if vv.ty.k not in ('int', 'real'):
                raise OutOfSubset('dict literal with non-scalar value at line %d' % e.lineno)
            dom, val = z3.Store(dom, kk, True), z3.Store(val, kk, to_real(vv.t))
        st.heap.set('dom', z3.Store(st.heap.A('dom'), d, dom))
        st.heap.set('valR', z3.Store(st.heap.A('valR'), d, val))
        return V(CDict, d)

    def ev_Set(self, e, st):
        return V(T('set'), items=[self.ev(x, st) for x in e.elts])

    def ev_List(self, e, st):
        out = self.new_list(st, TAny)
        for x in e.elts:
            self.list_append(st, out, self.ev(x, st), e.lineno)
        return out

    def new_list(self, st, et):
        l = self.alloc(st, 'list')
        st.heap.set('len', z3.Store(st.heap.A('len'), l, 0))
        return V(TList(et), l)

    def new_dict(self, st, vt=TReal):
        d = self.alloc(st, 'dict')
        st.heap.set('dom', z3.Store(st.heap.A('dom'), d, z3.K(Key, False)))
        return V(TDict(vt), d)

    def ev_ListComp(self, e, st):
        """[f(x) for x in L] over a heap list, f a pure expression: the new list is defined pointwise (no loop is cut)"""
        g = e.generators[0]
        enum = (isinstance(g.target, ast.Tuple) and len(g.target.elts) == 2 and all(isinstance(x, ast.Name) for x in g.target.elts))
        if len(e.generators) != 1 or g.ifs or not (isinstance(g.target, ast.Name) or enum):
            raise OutOfSubset('list comprehension shape at line %d' % e.lineno)
        src = self.ev(g.iter, st)
        if enum:
            if not (src.ty.k == 'enumerate' and len(src.items) == 1 and src.items[0].ty.k == 'list'):
                raise OutOfSubset('list comprehension with a pair target over %r at line %d' % (src.ty, e.lineno))
            src = src.items[0]
        if src.ty.k != 'list':
            raise OutOfSubset('list comprehension over %r at line %d' % (src.ty, e.lineno))
        iq = fresh('iq', I)
        sub = st.fork()
        if enum:
            sub.env[g.target.elts[0].id] = vint(iq)
            sub.env[g.target.elts[1].id] = self.list_elem(sub, src, iq)
        else:
            sub.env[g.target.id] = self.list_elem(sub, src, iq)
        n_ex, n_ob = len(self.pending_exits), len(self.obls)
        val = self.ev(e.elt, sub)
        if len(self.pending_exits) != n_ex or len(self.obls) != n_ob or len(sub.pc) != len(st.pc):
            raise OutOfSubset('list comprehension whose element expression can raise or needs an obligation, line %d' % e.lineno)
        if val.ty.k == 'opt':
            raise OutOfSubset('list comprehension with optional elements at line %d' % e.lineno)
        out = self.new_list(st, val.ty)
        n = st.heap.len(src.t)
        st.heap.set('len', z3.Store(st.heap.A('len'), out.t, n))
        arr = 'eltR' if val.ty.k == 'real' else 'eltI'
        newelts = fresh('compelts', IA_R if arr == 'eltR' else IA_I)
        st.heap.set(arr, z3.Store(st.heap.A(arr), out.t, newelts))
        st.pc.append(z3.ForAll([iq], z3.Implies(z3.And(iq >= 0, iq < n), newelts[iq] == val.t), patterns=[newelts[iq]]))
        return out

    def ev_DictComp(self, e, st):
        # {key: f(value) for key, value in d.items()}  with f elementwise: desugared to its pointwise meaning
        g = e.generators[0]
        if (len(e.generators) == 1 and not g.ifs and isinstance(g.iter, ast.Call) and isinstance(g.iter.func, ast.Attribute)
                and g.iter.func.attr == 'items' and isinstance(g.target, ast.Tuple) and len(g.target.elts) == 2
                and isinstance(e.key, ast.Name) and e.key.id == g.target.elts[0].id):
            src = self.ev(g.iter.func.value, st)
            if src.ty != CDict:
                raise OutOfSubset('dict comprehension over %r' % (src.ty,))
            out = self.new_dict(st)
            kq = fresh('kq', Key)
            sub = st.fork()
            sub.env[g.target.elts[0].id] = V(TKey, kq)
            sub.env[g.target.elts[1].id] = vreal(st.heap.get(src.t, kq))
            n_ex = len(self.pending_exits)
            val = self.ev(e.value, sub)
            if len(self.pending_exits) != n_ex or len(sub.pc) != len(st.pc):
                raise OutOfSubset('dict comprehension whose element expression can raise, line %d' % e.lineno)
            if val.ty.k not in ('int', 'real'):
                raise OutOfSubset('dict comprehension value type %r' % (val.ty,))
            newval = fresh('compval', KR)
            st.heap.set('dom', z3.Store(st.heap.A('dom'), out.t, st.heap.dom(src.t)))
            st.heap.set('valR', z3.Store(st.heap.A('valR'), out.t, newval))
            st.pc.append(z3.ForAll([kq], z3.Implies(st.heap.has(src.t, kq), newval[kq] == to_real(val.t))))
            return out
        # {key: value for key, value in d.items() if COND(key, value)}: the filtered copy
        if (len(e.generators) == 1 and len(g.ifs) == 1 and isinstance(g.iter, ast.Call) and isinstance(g.iter.func, ast.Attribute)
                and g.iter.func.attr == 'items' and isinstance(g.target, ast.Tuple) and len(g.target.elts) == 2
                and isinstance(e.key, ast.Name) and e.key.id == g.target.elts[0].id and isinstance(e.value, ast.Name) and e.value.id == g.target.elts[1].id):
            src = self.ev(g.iter.func.value, st)
            if src.ty != CDict:
                raise OutOfSubset('dict comprehension over %r' % (src.ty,))
            out = self.new_dict(st)
            kq = fresh('kq', Key)
            sub = st.fork()
            sub.env[g.target.elts[0].id] = V(TKey, kq)
            sub.env[g.target.elts[1].id] = vreal(st.heap.get(src.t, kq))
            n_ex = len(self.pending_exits)
            cond = self.truth(self.ev(g.ifs[0], sub))
            if len(self.pending_exits) != n_ex or len(sub.pc) != len(st.pc):
                raise OutOfSubset('dict comprehension whose filter can raise, line %d' % e.lineno)
            newdom = fresh('compdom', KB)
            st.heap.set('dom', z3.Store(st.heap.A('dom'), out.t, newdom))
            st.heap.set('valR', z3.Store(st.heap.A('valR'), out.t, st.heap.A('valR')[src.t]))
            st.pc.append(z3.ForAll([kq], newdom[kq] == z3.And(st.heap.has(src.t, kq), cond)))
            return out
        raise OutOfSubset('dict comprehension shape at line %d' % e.lineno)

    # ---------------------------------------------------------------- calls
    def ev_Call(self, e, st):
        args = None
        f = e.func
        kw = {}
        if isinstance(f, ast.Name) and f.id == 'print' and 'print' not in st.env:
            return VNONE          # dropped (extraction report): its argument expressions are assumed not to raise
        # method call
        if isinstance(f, ast.Attribute):
            # super().__init__(...)
            recv = self.ev(f.value, st)
            args = [self.ev(a, st) for a in e.args]
            kw = self.ev_keywords(e, st)
            if recv.ty.k == 'str' and f.attr == 'lower' and not args and not kw:
                return V(TStr, STR_LOWER(recv.t))
            if recv.ty.k == 'py':
                return self.call_py(st, ('attr', recv.py, f.attr), args, kw, e)
            if recv.ty.k == 'str' and f.attr == 'format' and not kw and 1 <= len(args) <= 5 and all(
                    a.ty.k in ('str', 'int') or (a.ty.k == 'opt' and a.ty.a[0].k in ('str', 'int')) for a in args):
                def farg(a):
                    if a.ty.k == 'opt':
                        return z3.If(a.none, z3.IntVal(str_code('None')), a.t)
                    return a.t
                return V(TStr, FMT[len(args)](recv.t, *[farg(a) for a in args]))          # (other argument kinds: an opaque string, below)
            if recv.ty.k == 'objarr' and f.attr == 'reshape' and len(args) == 2 and all(a.ty.k == 'int' for a in args) and recv.items[0] == 'flat':
                ok = z3.And(args[0].t == 1, args[1].t == -1)
                if not z3.is_true(z3.simplify(ok)):
                    raise OutOfSubset('reshape other than (1, -1) at line %d' % e.lineno)
                return V(T('objarr'), recv.t, items=['row'])
            return self.call_method(st, recv, f.attr, args, kw, e.lineno)
        fn = self.ev(f, st)
        args = [self.ev(a, st) for a in e.args]
        kw = self.ev_keywords(e, st)
        if fn.ty.k == 'py':
            return self.call_py(st, fn.py, args, kw, e)
        if fn.ty.k == 'callable' and fn.t is not None:
            # an entry of a table of callables (WRAPPERS[name]): the abstract contract receives the key as its first argument
            return self.apply_contract(st, self.reg.by_key[fn.ty.a[0]], [V(TStr, fn.t)] + args, kw, e.lineno, fn.ty.a[0])
        if fn.ty.k == 'callable':
            # a function-valued parameter: known only through the abstract contract the side-car gives it
            return self.apply_contract(st, self.reg.by_key[fn.ty.a[0]], args, kw, e.lineno, fn.ty.a[0])
        raise OutOfSubset('call of %r at line %d' % (fn.ty, e.lineno))

    def ev_keywords(self, e, st):
        kw = {}
        for k in e.keywords:
            v = self.ev(k.value, st)
            if k.arg is None:
                if v.ty.k != 'kwargs':
                    raise OutOfSubset('** of %r at line %d' % (v.ty, e.lineno))
                kw['**'] = v
            else:
                kw[k.arg] = v
        return kw

    def call_py(self, st, what, args, kw, e):
        line = e.lineno
        if what[0] == 'builtin':
            n = what[1]
            if n == 'isinstance':
                return vbool(self.isinstance_(st, args[0], args[1], line))
            if n == 'type' and len(args) == 1:
                v = args[0]
                return V(T('typeof'), py=lambda cname, v=v: self.type_is(st, v, cname, line))
            if n == 'dict' and not args:
                return self.new_dict(st)
            if n == 'list' and not args:
                return self.new_list(st, TAny)
            if n == 'len':
                v = args[0]
                if v.ty.k == 'list':
                    return vint(st.heap.len(v.t))
                if v.ty.k == 'tuple':
                    return vint(len(v.items))
                if v.ty.k == 'dict':
                    dom = st.heap.dom(v.t)
                    st.pc += [dcard(dom) >= 0, (dcard(dom) == 0) == (dom == z3.K(Key, False))]
                    return vint(dcard(dom))
            if n in ('max', 'min') and len(args) == 2:
                args = [self.as_int(st, a, line) for a in args]
            if n in ('max', 'min') and len(args) == 2 and all(a.ty.k in ('int', 'real') for a in args) and any(a.ty.k == 'real' for a in args):
                x, y = to_real(args[0].t), to_real(args[1].t)
                return vreal(z3.If((x >= y) if n == 'max' else (x <= y), x, y))
            if n in ('max', 'min') and len(args) == 2 and all(a.ty.k == 'int' for a in args):
                a, b = args
                return vint(z3.If((a.t >= b.t) if n == 'max' else (a.t <= b.t), a.t, b.t))
            if n == 'abs' and len(args) == 1 and args[0].ty.k in ('int', 'real'):
                a0 = args[0]
                return V(a0.ty, z3.If(a0.t >= 0, a0.t, -a0.t))
            if n == 'print':
                return VNONE
            if n == 'range':
                return V(T('range'), items=args)
            if n == 'enumerate':
                return V(T('enumerate'), items=args)
            if n == 'zip':
                return V(T('zip'), items=args)
        if what[0] == 'class':
            cname = what[1]
            if cname.endswith('Error') or cname == 'Exception':
                return V(T('exc'), py=cname)
            return self.construct(st, cname, args, kw, line)
        if what[0] == 'function':
            return self.apply_contract(st, self.reg.lookup_function(what[1]), args, kw, line, what[1])
        if what[0] == 'attr' and what[1] == ('module', 'warnings') and what[2] == 'warn':
            return VNONE          # dropped (extraction report)
        if what[0] == 'attr' and what[1] == ('module', 'np') and what[2] == 'zeros' and len(args) == 1 and args[0].ty.k == 'tuple':
            dims = args[0].items
            dt = kw.get('dtype')
            if dt is not None and not (dt.ty.k == 'py' and dt.py == ('builtin', 'int')):
                raise OutOfSubset('np.zeros with dtype %r at line %d (only the unbounded python int is modelled)' % (dt.py if dt.ty.k == 'py' else dt.ty, line))
            if all(d.ty.k == 'int' for d in dims) and len(dims) == 1 and dt is not None:
                self.emit('safe.shape@%d' % line, st, dims[0].t >= 0, line, tag='aux')
                return V(TArr1i, z3.K(I, z3.IntVal(0)), items=[dims[0].t], py='fresh')
            if all(d.ty.k == 'int' for d in dims) and len(dims) == 1:
                self.emit('safe.shape@%d' % line, st, dims[0].t >= 0, line, tag='aux')
                return V(TArr1, z3.K(I, z3.RealVal(0)), items=[dims[0].t], py='fresh')
            if all(d.ty.k == 'int' for d in dims) and len(dims) == 2:
                self.emit('safe.shape@%d' % line, st, z3.And(dims[0].t >= 0, dims[1].t >= 0), line, tag='aux')
                ii, jj = fresh('i', I), fresh('j', I)
                return V(TArr2, z3.Lambda([ii, jj], z3.RealVal(0)), items=[dims[0].t, dims[1].t], py='fresh')
            raise OutOfSubset('np.zeros shape at line %d' % line)
        if what[0] == 'attr' and what[1] == ('module', 'np') and what[2] == 'zeros' and len(args) == 1 and args[0].ty.k == 'int':
            st.pc.append(vdim(vzero(args[0].t)) == args[0].t)
            return V(TVec, vzero(args[0].t), py='fresh')
        if what[0] == 'attr' and what[1] == ('module', 'np') and what[2] == 'array' and len(args) == 1 and args[0].ty.k == 'list':
            l = args[0]
            et = l.ty.a[0]
            if et.k == 'real':
                return V(TArr1, st.heap.A('eltR')[l.t], items=[st.heap.len(l.t)], py='fresh')
            if et.k == 'int':
                return V(TArr1i, st.heap.A('eltI')[l.t], items=[st.heap.len(l.t)], py='fresh')
            if et.k == 'list' and et.a[0].k == 'real':
                # rows must have one common length (numpy would build a ragged object array / raise otherwise); an empty outer list gives shape (0,)
                n0 = st.heap.len(l.t)
                row = lambda i: st.heap.A('eltI')[l.t][i]
                n1 = st.heap.len(row(z3.IntVal(0)))
                iq = fresh('iq', I)
                self.emit('safe.rectangular@%d' % line, st, z3.And(n0 >= 1, z3.ForAll([iq], z3.Implies(z3.And(iq >= 0, iq < n0), st.heap.len(row(iq)) == n1))), line, tag='aux')
                ii, jj = fresh('i', I), fresh('j', I)
                return V(TArr2, z3.Lambda([ii, jj], st.heap.A('eltR')[row(ii)][jj]), items=[n0, n1], py='fresh')
            if et.k in ('ref', 'htuple') or (et.k == 'any' and getattr(self.c, 'object_tables', False)):
                return V(T('objarr'), l.t, items=['flat'])          # numpy object array of a flat list: same cells
            if et.k == 'list' and et.a[0].k in ('ref', 'any'):
                return V(T('objarr'), l.t, items=['rows'])          # of a list of rows (shape (0,) when there is no row)
            if et.k == 'any':
                # never appended to: an empty array
                return V(TArr1, z3.K(I, z3.RealVal(0)), items=[st.heap.len(l.t)], py='fresh')
            raise OutOfSubset('np.array of a list of %r at line %d' % (et, line))
        if what[0] == 'attr' and what[1] == ('module', 'np') and what[2] == 'dot' and len(args) == 2 and all(x.ty.k == 'vec' for x in args):
            self.emit('safe.dot_shapes@%d' % line, st, vdim(args[0].t) == vdim(args[1].t), line, tag='aux')
            return vreal(vdot(args[0].t, args[1].t))
        if what[0] == 'attr':
            handler = self.reg.external(what)
            if handler:
                return handler(self, st, args, kw, e)
        raise OutOfSubset('call of %r at line %d' % (what, line))

    def type_is(self, st, v, cname, line):
        """formula for type(v) == cname (exact type)"""
        if v.ty.k == 'key':
            if cname == 'tuple':
                return is_Tup(v.t)
            return z3.And(is_Obj(v.t), st.heap.cls(oid(v.t)) == tag(cname))
        if v.ty.k == 'ref':
            return st.heap.cls(v.t) == tag(cname)
        if v.ty.k == 'dict':
            return z3.BoolVal(cname == 'dict')
        if v.ty.k in ('opt', 'none'):
            inner = V(v.ty.a[0], v.t) if v.ty.k == 'opt' else None
            if inner is None:
                return z3.BoolVal(False)
            return z3.And(z3.Not(v.none), self.type_is(st, inner, cname, line))
        if v.ty.k in ('int', 'real', 'bool', 'str', 'tuple'):
            py = {'int': 'int', 'real': 'float', 'bool': 'bool', 'str': 'str', 'tuple': 'tuple'}[v.ty.k]
            return z3.BoolVal(cname == py)
        raise OutOfSubset('type() of %r at line %d' % (v.ty, line))

    def isinstance_(self, st, v, clsv, line):
        if clsv.ty.k == 'tuple' and clsv.items and all(c.ty.k == 'py' for c in clsv.items):
            return z3.Or(*[self.isinstance_(st, v, c, line) for c in clsv.items])          # isinstance(x, (A, B))
        if clsv.ty.k != 'py':
            raise OutOfSubset('isinstance against non-class')
        what = clsv.py
        cname = what[1]
        if v.ty.k == 'real':      # a Python scalar accepted by the DSL: int or float (declared by the contract variant)
            return z3.BoolVal(cname in ('int', 'float')) if cname in ('int', 'float') else z3.BoolVal(False)
        if v.ty.k == 'int':
            return z3.BoolVal(cname == 'int')
        if v.ty.k == 'key':
            if cname == 'tuple':
                return is_Tup(v.t)
            if cname in ('int', 'float'):
                return is_One(v.t) if cname == 'int' else z3.BoolVal(False)
            return z3.And(is_Obj(v.t), isinstance_f(st.heap.A('cls'), oid(v.t), cname))
        if v.ty.k == 'ref':
            if cname in ('int', 'float', 'tuple', 'dict', 'list', 'str'):
                return z3.BoolVal(False)
            scls = v.ty.a[0]
            if scls is not None and scls in SUBCLASSES.get(cname, ()):
                return z3.BoolVal(True)
            if scls is not None and cname in SUBCLASSES and cname not in SUBCLASSES.get(scls, ()):
                return z3.BoolVal(False)      # unrelated classes (single inheritance in the repo)
            return isinstance_f(st.heap.A('cls'), v.t, cname)
        if v.ty.k == 'any':        # opaque foreign operand: instance of no DSL class, no scalar
            return z3.BoolVal(False)
        if v.ty.k in ('dict', 'list', 'tuple', 'str', 'bool', 'none'):
            return z3.BoolVal(cname == {'dict': 'dict', 'list': 'list', 'tuple': 'tuple', 'str': 'str', 'bool': 'bool', 'none': '-'}[v.ty.k])
        if v.ty.k == 'opt':
            return z3.And(z3.Not(v.none), self.isinstance_(st, V(v.ty.a[0], v.t), clsv, line))
        raise OutOfSubset('isinstance of %r at line %d' % (v.ty, line))

    def call_method(self, st, recv, name, args, kw, line):
        k = recv.ty.k
        if k == 'dict':
            if name == 'copy' and not args:
                d = self.alloc(st, 'dict')
                st.heap.set('dom', z3.Store(st.heap.A('dom'), d, st.heap.dom(recv.t)))
                arr = 'valR' if recv.ty.a[0].k == 'real' else 'valI'
                st.heap.set(arr, z3.Store(st.heap.A(arr), d, st.heap.A(arr)[recv.t]))
                return V(recv.ty, d)
            if name in ('keys', 'items', 'values') and not args:
                return V(T('dict' + name, recv.ty.a[0]), recv.t)
            if name == 'get' and len(args) == 1 and recv.ty.a[0].k != 'real':
                k = self.to_key(st, args[0])
                return V(TOpt(recv.ty.a[0]), st.heap.geti(recv.t, k), none=z3.Not(st.heap.has(recv.t, k)))          # d.get(k): None when absent
            if name == 'get' and len(args) == 2 and recv.ty.a[0].k == 'real' and args[1].ty.k in ('int', 'real'):
                k = self.to_key(st, args[0])
                return vreal(z3.If(st.heap.has(recv.t, k), st.heap.get(recv.t, k), to_real(args[1].t)))
        if k == 'list' and name == 'append' and len(args) == 1:
            return self.list_append(st, recv, args[0], line)
        if k == 'key':
            recv = self.as_ref(st, recv, line, 'method call')
            k = 'ref'
        if k == 'opt':
            self.emit('safe.not_none@%d' % line, st, z3.Not(recv.none), line, tag='aux')
            recv = V(recv.ty.a[0], recv.t)
            k = recv.ty.k
        if k == 'ref':
            cls = recv.ty.a[0]
            c = self.reg.lookup_method(cls, name)
            if c is None:
                raise OutOfSubset('no contract for %s.%s (line %d)' % (cls, name, line))
            return self.apply_contract(st, c, [recv] + args, kw, line, '%s.%s' % (cls, name))
        if k == 'str' and name == 'format':
            return V(TStr, fresh('fmt', I))
        raise OutOfSubset('method %s on %r at line %d' % (name, recv.ty, line))

    def list_append(self, st, lst, v, line):
        et = lst.ty.a[0]
        if v.ty.k == 'opt' and v.ty.a[0].k == 'int' and et.k in ('int', 'any'):
            v = self.as_int(st, v, line)
        n = st.heap.len(lst.t)
        if et.k == 'any':
            # first append fixes the element type of a local list
            et = v.ty
            lst.ty = TList(et)
        if et.k == 'real':
            if v.ty.k not in ('int', 'real'):
                raise OutOfSubset('append %r to list of real' % (v.ty,))
            st.heap.set('eltR', z3.Store(st.heap.A('eltR'), lst.t, z3.Store(st.heap.A('eltR')[lst.t], n, to_real(v.t))))
        else:
            if v.ty.k == 'tuple':
                v = self.heapify_tuple(st, v)
            if et.k == 'ref' and v.ty.k == 'int':
                if not (z3.is_int_value(v.t) and v.t.as_long() == 0):
                    raise OutOfSubset('append of an int other than 0 to a list of references at line %d' % line)
                v = V(et, z3.IntVal(ZERO_CELL))
            if smt_sort(v.ty) != I:
                raise OutOfSubset('append %r to list' % (v.ty,))
            st.heap.set('eltI', z3.Store(st.heap.A('eltI'), lst.t, z3.Store(st.heap.A('eltI')[lst.t], n, v.t)))
        st.heap.set('len', z3.Store(st.heap.A('len'), lst.t, n + 1))
        return VNONE

    @staticmethod
    def htuple_item(heap, ty, j, r):
        """item j of heap tuple r: references / ints live in the arrays t<j>, reals in tr<j>"""
        if ty.k == 'real':
            return V(ty, heap.fld(None, 'tr%d' % j, r))
        return V(ty, heap.fld(None, 't%d' % j, r))

    def heapify_tuple(self, st, v):
        if getattr(v, 'hid', None) is not None:
            return V(THeapTuple(*[i.ty for i in v.items]), v.hid)       # the same tuple object stored a second time keeps its identity
        r = self.alloc(st, 'tuple')
        v.hid = r
        for i, it in enumerate(v.items):
            if it.ty.k == 'real' and i < 3:
                st.heap.set('f:tr%d' % i, z3.Store(st.heap.A('f:tr%d' % i, IA_R), r, it.t))
                continue
            if smt_sort(it.ty) != I:
                raise OutOfSubset('heap tuple with non-reference item')
            st.heap.set('f:t%d' % i, z3.Store(st.heap.A('f:t%d' % i, IA_I), r, it.t))
        return V(THeapTuple(*[i.ty for i in v.items]), r)

    def construct(self, st, cname, args, kw, line):
        c = self.reg.lookup_method(cname, '__init__')
        if c is None:
            raise OutOfSubset('no contract for constructor %s (line %d)' % (cname, line))
        r = self.alloc(st, cname)
        self_v = vref(cname, r)
        self.apply_contract(st, c, [self_v] + args, kw, line, cname + '.__init__')
        return self_v

    def bind_args(self, c, args, kw, line):
        names = [p[0] for p in c.params]
        if len(args) > 1 and '::' in c.key:
            real = real_positional_order(c.key)
            if real is not None:
                ro = [n for n in real if n in names]
                wo = [n for n in names if n in real]
                if ro != wo:
                    raise OutOfSubset('positional call of %s at line %d: its real parameters are %s, its contract lists them as %s' % (c.key, line, ro, wo))
        if len(args) > len(names):
            raise OutOfSubset('too many arguments for %s at line %d' % (c.key, line))
        bound = dict(zip(names, args))
        if '**' in kw:
            kwp = [pn for pn, pt in c.params if pt.k == 'kwargs']
            if not kwp or kwp[0] in bound:
                raise OutOfSubset('** passed to %s, which has no **-parameter in its contract (line %d)' % (c.key, line))
            kw = dict(kw)
            bound[kwp[0]] = kw.pop('**')
        for k, v in kw.items():
            if k not in names and k not in bound and '::' in c.key and k in extra_params_of(c.key):
                continue        # an optional parameter the callee's contract does not know: the callee is verified for every value of it
            if k not in names or k in bound:
                raise OutOfSubset('bad keyword %s for %s at line %d' % (k, c.key, line))
            bound[k] = v
        for n, pt in c.params:
            if n not in bound and pt.k == 'kwargs':
                bound[n] = V(T('kwargs'), KW_EMPTY)
        for n in names:
            if n not in bound:
                if n in c.defaults:
                    bound[n] = c.defaults[n]()
                else:
                    raise OutOfSubset('missing argument %s for %s at line %d' % (n, c.key, line))
        return bound

    def apply_contract(self, st, c, args, kw, line, label):
        if getattr(c, 'assumed', False):
            if not hasattr(self, 'assumed_used'):
                self.assumed_used = []
            item = (c.key, (getattr(c, 'note', '') or '')[:160])
            if item not in self.assumed_used:
                self.assumed_used.append(item)
        a = self.bind_args(c, args, kw, line)
        a = c.adapt_args(self, st, a, line)
        S0 = st.heap.copy()
        st.pc += c.axioms()
        st.pc += c.defs(S0, a)
        for lab, f in c.requires(S0, a):
            self.emit('call.pre[%s:%s]@%d' % (label, lab, line), st, f, line, tag='aux')
        # exceptional exits
        whens = []
        for exc, when in c.raises:
            w = when(S0, a)
            whens.append(w)
            bad = st.fork(w)
            if self.feasible(bad):
                self.pending_exits.append(Exit('raise', bad, exc=exc, line=line))
        for w in whens:
            st.pc.append(z3.Not(w))
        if any(z3.is_true(z3.simplify(w)) for w in whens):
            raise DeadPath()
        # havoc
        mods = c.modifies(S0, a)
        if c.allocates:
            new_alloc = fresh('alloc', I)
            st.pc.append(new_alloc >= S0.alloc)
            st.heap.alloc = new_alloc
        for name in c.touches(S0, a):
            old = st.heap.A(name, c.array_sort(name))
            new = fresh(name, old.sort())
            st.heap.set(name, new)
            pred = mods.get(name)
            r = fresh('r', I)
            keep = z3.And(r >= 0, r < S0.alloc) if pred is None else z3.And(r >= 0, r < S0.alloc, z3.Not(pred(r)))
            st.pc.append(self.label(z3.ForAll([r], z3.Implies(keep, new[r] == old[r]), patterns=[new[r]]), 'frame.%s.%s' % (c.qualname, name)))
        for gname in c.mod_globals:
            st.heap.glob[gname] = fresh_value(self.global_types[gname], gname)
        res = c.fresh_result(self, st, S0, a)
        for lab, f, _tag in c.ensures(S0, st.heap, a, res):
            if _tag == 'ghost':
                continue          # stated with a spec function that only has a meaning inside the callee's own proof: callers may not rely on it
            st.pc.append(self.label(f, 'ens.%s.%s' % (c.qualname, lab)))
        return res

    def dead_value(self, ty):
        """value on a path whose condition is already False (callee always raises)"""
        if ty is None or ty.k == 'none':
            return VNONE
        return fresh_value(ty, 'dead')

    # ---------------------------------------------------------------- statements
    def run_block(self, body, st):
        """returns list of normal-continuation states; exits are accumulated in self.exits"""
        states = [st]
        for s in body:
            nxt = []
            for x in states:
                nxt += self.stmt(s, x)
            states = nxt
            if not states:
                break
        return states

    def flush(self, st):
        """move exits generated while evaluating expressions of the current statement"""
        self.exits += self.pending_exits
        self.pending_exits = []

    def stmt(self, s, st):
        m = getattr(self, 'st_' + type(s).__name__, None)
        if m is None:
            raise OutOfSubset('statement %s at line %d' % (type(s).__name__, s.lineno))
        try:
            out = m(s, st)
        except DeadPath:
            out = []
        self.flush(st)
        return out

    def st_Expr(self, s, st):
        if isinstance(s.value, ast.Constant):
            return [st]                       # doc-string: dropped (reported by the extraction report)
        self.ev(s.value, st)
        return [st]

    def st_Pass(self, s, st):
        return [st]

    def st_Continue(self, s, st):
        self.exits.append(Exit('continue', st, line=s.lineno))
        return []

    def st_Import(self, s, st):
        return [st]

    st_ImportFrom = st_Import

    def note_local(self, name):
        if name not in self.local_order:
            self.local_order.append(name)

    def assign_to(self, target, v, st, line):
        if isinstance(target, ast.Name):
            self.note_local(target.id)
            lt = getattr(self.c, 'local_types', {})
            hint = lt.get(target.id)
            if hint is None and target.id in self.local_order:
                hint = lt.get(self.local_order.index(target.id))          # by ordinal of first assignment (stable under renaming of locals)
            if isinstance(hint, T):
                if v.ty.k == 'list' and v.ty.a[0].k == 'any' and hint.k == 'list':
                    v = V(hint, v.t)                  # element type of a local list declared by the side-car
                hint = None
            if hint and v.ty.k == 'key':
                ok = z3.And(is_Obj(v.t), isinstance_f(st.heap.A('cls'), oid(v.t), hint))
                self.emit('safe.local_type[%s:%s]@%d' % (target.id, hint, line), st, ok, line, tag='aux')
                st.pc.append(ok)
                v = V(TRef(hint), oid(v.t))
            st.env[target.id] = v
            return
        if isinstance(target, ast.Tuple):
            items = self.unpack(st, v, len(target.elts), line)
            for t, it in zip(target.elts, items):
                self.assign_to(t, it, st, line)
            return
        if isinstance(target, ast.Attribute):
            if isinstance(target.value, ast.Name) and target.value.id not in st.env and target.value.id in CLASS_TAGS:
                gname = '%s.%s' % (target.value.id, target.attr)
                if gname not in self.global_types:
                    raise OutOfSubset('store to class attribute %s' % gname)
                st.heap.glob[gname] = v
                return
            if isinstance(target.value, ast.Attribute) and target.value.attr == 'columns' and target.attr == 'name':
                owner = self.ev(target.value.value, st)
                if owner.ty.k == 'ref' and owner.ty.a[0] == 'DataFrame':
                    self.write_field(st, 'DataFrame', 'colname', owner.t, v, line)
                    return
            base = self.ev(target.value, st)
            if base.ty.k == 'key':
                base = self.as_ref(st, base, line)
            if base.ty.k != 'ref':
                raise OutOfSubset('attribute store on %r at line %d' % (base.ty, line))
            self.write_field(st, base.ty.a[0], target.attr, base.t, v, line)
            return
        if isinstance(target, ast.Subscript):
            base = self.ev(target.value, st)
            if base.ty.k in ('arr1', 'arr1i', 'arr2'):
                return self.np_store(target, base, v, st, line)
            if base.ty.k == 'dict':
                k = self.to_key(st, self.ev(target.slice, st))
                arr = 'valR' if base.ty.a[0].k == 'real' else 'valI'
                val = to_real(v.t) if arr == 'valR' else v.t
                if arr == 'valR' and v.ty.k not in ('int', 'real'):
                    raise OutOfSubset('dict store of %r at line %d' % (v.ty, line))
                st.heap.set('dom', z3.Store(st.heap.A('dom'), base.t, z3.Store(st.heap.dom(base.t), k, True)))
                st.heap.set(arr, z3.Store(st.heap.A(arr), base.t, z3.Store(st.heap.A(arr)[base.t], k, val)))
                return
        raise OutOfSubset('assignment target %s at line %d' % (type(target).__name__, line))

    def np_store(self, target, base, v, st, line):
        """A[i] = v / A[i, j] = v on a LOCAL numpy array (created in this function, never aliased): value semantics"""
        if not isinstance(target.value, ast.Name) or base.py != 'fresh':
            raise OutOfSubset('store into a numpy array that is not a fresh local at line %d' % line)
        if v.ty.k not in ('int', 'real'):
            raise OutOfSubset('array store of %r at line %d' % (v.ty, line))
        idx = self.ev(target.slice, st)
        if idx.ty.k == 'tuple':
            idx = V(idx.ty, items=[self.as_int(st, x, line) for x in idx.items])
        else:
            idx = self.as_int(st, idx, line)
        if base.ty.k == 'arr2':
            if not (idx.ty.k == 'tuple' and len(idx.items) == 2 and all(x.ty.k == 'int' for x in idx.items)):
                raise OutOfSubset('2-D array store index at line %d' % line)
            i = self.np_index(st, base, idx.items[0].t, 0, line)
            j = self.np_index(st, base, idx.items[1].t, 1, line)
            new = z3.Store(base.t, i, j, to_real(v.t))
        else:
            if idx.ty.k != 'int':
                raise OutOfSubset('array store index at line %d' % line)
            i = self.np_index(st, base, idx.t, 0, line)
            new = z3.Store(base.t, i, to_real(v.t) if base.ty.k == 'arr1' else v.t)
        st.env[target.value.id] = V(base.ty, new, items=base.items, py='fresh')

    def unpack(self, st, v, n, line):
        if v.ty.k == 'tuple':
            if len(v.items) != n:
                raise OutOfSubset('unpack arity at line %d' % line)
            return v.items
        if v.ty.k == 'htuple':
            if len(v.ty.a) != n:
                raise OutOfSubset('unpack arity at line %d' % line)
            return [self.htuple_item(st.heap, t, i, v.t) for i, t in enumerate(v.ty.a)]
        if v.ty.k == 'key' and n == 2:
            self.emit('safe.key_is_tuple@%d' % line, st, is_Tup(v.t), line, tag='aux')
            st.pc.append(is_Tup(v.t))
            return [V(TKey, fst(v.t)), V(TKey, snd(v.t))]
        raise OutOfSubset('unpack of %r at line %d' % (v.ty, line))

    def st_Assign(self, s, st):
        v = self.ev(s.value, st)
        for t in s.targets:
            self.assign_to(t, v, st, s.lineno)
        return [st]

    def st_AugAssign(self, s, st):
        t = s.target
        if isinstance(t, ast.Subscript):
            base = self.ev(t.value, st)
            if base.ty.k == 'dict' and base.ty.a[0].k == 'real':
                k = self.to_key(st, self.ev(t.slice, st))
                self.emit('safe.KeyError@%d' % s.lineno, st, st.heap.has(base.t, k), s.lineno, tag='aux')
                cur = vreal(st.heap.get(base.t, k))
                new = self.arith(s.op, cur, self.ev(s.value, st), st, s.lineno)
                st.heap.set('valR', z3.Store(st.heap.A('valR'), base.t, z3.Store(st.heap.valR(base.t), k, to_real(new.t))))
                return [st]
            if base.ty.k in ('arr1', 'arr1i', 'arr2'):
                cur = self.ev(t, st)
                new = self.arith(s.op, cur, self.ev(s.value, st), st, s.lineno)
                self.np_store(t, base, new, st, s.lineno)
                return [st]
            raise OutOfSubset('augmented subscript store on %r at line %d' % (base.ty, s.lineno))
        cur = self.ev(t, st)
        if cur.ty.k == 'list' and isinstance(s.op, ast.Add):
            # l += other : list.__iadd__ extends the SAME list object in place
            other = self.ev(s.value, st)
            if other.ty.k != 'list':
                raise OutOfSubset('list += %r at line %d' % (other.ty, s.lineno))
            et = cur.ty.a[0] if cur.ty.a[0].k != 'any' else other.ty.a[0]
            arr = 'eltR' if et.k == 'real' else 'eltI'
            n, m = st.heap.len(cur.t), st.heap.len(other.t)
            iq = fresh('iq', I)
            old_e, oth_e = st.heap.A(arr)[cur.t], st.heap.A(arr)[other.t]
            st.heap.set(arr, z3.Store(st.heap.A(arr), cur.t, z3.Lambda([iq], z3.If(iq < n, old_e[iq], oth_e[iq - n]))))
            st.heap.set('len', z3.Store(st.heap.A('len'), cur.t, n + m))
            return [st]
        if cur.ty.k == 'vec' and cur.py != 'fresh':
            raise OutOfSubset('in-place update of a numpy array that is not locally created (aliasing) at line %d' % s.lineno)
        new = self.arith(s.op, cur, self.ev(s.value, st), st, s.lineno)
        self.assign_to(t, new, st, s.lineno)
        return [st]

    def st_If(self, s, st):
        c = self.truth(self.ev(s.test, st))
        self.flush(st)
        out = []
        a = st.fork(c)
        self.narrow(s.test, a)
        self.narrow_none(s.test, a, True)
        if self.feasible(a):
            out += self.run_block(s.body, a)
        b = st.fork(z3.Not(c))
        self.narrow_none(s.test, b, False)
        if self.feasible(b):
            out += self.run_block(s.orelse, b)
        return out

    def narrow_none(self, test, st, holds):
        """on the branch where `x is not None` holds (or `x is None` fails, or a plain `x` of optional object type is true) the local x is not None"""
        name, nonnull = None, None
        if isinstance(test, ast.BoolOp) and isinstance(test.op, ast.And) and holds:
            for sub in test.values:
                self.narrow_none(sub, st, True)
            return
        if isinstance(test, ast.BoolOp) and isinstance(test.op, ast.Or) and not holds:
            for sub in test.values:
                self.narrow_none(sub, st, False)
            return
        if isinstance(test, ast.UnaryOp) and isinstance(test.op, ast.Not):
            return self.narrow_none(test.operand, st, not holds)
        if isinstance(test, ast.Compare) and len(test.ops) == 1 and isinstance(test.left, ast.Name) and isinstance(test.comparators[0], ast.Constant) \
                and test.comparators[0].value is None and isinstance(test.ops[0], (ast.Is, ast.IsNot)):
            name = test.left.id
            nonnull = holds if isinstance(test.ops[0], ast.IsNot) else not holds
        elif isinstance(test, ast.Name) and test.id in st.env and st.env[test.id].ty.k == 'opt' and (st.env[test.id].ty.a[0].k in ('ref', 'htuple')
                                                                                                       or (st.env[test.id].ty.a[0].k == 'tuple' and len(st.env[test.id].ty.a[0].a) > 0)):
            name, nonnull = test.id, (True if holds else None)          # (an optional list / dict may be empty: false without being None)
        if name in st.env and nonnull:
            v = st.env[name]
            if v.ty.k == 'opt':
                st.env[name] = V(v.ty.a[0], v.t, items=v.items)          # (the test put `not none` into the path condition)

    def narrow(self, test, st):
        """after `type(x) == C` / `isinstance(x, C)` holds, a dict key x is known to be an object of class C"""
        name = cname = None
        if (isinstance(test, ast.Compare) and len(test.ops) == 1 and isinstance(test.ops[0], ast.Eq)
                and isinstance(test.left, ast.Call) and isinstance(test.left.func, ast.Name) and test.left.func.id == 'type'
                and len(test.left.args) == 1 and isinstance(test.left.args[0], ast.Name) and isinstance(test.comparators[0], ast.Name)):
            name, cname = test.left.args[0].id, test.comparators[0].id
        if (isinstance(test, ast.Call) and isinstance(test.func, ast.Name) and test.func.id == 'isinstance' and len(test.args) == 2
                and isinstance(test.args[0], ast.Name) and isinstance(test.args[1], ast.Name)):
            name, cname = test.args[0].id, test.args[1].id
        if name in st.env and cname in CLASS_TAGS and cname not in ('tuple', 'dict', 'list', 'str'):
            v = st.env[name]
            if v.ty.k == 'key':
                st.env[name] = V(TRef(cname), oid(v.t))      # the test put is_Obj(v) and the class into the path condition
            elif v.ty.k == 'ref' and v.ty.a[0] is None:
                st.env[name] = V(TRef(cname), v.t)

    def st_Return(self, s, st):
        v = self.ev(s.value, st) if s.value is not None else VNONE
        self.flush(st)
        self.exits.append(Exit('return', st, value=v, line=s.lineno))
        return []

    def st_Raise(self, s, st):
        v = self.ev(s.exc, st)
        if v.ty.k == 'exc':
            name = v.py
        elif v.ty.k == 'py' and v.py[0] == 'class':
            name = v.py[1]
        else:
            raise OutOfSubset('raise of %r' % (v.ty,))
        self.exits.append(Exit('raise', st, exc=name, line=s.lineno))
        return []

    def st_Assert(self, s, st):
        c = self.truth(self.ev(s.test, st))
        self.flush(st)
        bad = st.fork(z3.Not(c))
        if self.feasible(bad):
            self.exits.append(Exit('raise', bad, exc='AssertionError', line=s.lineno))
        st.pc.append(c)
        return [st] if self.feasible(st) else []

    def st_Try(self, s, st):
        if s.finalbody or s.orelse:
            raise OutOfSubset('try/finally or try/else at line %d' % s.lineno)
        saved = self.exits
        self.exits = []
        normal = self.run_block(s.body, st)
        inner = self.exits
        self.exits = saved
        for ex in inner:
            if ex.kind != 'raise':
                self.exits.append(ex)
                continue
            caught = False
            if ex.exc == '*':
                raise OutOfSubset('exception of unspecified class reaches a try block at line %d' % s.lineno)
            for h in s.handlers:
                # CPython evaluates the handler expression and requires an exception class (or tuple of classes)
                hv = self.ev(h.type, ex.state) if h.type is not None else vpy(('class', 'BaseException'))
                if hv.ty.k == 'exc':
                    # an exception INSTANCE in an except clause: CPython raises TypeError when matching
                    self.exits.append(Exit('raise', ex.state, exc='TypeError', line=h.lineno))
                    caught = True
                    break
                if hv.ty.k == 'py' and hv.py[0] == 'class' and self.exc_matches(ex.exc, hv.py[1]):
                    if h.name:
                        raise OutOfSubset('except ... as name at line %d' % h.lineno)
                    normal += self.run_block(h.body, ex.state)
                    caught = True
                    break
            if not caught:
                self.exits.append(ex)
        return normal

    EXC_PARENTS = {'KeyError': 'LookupError', 'IndexError': 'LookupError', 'LookupError': 'Exception',
                   'ZeroDivisionError': 'ArithmeticError', 'ArithmeticError': 'Exception',
                   'OverflowError': 'ArithmeticError', 'NotImplementedError': 'RuntimeError',
                   'RuntimeError': 'Exception', 'Exception': 'BaseException'}

    def exc_matches(self, exc, handler):
        if handler == '*':
            return True
        if exc == '*':
            return False
        while exc is not None:
            if exc == handler:
                return True
            exc = self.EXC_PARENTS.get(exc, 'Exception' if exc not in ('Exception', 'BaseException') else
                                       ('BaseException' if exc == 'Exception' else None))
        return False

    # ---------------------------------------------------------------- loops
    def assigned_names(self, nodes):
        out = []
        for n in nodes:
            for x in ast.walk(n):
                tgts = []
                if isinstance(x, ast.Assign):
                    tgts = x.targets
                elif isinstance(x, (ast.AugAssign, ast.AnnAssign)):
                    tgts = [x.target]
                elif isinstance(x, ast.For):
                    tgts = [x.target]
                for t in tgts:
                    for y in ast.walk(t):
                        if isinstance(y, ast.Name) and isinstance(y.ctx, ast.Store) and y.id not in out:
                            out.append(y.id)
                    if isinstance(t, ast.Subscript) and isinstance(t.value, ast.Name) and t.value.id not in out:
                        self.subscript_only.add(t.value.id)   # A[i] = v rebinds a local numpy array (value semantics)
                        out.append(t.value.id)
        return out

    def directly_assigned(self, nodes):
        out = set()
        for n in nodes:
            for x in ast.walk(n):
                tgts = x.targets if isinstance(x, ast.Assign) else ([x.target] if isinstance(x, (ast.AugAssign, ast.For)) else [])
                for t in tgts:
                    for y in ([t] if isinstance(t, ast.Name) else (t.elts if isinstance(t, ast.Tuple) else [])):
                        for z in ast.walk(y):
                            if isinstance(z, ast.Name) and isinstance(z.ctx, ast.Store):
                                out.add(z.id)
        return out

    def loop_iter(self, s, st):
        """describe the iteration: returns dict(kind=..., ...)"""
        it = self.ev(s.iter, st)
        k = it.ty.k
        if k in ('dictkeys', 'dictitems', 'dictvalues', 'dict'):
            vt = it.ty.a[0] if k != 'dict' else it.ty.a[0]
            return dict(kind='dict', mode={'dictkeys': 'keys', 'dict': 'keys', 'dictitems': 'items', 'dictvalues': 'values'}[k],
                        d=it.t, vt=vt)
        if k == 'range':
            a = it.items
            if len(a) == 1:
                lo, hi = z3.IntVal(0), a[0].t
            elif len(a) == 2:
                lo, hi = a[0].t, a[1].t
            else:
                raise OutOfSubset('range with step at line %d' % s.lineno)
            return dict(kind='range', lo=lo, hi=hi)
        if k == 'objmat':
            return dict(kind='range', lo=z3.IntVal(0), hi=st.heap.fld(None, 'shape0', it.t), elem=lambda i, m=it.t: V(T('objrow'), m, items=[i]))
        if k == 'objrow':
            return dict(kind='range', lo=z3.IntVal(0), hi=st.heap.fld(None, 'shape1', it.t),
                        elem=lambda j, m=it.t, i=it.items[0]: V(TRef('Expression'), OBJMAT_ENTRY(m, i, j)))
        if k == 'list':
            return dict(kind='list', l=it, enum=False)
        if k == 'enumerate' and it.items[0].ty.k == 'list':
            return dict(kind='list', l=it.items[0], enum=True)
        if k == 'zip' and all(x.ty.k == 'list' for x in it.items):
            return dict(kind='zip', ls=it.items)
        raise OutOfSubset('iteration over %r at line %d' % (it.ty, s.lineno))

    def st_For(self, s, st):
        if s.orelse:
            raise OutOfSubset('for/else at line %d' % s.lineno)
        if isinstance(s.iter, ast.Name) and s.iter.id in st.env and st.env[s.iter.id].ty.k in ('tuple', 'htuple'):
            # iteration over a tuple of known length: unrolled (no invariant needed)
            tv = st.env[s.iter.id]
            items = tv.items if tv.ty.k == 'tuple' else [self.htuple_item(st.heap, t, j, tv.t) for j, t in enumerate(tv.ty.a)]
            states = [st]
            for it in items:
                nxt = []
                for x in states:
                    self.assign_to(s.target, it, x, s.lineno)
                    nxt += self.run_block(s.body, x)
                states = nxt
            return states
        n = self.loop_ids[id(s)]
        spec = self.c.loops.get(n)
        if spec is None:
            raise OutOfSubset('loop %d (line %d) has no invariant in the side-car' % (n, s.lineno))
        it = self.loop_iter(s, st)
        self.flush(st)
        entry = st
        self.subscript_only = set()
        modified = [m for m in self.assigned_names(s.body) if m in entry.env or True]
        direct = self.directly_assigned(s.body)
        targets = self.assigned_names([ast.Expr(value=s.target)]) or [x.id for x in ast.walk(s.target) if isinstance(x, ast.Name)]

        def ctx(state, pos):
            return LoopCtx(self, entry, state, it, pos, s)

        def _names(lst):
            # a local may be given by name or by its ordinal of first assignment (stable under renaming)
            out = []
            for n_ in lst:
                if isinstance(n_, int):
                    n_ = self.local_order[n_] if n_ < len(self.local_order) else None
                if n_ is not None and n_ not in out:
                    out.append(n_)
            return out
        for name in _names(spec.get('real_vars', [])):
            if name in entry.env and entry.env[name].ty.k == 'int':
                entry.env[name] = vreal(to_real(entry.env[name].t))
        for name in _names(spec.get('vec_vars', [])):
            v0 = entry.env.get(name)
            if v0 is not None and v0.ty.k == 'int' and z3.is_int_value(v0.t) and v0.t.as_long() == 0:
                entry.env[name] = V(TVec, VZ, py='fresh')       # python 0 as the neutral element of vector addition
        # ---- init
        pos0 = self.loop_pos_initial(it)
        for cl in spec['inv'](ctx(entry, pos0)):
            lab, f = cl[0], cl[1]
            self.emit('loop%d.init[%s]' % (n, lab), entry, f, s.lineno, tag='aux')

        # ---- discover which heap arrays an arbitrary iteration may modify (dry run with everything havocked)
        modset, modglobs, alloc_mod = self.discover_mods(s, entry, it, modified, n)

        # ---- arbitrary iteration
        def havocked(tagname):
            h = entry.fork()
            for m in modified:
                if m in entry.env and m in self.subscript_only and m not in direct and entry.env[m].ty.k not in ('arr1', 'arr1i', 'arr2'):
                    continue          # d[k] = v on a dict / list mutates the heap object, the local keeps its identity
                if m in entry.env and m not in targets:
                    h.env[m] = self.havoc_value(entry.env[m], m)
                elif m not in targets:
                    h.env.pop(m, None)
            if alloc_mod:
                na = fresh('alloc', I)
                h.pc.append(na >= entry.heap.alloc)
                h.heap.alloc = na
            lm = spec.get('mods', lambda L: {})(ctx(h, None))
            for name in modset:
                old = entry.heap.A(name)
                new = fresh(name, old.sort())
                h.heap.set(name, new)
                r = fresh('r', I)
                pred = lm.get(name)
                keep = z3.And(r >= 0, r < entry.heap.alloc) if pred is None else z3.And(r >= 0, r < entry.heap.alloc, z3.Not(pred(r)))
                h.pc.append(z3.ForAll([r], z3.Implies(keep, new[r] == old[r]), patterns=[new[r]]))
            for gname in modglobs:
                h.heap.glob[gname] = fresh_value(self.global_types[gname], gname)
            return h, lm

        h, lm = havocked('it')
        pos = self.loop_pos_symbolic(it, h, entry)
        h.pc += [self.label(cl[1], 'inv.' + cl[0]) for cl in spec['inv'](ctx(h, pos))]
        h.pc += pos['assume']
        if 'lemmas' in spec:
            h.pc += spec['lemmas'](ctx(h, pos))       # definitional instances of spec functions (ghost)
        body_st = h.fork()
        body_st.ghost[n] = pos
        self.bind_targets(s, body_st, it, pos, entry)
        saved_exits = self.exits
        self.exits = []
        ends = self.run_block(s.body, body_st)
        body_exits = self.exits
        ends += [e.state for e in body_exits if e.kind == 'continue']      # `continue` ends the iteration
        body_exits = [e for e in body_exits if e.kind != 'continue']
        self.exits = saved_exits + body_exits      # return/raise inside the loop body are real exits
        pos_next = self.loop_pos_next(it, pos)
        for bi, e in enumerate(ends):
            # `cuts`: intermediate assertions about the state at the end of the body (position = the iteration just executed); each one is PROVED
            # here and only then available to the obligations that follow (assert-then-assume: a proof-structuring device, not an assumption)
            cctx = ctx(e, pos)
            cctx.H_start = h.heap          # heap at the start of this iteration (cuts may relate the end of the body to it)
            for cl in (spec['cuts'](cctx) if 'cuts' in spec else []):
                lab, f, uses = (tuple(cl) + (None,))[:3]
                self.emit('loop%d.cut[path%d][%s]' % (n, bi, lab), e, f, s.lineno, tag='aux', uses=uses)
                e.pc.append(self.label(f, 'cut.' + lab))
            for cl in spec['inv'](ctx(e, pos_next)):
                lab, f, uses = (tuple(cl) + (None,))[:3]
                self.emit('loop%d.preserve[path%d][%s]' % (n, bi, lab), e, f, s.lineno, tag='aux', uses=uses)
            # automatic frame invariant: objects older than the loop and outside `mods` are untouched
            for name in modset:
                if name not in e.heap.arr:
                    continue
                cur, old = e.heap.A(name), entry.heap.A(name)
                if cur.eq(h.heap.A(name)):
                    continue
                r = fresh('r', I)
                pred = lm.get(name)
                keep = z3.And(r >= 0, r < entry.heap.alloc) if pred is None else z3.And(r >= 0, r < entry.heap.alloc, z3.Not(pred(r)))
                self.emit('loop%d.frame[path%d][%s]' % (n, bi, name), e, z3.ForAll([r], z3.Implies(keep, cur[r] == old[r])),
                          s.lineno, tag='aux')
        # ---- exit
        x, _ = havocked('exit')
        posx = self.loop_pos_final(it, x, entry)
        x.pc += [self.label(cl[1], 'inv.' + cl[0]) for cl in spec['inv'](ctx(x, posx))]
        x.pc += posx['assume']
        for t in targets:
            x.env.pop(t, None)      # loop targets are not used after the loops of the subset (checked: OutOfSubset on use)
        return [x] if self.feasible(x) else []

    def mod_globals_in(self, s):
        out = []
        for x in ast.walk(s):
            if isinstance(x, (ast.Assign, ast.AugAssign)):
                for t in (x.targets if isinstance(x, ast.Assign) else [x.target]):
                    if isinstance(t, ast.Attribute) and isinstance(t.value, ast.Name) and t.value.id in CLASS_TAGS:
                        g = '%s.%s' % (t.value.id, t.attr)
                        if g in self.global_types and g not in out:
                            out.append(g)
        # callee effects on globals inside loops: conservatively all globals any contract may modify
        for g in self.reg.all_mod_globals():
            if g in self.global_types and g not in out:
                out.append(g)
        return out

    def havoc_value(self, v, name):
        if v.ty.k in ('tuple', 'py', 'none', 'typeof', 'exc', 'set', 'range'):
            raise OutOfSubset('loop modifies variable %s of type %r' % (name, v.ty))
        if v.ty.k in ('arr1', 'arr1i', 'arr2'):
            srt = {'arr1': IA_R, 'arr1i': IA_I, 'arr2': A2}[v.ty.k]
            return V(v.ty, fresh(name, srt), items=v.items, py=v.py)
        nv = fresh_value(v.ty, name)
        nv.py = v.py
        return nv

    def discover_mods(self, s, entry, it, modified, n):
        h = entry.fork()
        names = set(entry.heap.arr) | set(BASE_ARRAYS)
        sym = {}
        for name in sorted(names):
            old = entry.heap.A(name)
            sym[name] = fresh(name + '_any', old.sort())
            h.heap.set(name, sym[name])
        alloc_any = fresh('alloc', I)
        h.heap.alloc = alloc_any
        h0glob = dict(h.heap.glob)
        direct = self.directly_assigned(s.body)
        for m in modified:
            if m in entry.env:
                if m in self.subscript_only and m not in direct and entry.env[m].ty.k not in ('arr1', 'arr1i', 'arr2'):
                    continue
                h.env[m] = self.havoc_value(entry.env[m], m)
        pos = self.loop_pos_symbolic(it, h, entry)
        h.ghost[n] = pos
        saved = (self.exits, self.pending_exits, self.obls, self.loop_ord, self.discovery, self.prune)
        self.exits, self.pending_exits, self.discovery, self.prune = [], [], True, False
        try:
            self.bind_targets(s, h, it, pos, entry)
            ends = self.run_block(s.body, h)
            all_states = ends + [e.state for e in self.exits]
        finally:
            self.exits, self.pending_exits, self.obls, self.loop_ord, self.discovery, self.prune = saved
        mod, modg = set(), set()
        for e in all_states:
            for name, arr in e.heap.arr.items():
                if name not in sym or not arr.eq(sym[name]):
                    mod.add(name)
            for gname, gv in e.heap.glob.items():
                if gv.t is not None and not gv.t.eq(h0glob[gname].t):
                    modg.add(gname)
        alloc_mod = any(not e.heap.alloc.eq(alloc_any) for e in all_states)
        return sorted(mod), sorted(modg), alloc_mod

    # positions: dict with keys depending on iteration kind
    def loop_pos_initial(self, it):
        if it['kind'] == 'dict':
            return dict(seen=z3.K(Key, False), assume=[])
        if it['kind'] == 'range':
            return dict(i=it['lo'], assume=[])
        return dict(i=z3.IntVal(0), assume=[])

    def loop_pos_symbolic(self, it, h, entry):
        if it['kind'] == 'dict':
            seen = fresh('seen', KB)
            key = fresh('key', Key)
            d = it['d']
            kq = fresh('k', Key)
            return dict(seen=seen, key=key, assume=[z3.ForAll([kq], z3.Implies(seen[kq], entry.heap.has(d, kq))),
                                                    entry.heap.has(d, key), z3.Not(seen[key])])
        i = fresh('i', I)
        if it['kind'] == 'range':
            return dict(i=i, assume=[i >= it['lo'], i < it['hi']])
        if it['kind'] == 'list':
            return dict(i=i, assume=[i >= 0, i < entry.heap.len(it['l'].t)])
        if it['kind'] == 'zip':
            return dict(i=i, assume=[i >= 0] + [i < entry.heap.len(l.t) for l in it['ls']])

    def loop_pos_next(self, it, pos):
        if it['kind'] == 'dict':
            return dict(seen=z3.Store(pos['seen'], pos['key'], True), assume=[])
        return dict(i=pos['i'] + 1, assume=[])

    def loop_pos_final(self, it, x, entry):
        if it['kind'] == 'dict':
            seen = fresh('seen', KB)
            kq = fresh('k', Key)
            return dict(seen=seen, assume=[z3.ForAll([kq], seen[kq] == entry.heap.has(it['d'], kq)), seen == entry.heap.dom(it['d'])])
        i = fresh('i', I)
        if it['kind'] == 'range':
            return dict(i=i, assume=[i == z3.If(it['hi'] >= it['lo'], it['hi'], it['lo'])])
        if it['kind'] == 'list':
            return dict(i=i, assume=[i == entry.heap.len(it['l'].t)])
        if it['kind'] == 'zip':
            lens = [entry.heap.len(l.t) for l in it['ls']]
            return dict(i=i, assume=[z3.Or(*[i == n for n in lens])] + [i <= n for n in lens])

    def bind_targets(self, s, st, it, pos, entry):
        line = s.lineno
        if it['kind'] == 'dict':
            key = V(TKey, pos['key'])
            vt = it['vt']
            # NOTE: the container is read in the *entry* heap for the key set; values are read in the current
            # heap (a loop that mutates the dict it iterates is outside the subset: checked via frame below)
            val = vreal(st.heap.get(it['d'], pos['key'])) if vt.k == 'real' else V(vt, st.heap.geti(it['d'], pos['key']))
            if it['mode'] == 'keys':
                self.assign_to(s.target, key, st, line)
            elif it['mode'] == 'values':
                self.assign_to(s.target, val, st, line)
            else:
                self.assign_to(s.target, V(TTuple(TKey, val.ty), items=[key, val]), st, line)
            return
        if it['kind'] == 'range':
            self.assign_to(s.target, it['elem'](pos['i']) if 'elem' in it else vint(pos['i']), st, line)
            return
        if it['kind'] == 'list':
            el = self.list_elem(st, it['l'], pos['i'])
            if it['enum']:
                self.assign_to(s.target, V(TTuple(TInt, el.ty), items=[vint(pos['i']), el]), st, line)
            else:
                self.assign_to(s.target, el, st, line)
            return
        if it['kind'] == 'zip':
            els = [self.list_elem(st, l, pos['i']) for l in it['ls']]
            self.assign_to(s.target, V(TTuple(*[e.ty for e in els]), items=els), st, line)

    # ---------------------------------------------------------------- function-level driver
    def verify(self, variant_types):
        c = self.c
        self.exits, self.pending_exits = [], []
        H0 = Heap.symbolic('pre', self.global_types)
        st = State(H0.copy())
        st.pc.append(H0.alloc >= 0)
        args = {}
        for (pname, pty) in c.params:
            ty = variant_types.get(pname, pty)
            v = fresh_value(ty, pname)
            args[pname] = v
            st.env[pname] = v
            st.pc += self.wf_param(H0, v)
        # parameters of the real function the contract does not know (added since): with a constant default they are optional for every caller, so the
        # contract must hold for EVERY value of the default's type (an unconstrained symbolic value); anything else is out of the subset
        known = {pn for pn, _ in c.params}
        fa = self.fn.args
        pos = fa.posonlyargs + fa.args
        # callers are checked against the contract with POSITIONAL arguments bound in the contract's parameter order: that order must be the real one
        real_order = [a.arg for a in pos if a.arg in known]
        want_order = [pn for pn, _ in c.params if pn in {a.arg for a in pos}]
        if real_order != want_order:
            raise OutOfSubset('the positional parameters of the real function are %s, the contract binds call sites in the order %s' % (real_order, want_order))
        extra = [(a, d) for a, d in zip(pos[len(pos) - len(fa.defaults):], fa.defaults)] + [(a, d) for a, d in zip(fa.kwonlyargs, fa.kw_defaults) if d is not None]
        for a, d in extra:
            if a.arg in known:
                continue
            ty = extra_param_type(d)
            if ty is not None:          # otherwise: a free name if the body uses it (out of the subset)
                st.env[a.arg] = fresh_value(ty, a.arg)
        for gv in H0.glob.values():
            st.pc += self.wf_param(H0, gv)
        Heap.MATERIALIZED = set()
        for lab, f in c.requires(H0, args):
            st.pc.append(self.label(f, 'req.' + lab))
        st.pc += c.type_invariants(H0)
        st.pc += c.axioms()
        st.pc += c.defs(H0, args)
        self.args, self.H0 = args, H0
        pre_state = st.fork()
        try:
            ends = self.run_block(self.fn.body, st)
        except RecursionError:
            raise OutOfSubset('recursion limit')
        for e in ends:
            self.exits.append(Exit('return', e, value=VNONE, line=self.fn.end_lineno))
        # ---- vacuity
        s = z3.Solver()
        s.set('timeout', 5000)
        s.add(*[f for f in pre_state.pc if not has_quantifier(f)])
        self.pre_sat = str(s.check())     # quantifier-free part; the run-time harness supplies concrete witnesses
        n_norm = 0
        for ex in self.exits:
            if ex.kind == 'continue':
                raise OutOfSubset('continue outside a loop')
            if ex.kind == 'return':
                n_norm += 1
                self.check_normal_exit(ex, args, H0)
            else:
                self.check_raise_exit(ex, args, H0)
        self.n_normal_exits = n_norm
        # heap typing axioms for exactly the pre-state field arrays this function's execution touched
        used = {n for (tg, n) in Heap.MATERIALIZED if tg == 'pre'}
        glob_ax = heap_ref_axioms(H0, only=used)
        for ob in self.obls:
            ob.assumptions = glob_ax + ob.assumptions
        self.canaries = [Obligation('%s/canary.normal_exit_reachable#%d' % (self.qualname, i), ex.state.pc, z3.BoolVal(False), 'canary', ex.line)
                         for i, ex in enumerate(x for x in self.exits if x.kind == 'return')]
        return self.obls

    def wf_param(self, H, v):
        out = []
        if v.ty.k in ('ref', 'dict', 'list', 'htuple'):
            out += [v.t >= 0, v.t < H.alloc]
            if v.ty.k == 'ref' and v.ty.a[0]:
                out.append(isinstance_f(H.A('cls'), v.t, v.ty.a[0]))
            if v.ty.k == 'dict':
                out.append(H.cls(v.t) == tag('dict'))
            if v.ty.k == 'list':
                out.append(H.cls(v.t) == tag('list'))
                out.append(H.len(v.t) >= 0)
        if v.ty.k == 'opt':
            inner = V(v.ty.a[0], v.t)
            out += [z3.Implies(z3.Not(v.none), f) for f in self.wf_param(H, inner)]
        if v.ty.k == 'tuple':
            for it in v.items:
                out += self.wf_param(H, it)
        return out

    def check_normal_exit(self, ex, args, H0):
        c, st = self.c, ex.state
        res = self.coerce_result(ex.value, c.returns_for(args), st, ex.line)
        for lab, f, tg in c.ensures(H0, st.heap, args, res):
            self.emit('post[%s]@%d' % (lab, ex.line), st, f, ex.line, tag=tg)
        # a normal exit while an exceptional post-condition says "raise"
        for exc, when in c.raises:
            self.emit('raises.must[%s]@%d' % (exc, ex.line), st, z3.Not(when(H0, args)), ex.line)
        if not c.allocates:
            self.emit('no_allocation@%d' % ex.line, st, st.heap.alloc == H0.alloc, ex.line, tag='aux')
        # frame
        mods = c.modifies(H0, args)
        for name, cur in sorted(st.heap.arr.items()):
            old = H0.A(name, cur.sort())
            if cur.eq(old):
                continue
            r = fresh('r', I)
            pred = mods.get(name)
            keep = z3.And(r >= 0, r < H0.alloc) if pred is None else z3.And(r >= 0, r < H0.alloc, z3.Not(pred(r)))
            self.emit('frame[%s]@%d' % (name, ex.line), st, z3.ForAll([r], z3.Implies(keep, cur[r] == old[r])), ex.line)
        for gname, gv in st.heap.glob.items():
            if gname in c.mod_globals:
                continue
            if gv.t is not None and not gv.t.eq(H0.glob[gname].t):
                self.emit('frame[global %s]@%d' % (gname, ex.line), st, gv.t == H0.glob[gname].t, ex.line)

    def coerce_result(self, v, ty, st, line):
        if ty is None or ty.k == 'none':
            return v
        if v.ty == ty:
            return v
        if ty.k == 'real' and v.ty.k == 'int':
            return vreal(to_real(v.t))
        if ty.k == 'ref' and v.ty.k == 'ref':
            return v
        if ty.k == 'tuple' and v.ty.k == 'tuple' and len(ty.a) == len(v.items):
            return V(ty, items=[self.coerce_result(i, t, st, line) for i, t in zip(v.items, ty.a)])
        if ty.k == 'opt' and ty.a[0].k == 'tuple':
            if v.ty.k == 'none':
                return V(ty, items=fresh_value(ty.a[0], 'none').items, none=z3.BoolVal(True))
            if v.ty.k == 'tuple' and len(v.items) == len(ty.a[0].a):
                inner = self.coerce_result(v, ty.a[0], st, line)
                return V(ty, items=inner.items, none=z3.BoolVal(False))
        if ty.k == 'opt' and v.ty.k == 'none':
            return V(ty, fresh('none', smt_sort(ty.a[0])), none=z3.BoolVal(True))
        if ty.k == 'opt' and v.ty == ty.a[0]:
            return V(ty, v.t, none=z3.BoolVal(False))
        if ty.k == 'dict' and v.ty.k == 'dict':
            return v
        if ty.k == 'list' and v.ty.k == 'list':
            return v
        if v.ty.k == 'opt' and v.ty.a[0] == ty:
            self.emit('post[result_not_none]@%d' % line, st, z3.Not(v.none), line)
            return V(ty, v.t)
        raise OutOfSubset('returned %r where the contract declares %r (line %d)' % (v.ty, ty, line))

    def check_raise_exit(self, ex, args, H0):
        c, st = self.c, ex.state
        allowed = [when(H0, args) for exc, when in c.raises if self.exc_matches(ex.exc, exc)]
        goal = z3.Or(*allowed) if allowed else z3.BoolVal(False)
        self.emit('raises.only[%s]@%d' % (ex.exc, ex.line), st, goal, ex.line)


class LoopCtx:
    """what a loop invariant may talk about"""
    def __init__(self, eng, entry, state, it, pos, node):
        self.eng, self.entry, self.st, self.it, self.pos, self.node = eng, entry, state, it, pos, node
        self.H, self.H_entry, self.H0 = state.heap, entry.heap, eng.H0
        self.args = eng.args

    def var(self, name, ord=None):
        """a local by name; if the name does not exist, the ord-th local in order of first assignment
        (keeps proofs stable under renaming of locals)"""
        if name in self.st.env:
            return self.st.env[name]
        if ord is not None and ord < len(self.eng.local_order) and self.eng.local_order[ord] in self.st.env:
            return self.st.env[self.eng.local_order[ord]]
        raise OutOfSubset('invariant refers to unknown local %s' % name)

    def outer(self, n):
        return self.st.ghost[n]

    @property
    def seen(self): return self.pos['seen']
    @property
    def i(self): return self.pos['i']
    @property
    def container(self): return self.it.get('d')

    def ret(self):
        """the variable the function returns (single `return name`)"""
        rets = [n for n in ast.walk(self.eng.fn) if isinstance(n, ast.Return)]
        if len(rets) == 1 and isinstance(rets[0].value, ast.Name):
            return self.st.env[rets[0].value.id]
        raise OutOfSubset('RET role: function has no single `return <name>`')
