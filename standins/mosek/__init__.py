"""Recording / translating STAND-IN for the subset of the MOSEK Optimizer API that PEPit's MosekWrapper calls.

NOT MOSEK.  It exists only (a) to replay counter-examples of MosekWrapper obligations on the real wrapper code and (b) for the
bounded differential check cvxpy path vs MOSEK path (C11).  It records every call, checks the documented preconditions of each
call (index ranges, lower-triangular triplets without duplicate positions, matching dimensions), and `optimize()` solves the
recorded task by translating it to cvxpy.  Conventions built into it (ASSUMED, cannot be validated without MOSEK):
  problem   max/min  c'x + sum_j <Cbar_j, Xbar_j>   s.t.  l_i <= a_i'x + sum_j <Abar_ij, Xbar_j> <= u_i ,  Xbar_j PSD
  getbarxj / getbarsj : lower triangle, columns stored sequentially
  for a MAXIMISATION problem:  y_i >= 0 on an active upper bound,  barS_j is NEGATIVE semidefinite (the wrapper negates it).
"""
import numpy as np


class Error(Exception):
    pass


class _E:
    def __init__(self, n): self.n = n
    def __repr__(self): return self.n


class _NS:
    def __init__(self, *names):
        for n in names:
            setattr(self, n, _E(n))


boundkey = _NS('fr', 'up', 'lo', 'fx', 'ra')
soltype = _NS('itr', 'bas')
objsense = _NS('maximize', 'minimize')
feature = _NS('pton', 'pts')
streamtype = _NS('log', 'msg')
prosta = _NS('prim_and_dual_feas', 'prim_infeas', 'dual_infeas', 'unknown')
TRACE = []
TASKS = []


def _ints(a, what):
    out = []
    for x in list(a):
        if isinstance(x, (bool, float)) or (hasattr(x, 'dtype') and not np.issubdtype(np.asarray(x).dtype, np.integer)):
            raise Error('%s: index %r is not an integer' % (what, x))
        out.append(int(x))
    return out


class Task:
    def __init__(self):
        self.bardim = []
        self.numvar = 0
        self.numcon = 0
        self.symmats = []
        self.barA = {}         # (i, j) -> symmetric matrix
        self.A = {}            # (i, j) -> value
        self.bounds = {}       # i -> (key, l, u)
        self.c = {}
        self.barC = {}
        self.sense = None
        self.sol = None
        TASKS.append(self)

    def _r(self, *a):
        TRACE.append(a)

    def set_Stream(self, *a): pass
    def solutionsummary(self, *a): pass

    def appendbarvars(self, dims):
        for d in dims:
            self.bardim.append(int(d))
        self._r('appendbarvars', [int(d) for d in dims], 'new index', len(self.bardim) - 1)

    def appendvars(self, n):
        self.numvar += int(n)
        self._r('appendvars', int(n))

    def putvarbound(self, j, bk, l, u):
        if not 0 <= j < self.numvar:
            raise Error('putvarbound: variable index %d out of range' % j)

    def getnumcon(self): return self.numcon
    def getmaxnumvar(self): return self.numvar
    def getnumbarvar(self): return len(self.bardim)

    def appendcons(self, n):
        self.numcon += int(n)

    def appendsparsesymmat(self, dim, subi, subj, val):
        subi, subj = _ints(subi, 'appendsparsesymmat'), _ints(subj, 'appendsparsesymmat')
        val = [float(v) for v in list(val)]
        if not (len(subi) == len(subj) == len(val)):
            raise Error('appendsparsesymmat: triplet arrays of different lengths')
        M = np.zeros((int(dim), int(dim)))
        seen = set()
        for i, j, v in zip(subi, subj, val):
            if not (0 <= j <= i < dim):
                raise Error('appendsparsesymmat: entry (%d,%d) is not in the lower triangle of a %dx%d matrix' % (i, j, dim, dim))
            if (i, j) in seen:
                raise Error('appendsparsesymmat: duplicate position (%d,%d)' % (i, j))
            seen.add((i, j))
            M[i, j] = v
            M[j, i] = v
        self.symmats.append(M)
        return len(self.symmats) - 1

    def _combo(self, sub, weights, dim, what):
        M = np.zeros((dim, dim))
        for s, w in zip(list(sub), list(weights)):
            if not 0 <= s < len(self.symmats):
                raise Error('%s: symmetric matrix index %d out of range' % (what, s))
            if self.symmats[s].shape[0] != dim:
                raise Error('%s: matrix of dimension %d put on a bar variable of dimension %d' % (what, self.symmats[s].shape[0], dim))
            M = M + float(w) * self.symmats[s]
        return M

    def putbaraij(self, i, j, sub, weights):
        if not 0 <= i < self.numcon:
            raise Error('putbaraij: constraint index %d out of range (numcon=%d)' % (i, self.numcon))
        if not 0 <= j < len(self.bardim):
            raise Error('putbaraij: bar variable index %d out of range (numbarvar=%d)' % (j, len(self.bardim)))
        self.barA[(int(i), int(j))] = self._combo(sub, weights, self.bardim[j], 'putbaraij')
        self._r('putbaraij', 'row', int(i), 'barvar', int(j))

    def putaijlist(self, subi, subj, valij):
        subi, subj = _ints(subi, 'putaijlist'), _ints(subj, 'putaijlist')
        for i, j, v in zip(subi, subj, list(valij)):
            if not (0 <= i < self.numcon and 0 <= j < self.numvar):
                raise Error('putaijlist: entry (%d,%d) out of range' % (i, j))
            self.A[(i, j)] = float(v)
        self._r('putaijlist', subi, subj)

    def putconbound(self, i, bk, l, u):
        if not 0 <= i < self.numcon:
            raise Error('putconbound: constraint index %d out of range' % i)
        self.bounds[int(i)] = (bk.n, float(l), float(u))
        self._r('putconbound', int(i), bk.n, float(l), float(u))

    def putclist(self, subj, val):
        subj = _ints(subj, 'putclist')
        for j, v in zip(subj, list(val)):
            if not 0 <= j < self.numvar:
                raise Error('putclist: variable index %d out of range' % j)
            self.c[j] = float(v)
        self._r('putclist', subj, [float(v) for v in list(val)])

    def putbarcj(self, j, sub, weights):
        if not 0 <= j < len(self.bardim):
            raise Error('putbarcj: bar variable index %d out of range' % j)
        self.barC[int(j)] = self._combo(sub, weights, self.bardim[j], 'putbarcj')
        self._r('putbarcj', int(j))

    def putobjsense(self, sense):
        self.sense = sense.n
        self._r('putobjsense', sense.n)

    # ------------------------------------------------------------------ solving the recorded task (through cvxpy)
    def optimize(self, **kw):
        import cvxpy as cp
        self._r('optimize')
        x = cp.Variable(self.numvar) if self.numvar else None
        X = [cp.Variable((d, d), symmetric=True) for d in self.bardim]
        cons, rows = [], {}
        for j, Xj in enumerate(X):
            cons.append(Xj >> 0)
        for i in range(self.numcon):
            e = 0
            for (ii, j), v in self.A.items():
                if ii == i:
                    e = e + v * x[j]
            for (ii, j), M in self.barA.items():
                if ii == i:
                    e = e + cp.sum(cp.multiply(M, X[j]))
            bk, l, u = self.bounds.get(i, ('fr', 0.0, 0.0))
            if isinstance(e, (int, float)):
                e = cp.Constant(0) + e
            if bk == 'up':
                rows[i] = (e <= u)
            elif bk == 'lo':
                rows[i] = (e >= l)
            elif bk == 'fx':
                rows[i] = (e == u)
            elif bk == 'ra':
                rows[i] = (e <= u)
                cons.append(e >= l)
            else:
                rows[i] = None
            if rows[i] is not None:
                cons.append(rows[i])
        obj = 0
        for j, v in self.c.items():
            obj = obj + v * x[j]
        for j, M in self.barC.items():
            obj = obj + cp.sum(cp.multiply(M, X[j]))
        if isinstance(obj, (int, float)):
            obj = cp.Constant(0) + obj
        prob = cp.Problem(cp.Maximize(obj) if self.sense == 'maximize' else cp.Minimize(obj), cons)
        prob.solve(solver='CLARABEL')
        self.status = prob.status
        ok = prob.status in ('optimal', 'optimal_inaccurate')
        sgn = 1.0 if self.sense == 'maximize' else -1.0
        if ok:
            y = np.zeros(self.numcon)
            for i, r in rows.items():
                if r is not None and r.dual_value is not None:
                    dv = float(np.asarray(r.dual_value))
                    bk = self.bounds[i][0]
                    y[i] = sgn * (dv if bk in ('up', 'fx', 'ra') else -dv)
            self.sol = dict(xx=np.array(x.value, dtype=float) if x is not None else np.zeros(0),
                            barx=[np.array(Xj.value) for Xj in X], y=y,
                            bars=[-sgn * np.array(cons[j].dual_value) for j in range(len(X))])
        else:
            # MOSEK still returns numbers (a certificate / last iterate) when the problem is not solved: mimic with arbitrary ones
            self.sol = dict(xx=np.full(self.numvar, 123.0), barx=[np.eye(d) for d in self.bardim], y=np.zeros(self.numcon),
                            bars=[-np.eye(d) for d in self.bardim])

    @staticmethod
    def _tril(M):
        d = M.shape[0]
        return np.array([M[j + i, j] for j in range(d) for i in range(d - j)])

    def getbarxj(self, st, j): return self._tril(self.sol['barx'][j])
    def getbarsj(self, st, j): return self._tril(self.sol['bars'][j])
    def getxx(self, st): return self.sol['xx'].copy()
    def gety(self, st): return self.sol['y'].copy()

    def getprosta(self, st):
        return {'optimal': prosta.prim_and_dual_feas, 'optimal_inaccurate': prosta.prim_and_dual_feas, 'infeasible': prosta.prim_infeas,
                'unbounded': prosta.dual_infeas}.get(getattr(self, 'status', ''), prosta.unknown)


class Env:
    def Task(self): return Task()
    def checkoutlicense(self, f): pass
    def expirylicenses(self): return 1000
