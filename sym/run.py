"""Components built on contract-level execution: class formulas (C04 b-e), member families (C03), steps (C08)."""
import multiprocessing as mp
import os
import random
import sys
import time
import traceback

JOBS = int(os.environ.get('VERIF_JOBS', '16'))


# ------------------------------------------------------------------------------------------ C04
def _c04_task(name):
    try:
        from . import classcheck
        obs, _ = classcheck.check_all_classes([name])
        return [(o.oid, o.verdict, o.seconds, o.detail, o.model, o.signature) for o in obs]
    except Exception as e:
        return [('C04/%s/execution' % name, 'error', 0.0, '%s\n%s' % (e, traceback.format_exc()[-800:]), None, {})]


def functions_of_classes():
    """extraction reports of the real methods executed at contract level (add_class_constraints and every closure of the 24 classes)"""
    import ast
    from pyvc import front
    from .classes import SPECS
    out = []
    for rp in front.all_repo_py():
        src, tree = front.parse_file(rp)
        for n in tree.body:
            if isinstance(n, ast.ClassDef) and n.name in SPECS:
                for m in n.body:
                    if isinstance(m, ast.FunctionDef) and (m.name == 'add_class_constraints' or m.name.startswith('set_')) and m.name not in ('set_name',):
                        out.append(front.extraction_report(rp, '%s.%s' % (n.name, m.name)))
    return out


def functions_of_steps():
    from pyvc import front
    names = ['proximal_step', 'inexact_gradient_step', 'exact_linesearch_step', 'inexact_proximal_step', 'epsilon_subgradient_step',
             'bregman_gradient_step', 'bregman_proximal_step', 'linear_optimization_step']
    return [front.extraction_report('PEPit/primitive_steps/%s.py' % n, n) for n in names]


def class_formulas(run, soundness_only=False, only=None, prefix=None):
    """soundness_only (C03): keep 'generated formula == documented formula', drop the completeness obligations (C04)"""
    from .classes import SPECS
    names = [n for n in SPECS if only is None or n in only]
    ctx = mp.get_context('fork')
    with ctx.Pool(min(JOBS, len(names))) as pool:
        res = pool.map(_c04_task, names, chunksize=1)
    n_cls = 0
    for name, obs in zip(names, res):
        n_cls += 1
        for (oid, verdict, sec, detail, model, sig) in obs:
            if soundness_only and ('/spec[' in oid or 'symmetry_flag' in oid or 'symmetric_condition' in oid):
                continue
            if soundness_only:
                oid = oid.replace('C04/', 'C03/', 1)
            if prefix:
                oid = oid.replace('C04/', prefix + '/', 1)
            if verdict == 'error':
                run.obligations += 1
                run.undecide(oid, 'contract-level execution failed: ' + detail[:400])
                continue
            run.count(oid, verdict == 'unsat', 'z3 (QF_NRA) on contract-level execution', sec, 'property', verdict,
                      sample={'obligation': oid, 'verdict': 'discharged' if verdict == 'unsat' else verdict, 'detail': detail[:160]})
            if verdict == 'unsat':
                continue
            if verdict == 'unknown':
                run.undecide(oid, detail[:300])
                continue
            rep = replay_formula(sig, model)
            run.violation(oid, detail, replay=dict(kind='class-formula', model=model, detail=detail, **rep), signature=sig,
                          reproduced=rep.get('reproduced', False))
    run.components.append({'component': 'contract-level execution of add_class_constraints / closures', 'classes': n_cls})
    have = {(f['file'], f['function']) for f in run.functions}
    run.functions += [f for f in functions_of_classes() if (f['file'], f['function']) not in have]
    run.trust('contract stand-ins (sym/standins.py) transcribe the operator contracts proved under C06; cross-checked numerically against the real operators',
              'documented conditions transcribed by hand in sym/classes.py from the class doc-strings and cited theorems')


def replay_formula(sig, model):
    """concrete demonstration on the REAL classes: numeric parameters, real Points / Expressions, real closure"""
    try:
        return _replay_formula(sig, model)
    except Exception as e:
        return {'reproduced': False, 'replay_error': '%s: %s' % (type(e).__name__, e)}


DEFAULT_PARAMS = {'mu': 0.5, 'L': 2.0, 'M': 1.5, 'D': 3.0, 'beta': 0.25, 'rho': 0.5}


def _numeric_params(spec, mode):
    from .standins import SScalar
    kwargs, _ = spec.params(mode)
    out = {}
    for k, v in kwargs.items():
        if isinstance(v, SScalar):
            out[k] = DEFAULT_PARAMS.get(k, 1.0)
        elif isinstance(v, list):
            out[k] = [2.0 + i for i in range(len(v))]
        elif k == 'partition':
            from PEPit.block_partition import BlockPartition
            out[k] = None
        else:
            out[k] = v
    return out


def _replay_formula(sig, model):
    """the documented formula and the real closure are evaluated on REAL objects and compared coefficient-wise"""
    import importlib
    from .classes import SPECS
    from .classrun import Sample
    from PEPit.pep import PEP
    from PEPit.point import Point
    from PEPit.expression import Expression
    from PEPit.tools.dict_operations import symmetrize_dict, prune_dict
    cls = sig.get('class')
    spec = SPECS[cls]
    if sig.get('missing_pairs') == 'i == j' and cls == 'SkewSymmetricLinearOperator':
        return replay_skew_diagonal()
    cond = [c for c in spec.conds if c.name == sig.get('condition')]
    mode = spec.modes[-1] if len(spec.modes) > 1 else spec.modes[0]
    for m in spec.modes:
        if any(c.name == sig.get('condition') and (c.when is None or c.when(m)) for c in spec.conds):
            mode = m
    PEP()
    params = _numeric_params(spec, mode)
    if 'partition' in params:
        from PEPit.block_partition import BlockPartition
        params['partition'] = BlockPartition(d=len(params['L']))
    Real = getattr(importlib.import_module(spec.module), cls)
    f = Real(**params)
    a = Sample(Point(), Point(), Expression())
    b = Sample(Point(), Point(), Expression())
    closures = [getattr(f, n) for n in dir(f) if n.startswith('set_') and 'constraint' in n or n in ('set_smoothness_i_j',)]
    out = {'reproduced': False, 'params': {k: v for k, v in params.items() if k != 'partition'}, 'mode': mode}
    if not cond:
        return out
    cond = cond[0]
    want = cond.doc(params, a) if cond.kind == 'each' else cond.doc(params, a, b)
    wd = prune_dict(symmetrize_dict(want.decomposition_dict))
    best = None
    for cl in closures:
        try:
            c = cl(*a.triplet) if cond.kind == 'each' else cl(*a.triplet, *b.triplet)
        except TypeError:
            continue
        gd = prune_dict(symmetrize_dict(c.expression.decomposition_dict))
        keys = set(gd) | set(wd)
        diff = max([abs(gd.get(k, 0) - wd.get(k, 0)) for k in keys] + [0])
        diff2 = max([abs(gd.get(k, 0) + wd.get(k, 0)) for k in keys] + [0]) if cond.sense == 'equality' else diff
        d = min(diff, diff2)
        if best is None or d < best[0]:
            best = (d, cl.__name__, c.equality_or_inequality)
    if best is not None:
        out.update(closest_real_closure=best[1], max_coefficient_difference=best[0], sense=best[2], documented_sense=cond.sense)
        out['reproduced'] = best[0] > 1e-9 or best[2] != cond.sense
    return out


def replay_skew_diagonal():
    """witness of the missing diagonal condition on the real code: max <x, Ax> over |x| <= 1 for a skew-symmetric A"""
    from PEPit import PEP
    from PEPit.operators import SkewSymmetricLinearOperator
    import io, contextlib
    p = PEP()
    A = p.declare_function(SkewSymmetricLinearOperator, L=1.)
    x = p.set_initial_point()
    p.set_initial_condition(x ** 2 <= 1)
    p.set_performance_metric(x * A.gradient(x))
    with contextlib.redirect_stdout(io.StringIO()):
        val = p.solve(verbose=0)
    return {'reproduced': val is not None and abs(val) > 1e-3, 'witness': 'max <x, Ax>, |x|<=1, A skew-symmetric with |A|<=1',
            'library_value': val, 'true_value': 0.0}


# ------------------------------------------------------------------------------------------ C03
def _c03_task(task):
    name, quick, shard, nshards = task
    try:
        from . import classcheck, families
        from .classes import SPECS
        out = []
        obs, ctxs = classcheck.check_all_classes([name])
        for spec, mode, variant, ctx in ctxs:
            for label, fam in families.FAMILIES.get(spec.cls, []):
                if not families.applicable(spec.cls, label, mode, variant):
                    continue
                for o in families.check_family(spec, mode, variant, ctx, label, fam, timeout_ms=30000 if quick else 120000,
                                               shard=shard, nshards=nshards):
                    out.append((o.oid, o.verdict, o.seconds, o.detail, o.model, o.signature))
        return out
    except Exception as e:
        return [('C03/%s/execution' % name, 'error', 0.0, '%s\n%s' % (e, traceback.format_exc()[-800:]), None, {})]


def member_families(run):
    from .classes import SPECS
    from .families import FAMILIES
    names = list(SPECS)
    quick = run.tier == 'quick'
    ctx = mp.get_context('fork')
    NS = 6
    tasks = [(n, quick, sh, NS) for n in names for sh in range(NS)]
    with ctx.Pool(JOBS) as pool:
        res = pool.map(_c03_task, tasks, chunksize=1)
    nfam = sum(len(FAMILIES.get(n, [])) for n in names)
    for (name, _, _, _), obs in zip(tasks, res):
        for (oid, verdict, sec, detail, model, sig) in obs:
            if verdict == 'error':
                run.obligations += 1
                run.undecide(oid, 'contract-level execution failed: ' + detail[:400])
                continue
            run.count(oid, verdict == 'unsat', 'z3 (QF_NRA) on contract-level execution', sec, 'property', verdict,
                      sample={'obligation': oid, 'verdict': 'discharged' if verdict == 'unsat' else verdict})
            if verdict == 'unsat':
                continue
            if verdict == 'unknown':
                run.undecide(oid, 'solver timeout on a family inequality (%s)' % detail[:200])
                continue
            run.violation(oid, 'a generated class constraint is violated by a genuine member of the class: ' + detail,
                          replay=dict(kind='family-counterexample', model=model, detail=detail,
                                      note='the model gives the class parameters, the family parameters, the sample points and the subgradient selection'),
                          signature=sig, reproduced=bool(model))
    run.components.append({'component': 'member families', 'classes': len(names), 'families': nfam})
    run.assume('beyond the decidable member families (DESIGN.md B.3) validity of a class condition for EVERY member is the cited interpolation theorem (assumed)',
               'LMIs are checked as w^T T w >= 0 for matrices of size <= 3 samples (stated bound)')


# ------------------------------------------------------------------------------------------ C08
def primitive_steps(run):
    from . import steps
    obs = steps.check_steps()
    for o in obs:
        if o.verdict == 'error':
            run.obligations += 1
            run.undecide(o.oid, 'contract-level execution failed: ' + o.detail[:400])
            continue
        run.count(o.oid, o.verdict == 'unsat', 'z3 (QF_NRA) on contract-level execution', o.seconds, 'property', o.verdict,
                  sample={'obligation': o.oid, 'verdict': 'discharged' if o.verdict == 'unsat' else o.verdict, 'detail': o.detail[:160]})
        if o.verdict == 'unsat':
            continue
        if o.verdict == 'unknown':
            run.undecide(o.oid, o.detail[:300])
            continue
        rep = steps.replay_step(o.signature.get('step', ''))
        run.violation(o.oid, o.detail, replay=dict(kind='step', model=o.model, detail=o.detail, **rep), signature=o.signature,
                      reproduced=rep.get('reproduced', False))
    run.components.append({'component': 'contract-level execution of the 8 primitive steps', 'obligations': len(obs)})
    run.functions += functions_of_steps()
    run.trust('contract stand-ins (sym/standins.py) transcribe the operator contracts proved under C06',
              'documented step relations transcribed by hand in sym/steps.py from the step doc-strings (primal-dual gap, epsilon-subdifferential)')
    run.assume('"running the real operation satisfies what the step recorded": the recorded relation IS the optimality condition defining the step '
               '(prox, line search, linear minimisation oracle); taken as the definition, not proved',
               'exact_linesearch_step is executed for 0, 1 and 3 directions (the only loop in the steps)')
