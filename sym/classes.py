"""Documented conditions of the 24 shipped classes (transcribed from the class doc-strings / cited theorems,
independently of the code: DESIGN.md Appendix B.1) and decidable member families (B.3).

A condition is given as an expression E over the samples such that the documented statement is  E <= 0
(sense 'inequality') or E == 0 (sense 'equality').  d_x = x_i - x_j, d_g = g_i - g_j.
"""
import z3
from .standins import SScalar, SPoint, SExpr, INF, SPartition

RV = z3.RealVal


def sq(p):
    return p * p


class Cond:
    def __init__(self, name, kind, lists, order, sense, doc, when=None):
        """kind: 'pair' | 'each';  lists: ('points','points') | ('stationary','points') | ('points',) | ('points','T.points')
        order: 'ordered' (every ordered pair of distinct samples) | 'unordered' (one per unordered pair) | 'each'"""
        self.name, self.kind, self.lists, self.order, self.sense, self.doc, self.when = name, kind, lists, order, sense, doc, when


class Lmi:
    def __init__(self, name, over, doc):
        self.name, self.over, self.doc = name, over, doc      # doc(P, a, b) -> SExpr entry (row sample a, column sample b)


class Spec:
    def __init__(self, cls, module, params, conds, lmis=(), modes=None, needs_stationary=False, families=(), setup=None,
                 stationary_always=False):
        self.cls, self.module, self.params, self.conds, self.lmis = cls, module, params, list(conds), list(lmis)
        self.modes = modes or [{}]
        self.needs_stationary, self.families, self.setup = needs_stationary, list(families), setup
        self.stationary_always = stationary_always


def sym(name):
    return SScalar(z3.Real(name))


# ----------------------------------------------------------------------------- documented formulas
def convexity(P, a, b): return -(a.f - b.f - b.g * (a.x - b.x))
def strong_convexity(P, a, b): return -(a.f - b.f - b.g * (a.x - b.x) - P['mu'] / 2 * sq(a.x - b.x))


def smoothness(P, a, b):
    L = P['L']
    return -(a.f - b.f + L / 4 * sq(a.x - b.x) - 0.5 * ((a.g + b.g) * (a.x - b.x)) - 1 / (4 * L) * sq(a.g - b.g))


def smooth_convexity(P, a, b):
    return -(a.f - b.f - b.g * (a.x - b.x) - 1 / (2 * P['L']) * sq(a.g - b.g))


def smooth_strong_convexity(P, a, b):
    mu, L = P['mu'], P['L']
    dx, dg = a.x - b.x, a.g - b.g
    return -(a.f - b.f - b.g * dx - 1 / (2 * (1 - mu / L)) * (1 / L * sq(dg) + mu * sq(dx) - 2 * mu / L * (dg * dx)))


def grad_bound(P, a): return sq(a.g) - P['M'] * P['M']
def monotonicity(P, a, b): return -((a.g - b.g) * (a.x - b.x))
def strong_monotonicity(P, a, b): return -((a.g - b.g) * (a.x - b.x) - P['mu'] * sq(a.x - b.x))
def cocoercivity(P, a, b): return -((a.g - b.g) * (a.x - b.x) - P['beta'] * sq(a.g - b.g))
def lipschitz(P, a, b): return sq(a.g - b.g) - P['L'] * P['L'] * sq(a.x - b.x)
def neg_comonotone(P, a, b): return -((a.g - b.g) * (a.x - b.x) + P['rho'] * sq(a.g - b.g))
def nonexpansive(P, a, b): return sq(a.g - b.g) - sq(a.x - b.x)


PTS = ('points', 'points')
FN = 'PEPit.functions'
OP = 'PEPit.operators'


def pos(*names):
    """generic regime of the parameters: positive, finite"""
    return lambda P: [P[n].term > 0 for n in names]


SPECS = {}


def spec(s):
    SPECS[s.cls] = s
    return s


# ------------------------------------------------------------------------------------- functions
spec(Spec('ConvexFunction', FN, lambda m: ({}, []),
          [Cond('convexity', 'pair', PTS, 'ordered', 'inequality', convexity)]))
spec(Spec('StronglyConvexFunction', FN, lambda m: ({'mu': sym('mu')}, ['mu > 0']),
          [Cond('strong_convexity', 'pair', PTS, 'ordered', 'inequality', strong_convexity)]))
spec(Spec('SmoothFunction', FN, lambda m: ({'L': sym('L')}, ['L > 0']),
          [Cond('smoothness', 'pair', PTS, 'ordered', 'inequality', smoothness)]))
spec(Spec('SmoothConvexFunction', FN, lambda m: ({'L': sym('L')}, ['L > 0']),
          [Cond('smoothness_convexity', 'pair', PTS, 'ordered', 'inequality', smooth_convexity)]))
spec(Spec('SmoothStronglyConvexFunction', FN, lambda m: ({'mu': sym('mu'), 'L': sym('L')}, ['L > 0', 'mu >= 0', 'mu < L']),
          [Cond('smoothness_strong_convexity', 'pair', PTS, 'ordered', 'inequality', smooth_strong_convexity)]))
spec(Spec('ConvexLipschitzFunction', FN, lambda m: ({'M': sym('M')}, ['M > 0']),
          [Cond('convexity', 'pair', PTS, 'ordered', 'inequality', convexity),
           Cond('lipschitz_continuity', 'each', ('points',), 'each', 'inequality', grad_bound)]))
spec(Spec('SmoothConvexLipschitzFunction', FN, lambda m: ({'L': sym('L'), 'M': sym('M')}, ['L > 0', 'M > 0']),
          [Cond('smoothness_convexity', 'pair', PTS, 'ordered', 'inequality', smooth_convexity),
           Cond('lipschitz_continuity', 'each', ('points',), 'each', 'inequality', grad_bound)]))
spec(Spec('ConvexIndicatorFunction', FN,
          lambda m: (({'D': sym('D')}, ['D > 0']) if m.get('D') == 'finite' else ({'D': INF}, [])),
          [Cond('value', 'each', ('points',), 'each', 'equality', lambda P, a: a.f + 0),
           Cond('convexity', 'pair', PTS, 'ordered', 'inequality', lambda P, a, b: b.g * (a.x - b.x)),
           Cond('diameter', 'pair', PTS, 'any', 'inequality', lambda P, a, b: sq(a.x - b.x) - P['D'] * P['D'],
                when=lambda m: m.get('D') == 'finite')],
          modes=[{'D': 'finite'}, {'D': 'inf'}]))
spec(Spec('ConvexSupportFunction', FN,
          lambda m: (({'M': sym('M')}, ['M > 0']) if m.get('M') == 'finite' else ({'M': INF}, [])),
          [Cond('fenchel_value', 'each', ('points',), 'each', 'equality', lambda P, a: a.g * a.x - a.f),
           Cond('lipschitz_continuity', 'each', ('points',), 'each', 'inequality', grad_bound, when=lambda m: m.get('M') == 'finite'),
           Cond('convexity', 'pair', PTS, 'ordered', 'inequality', lambda P, a, b: b.x * (a.g - b.g))],
          modes=[{'M': 'finite'}, {'M': 'inf'}]))
spec(Spec('ConvexQGFunction', FN, lambda m: ({'L': sym('L')}, ['L > 0']),
          [Cond('convexity', 'pair', PTS, 'ordered', 'inequality', convexity),
           Cond('qg_convexity', 'pair', ('stationary', 'points'), 'ordered', 'inequality',
                lambda P, s, b: -(s.f - b.f - b.g * (s.x - b.x) - 1 / (2 * P['L']) * sq(b.g)))],
          needs_stationary=True))
spec(Spec('RsiEbFunction', FN, lambda m: ({'mu': sym('mu'), 'L': sym('L')}, ['mu > 0', 'L > 0', 'mu <= L']),
          [Cond('rsi', 'pair', ('stationary', 'points'), 'ordered', 'inequality',
                lambda P, s, b: -((s.g - b.g) * (s.x - b.x) - P['mu'] * sq(s.x - b.x))),
           Cond('eb', 'pair', ('stationary', 'points'), 'ordered', 'inequality',
                lambda P, s, b: sq(s.g - b.g) - P['L'] * P['L'] * sq(s.x - b.x))],
          needs_stationary=True))


def quad_value(P, a, s): return a.f - s.f - 0.5 * ((a.x - s.x) * a.g)
def quad_sym(P, a, b, s): return (a.x - s.x) * b.g - (b.x - s.x) * a.g
def quad_lmi(P, a, b, s):
    mu, L = P['mu'], P['L']
    return (L + mu) * (a.g * (b.x - s.x)) - a.g * b.g - mu * L * ((a.x - s.x) * (b.x - s.x))


spec(Spec('SmoothStronglyConvexQuadraticFunction', FN, lambda m: ({'mu': sym('mu'), 'L': sym('L')}, ['L > 0', 'mu >= 0', 'mu <= L']),
          [Cond('value', 'each', ('points',), 'each', 'equality', quad_value),
           Cond('symmetry', 'pair', PTS, 'unordered', 'equality', quad_sym)],
          lmis=[Lmi('quadratic', 'points', quad_lmi)], stationary_always=True))

# ------------------------------------------------------------------------------------- operators
spec(Spec('MonotoneOperator', OP, lambda m: ({}, []),
          [Cond('monotonicity', 'pair', PTS, 'unordered', 'inequality', monotonicity)]))
spec(Spec('StronglyMonotoneOperator', OP, lambda m: ({'mu': sym('mu')}, ['mu > 0']),
          [Cond('strong_monotonicity', 'pair', PTS, 'unordered', 'inequality', strong_monotonicity)]))
spec(Spec('CocoerciveOperator', OP, lambda m: ({'beta': sym('beta')}, ['beta > 0']),
          [Cond('cocoercivity', 'pair', PTS, 'unordered', 'inequality', cocoercivity)]))
spec(Spec('CocoerciveStronglyMonotoneOperator', OP, lambda m: ({'mu': sym('mu'), 'beta': sym('beta')}, ['mu > 0', 'beta > 0']),
          [Cond('cocoercivity', 'pair', PTS, 'unordered', 'inequality', cocoercivity),
           Cond('strong_monotonicity', 'pair', PTS, 'unordered', 'inequality', strong_monotonicity)]))
spec(Spec('LipschitzOperator', OP, lambda m: ({'L': sym('L')}, ['L > 0']),
          [Cond('lipschitz_continuity', 'pair', PTS, 'unordered', 'inequality', lipschitz)]))
spec(Spec('LipschitzStronglyMonotoneOperator', OP, lambda m: ({'mu': sym('mu'), 'L': sym('L')}, ['mu > 0', 'L > 0']),
          [Cond('strong_monotonicity', 'pair', PTS, 'unordered', 'inequality', strong_monotonicity),
           Cond('lipschitz_continuity', 'pair', PTS, 'unordered', 'inequality', lipschitz)]))
spec(Spec('NegativelyComonotoneOperator', OP, lambda m: ({'rho': sym('rho')}, ['rho > 0']),
          [Cond('negative_comonotonicity', 'pair', PTS, 'unordered', 'inequality', neg_comonotone)]))


def _set_v(obj, samples, m):
    from . import standins as S
    if m.get('v') == 'set':
        obj.v = S.WORLD.point('v')


spec(Spec('NonexpansiveOperator', OP, lambda m: ({}, []),
          [Cond('nonexpansiveness', 'pair', PTS, 'unordered', 'inequality', nonexpansive),
           Cond('infimal_displacement_vector', 'each', ('points',), 'each', 'inequality',
                lambda P, a: sq(P['v']) - (a.x - a.g) * P['v'], when=lambda m: m.get('v') == 'set')],
          modes=[{'v': 'none'}, {'v': 'set'}], setup=_set_v))

spec(Spec('LinearOperator', OP, lambda m: ({'L': sym('L')}, ['L > 0']),
          [Cond('transpose', 'pair', ('points', 'T.points'), 'cross', 'equality', lambda P, a, b: a.x * b.g - a.g * b.x)],
          lmis=[Lmi('norm', 'points', lambda P, a, b: P['L'] * P['L'] * (a.x * b.x) - a.g * b.g),
                Lmi('norm_T', 'T.points', lambda P, a, b: P['L'] * P['L'] * (a.x * b.x) - a.g * b.g)]))
spec(Spec('SymmetricLinearOperator', OP, lambda m: ({'mu': sym('mu'), 'L': sym('L')}, ['L > 0', 'mu <= L']),
          [Cond('symmetric_linearity', 'pair', PTS, 'unordered', 'equality', lambda P, a, b: a.x * b.g - b.x * a.g)],
          lmis=[Lmi('spectrum', 'points', lambda P, a, b: P['L'] * (a.g * b.x) - a.g * b.g - P['mu'] * P['L'] * (a.x * b.x) + P['mu'] * (a.x * b.g))]))
spec(Spec('SkewSymmetricLinearOperator', OP, lambda m: ({'L': sym('L')}, ['L > 0']),
          [Cond('antisymmetric_linearity', 'pair', PTS, 'unordered_with_diagonal', 'equality', lambda P, a, b: a.x * b.g + b.x * a.g)],
          lmis=[Lmi('norm', 'points', lambda P, a, b: P['L'] * P['L'] * (a.x * b.x) - a.g * b.g)]))


def block_smooth(P, a, b, k):
    gik, gjk = P['partition'].get_block(a.g, k), P['partition'].get_block(b.g, k)
    return -(a.f - b.f - b.g * (a.x - b.x) - 1 / (2 * P['L'][k]) * sq(gik - gjk))


spec(Spec('BlockSmoothConvexFunction', FN,
          lambda m: ({'partition': SPartition(2), 'L': [sym('L1'), sym('L2')]}, [lambda P: P['L'][0].term > 0, lambda P: P['L'][1].term > 0]),
          [Cond('smoothness_convexity_block', 'pair', PTS, 'blocks', 'inequality', block_smooth)]))


# ----------------------------------------------------------------------------- parameter corners: a parameter EXACTLY zero
# A symbolic parameter answers `== 0` with False (generic regime), so code guarded by `if self.mu == 0:` is never taken symbolically.  The corner modes
# below run the class with the concrete python float 0.0 for the named parameter(s) (the other parameters stay symbolic): the documented conditions,
# evaluated with that value, must still be exactly what is generated.
ZERO_CORNERS = {
    'SmoothStronglyConvexFunction': ['mu'], 'StronglyConvexFunction': ['mu'], 'SmoothStronglyConvexQuadraticFunction': ['mu'],
    'StronglyMonotoneOperator': ['mu'], 'CocoerciveOperator': ['beta'], 'CocoerciveStronglyMonotoneOperator': ['mu', 'beta', 'mu+beta'],
    'LipschitzStronglyMonotoneOperator': ['mu'], 'NegativelyComonotoneOperator': ['rho'], 'SymmetricLinearOperator': ['mu'],
}


def _with_zero_corners(spec_, corners):
    base = spec_.params

    def params(m):
        z = m.get('zero')
        P, hyps = base({k: v for k, v in m.items() if k != 'zero'})
        if z:
            names = z.split('+')
            P = dict(P)
            for n in names:
                P[n] = 0.0
            hyps = [h for h in hyps if not (isinstance(h, str) and any(h.replace(' ', '') in ('%s>0' % n, '%s>=0' % n) for n in names))]
        return P, hyps
    spec_.params = params
    spec_.modes = list(spec_.modes) + [dict(m, zero=c) for m in spec_.modes for c in corners]


for _cls, _corners in ZERO_CORNERS.items():
    if _cls in SPECS:
        _with_zero_corners(SPECS[_cls], _corners)
