"""C03: decidable member families (DESIGN.md B.3).  For every family the generated constraints are evaluated under
the family's (G, F) and proved valid for ALL real parameters in range, ALL real sample points and ALL admissible
subgradient selections by z3 (QF_NRA).  Membership of a family in a class is the class's textbook definition
restricted to that family (first-order for these families) and is stated next to each family."""
import time
import z3
from . import standins as S
from .standins import evaluate, prove, SScalar

Rl = z3.Real
RV = z3.RealVal


def names(s):
    return s.x.leaf, s.g.leaf, s.f.leaf


class Assign:
    def __init__(self):
        self.hyps, self.points, self.fvals = [], {}, {}


def pterm(P, k):
    v = P[k]
    return v.term if isinstance(v, SScalar) else v


def absval(x):
    return z3.If(x >= 0, x, -x)


# ------------------------------------------------------------------------------------ 1-D functions
def fam_quadratic(qrange):
    """f(x) = q (x - c)^2 / 2 + d, minimiser c;  qrange(P, q) -> hypotheses on q"""
    def build(P, ctx):
        A = Assign()
        q, c, d = Rl('q'), Rl('c'), Rl('d')
        A.hyps += qrange(P, q)
        for s in ctx['samples']:
            xn, gn, fn = names(s)
            x = c if s.role == 'stationary' else Rl('val_' + xn)
            A.points[xn] = (x,)
            if gn:
                A.points[gn] = (q * (x - c),)
            A.fvals[fn] = q * (x - c) * (x - c) / 2 + d
        return A
    return build


def fam_abs(hyp):
    """f(x) = a|x| + b x + c x^2/2 with a, c >= 0 and any subgradient selection at 0"""
    def build(P, ctx):
        A = Assign()
        a, b, c = Rl('a'), Rl('b'), Rl('c')
        A.hyps += [a >= 0, c >= 0] + hyp(P, a, b, c)
        for s in ctx['samples']:
            xn, gn, fn = names(s)
            x, sg = Rl('val_' + xn), Rl('sel_' + xn)
            A.hyps += [sg >= -1, sg <= 1, z3.Implies(x > 0, sg == 1), z3.Implies(x < 0, sg == -1)]
            A.points[xn] = (x,)
            A.points[gn] = (a * sg + b + c * x,)
            A.fvals[fn] = a * absval(x) + b * x + c * x * x / 2
        return A
    return build


def fam_twopiece(hyp):
    """f(x) = m x^2/2 (x <= 0), l x^2/2 (x >= 0), 0 <= m <= l : C^1, gradient m x / l x"""
    def build(P, ctx):
        A = Assign()
        m, l = Rl('m'), Rl('l')
        A.hyps += [m >= 0, m <= l] + hyp(P, m, l)
        for s in ctx['samples']:
            xn, gn, fn = names(s)
            x = RV(0) if s.role == 'stationary' else Rl('val_' + xn)
            A.points[xn] = (x,)
            if gn:
                A.points[gn] = (z3.If(x <= 0, m * x, l * x),)
            A.fvals[fn] = z3.If(x <= 0, m * x * x / 2, l * x * x / 2)
        return A
    return build


def fam_huber(P, ctx):
    """Huber(L, delta): L x^2/2 for |x| <= delta, L delta |x| - L delta^2/2 outside; L delta <= M"""
    A = Assign()
    L, M, dl = pterm(P, 'L'), pterm(P, 'M'), Rl('delta')
    A.hyps += [dl > 0, L * dl <= M]
    for s in ctx['samples']:
        xn, gn, fn = names(s)
        x = Rl('val_' + xn)
        A.points[xn] = (x,)
        A.points[gn] = (z3.If(absval(x) <= dl, L * x, z3.If(x > 0, L * dl, -L * dl)),)
        A.fvals[fn] = z3.If(absval(x) <= dl, L * x * x / 2, L * dl * absval(x) - L * dl * dl / 2)
    return A


def fam_indicator(P, ctx):
    """indicator of [lo, hi]: f = 0 on the set, g in the normal cone; diameter hi - lo <= D"""
    A = Assign()
    lo, hi = Rl('lo'), Rl('hi')
    A.hyps += [lo <= hi]
    if isinstance(P.get('D'), SScalar):
        A.hyps.append(hi - lo <= pterm(P, 'D'))
    for s in ctx['samples']:
        xn, gn, fn = names(s)
        x, g = Rl('val_' + xn), Rl('nc_' + xn)
        A.hyps += [x >= lo, x <= hi, z3.Implies(x < hi, g <= 0), z3.Implies(x > lo, g >= 0)]
        A.points[xn], A.points[gn], A.fvals[fn] = (x,), (g,), RV(0)
    return A


def fam_support(P, ctx):
    """support function of [lo, hi]: f(x) = max(lo x, hi x), g in argmax; |lo|, |hi| <= M"""
    A = Assign()
    lo, hi = Rl('lo'), Rl('hi')
    A.hyps += [lo <= hi]
    if isinstance(P.get('M'), SScalar):
        A.hyps += [-pterm(P, 'M') <= lo, hi <= pterm(P, 'M')]
    for s in ctx['samples']:
        xn, gn, fn = names(s)
        x, g = Rl('val_' + xn), Rl('arg_' + xn)
        A.hyps += [g >= lo, g <= hi, z3.Implies(x > 0, g == hi), z3.Implies(x < 0, g == lo)]
        A.points[xn], A.points[gn], A.fvals[fn] = (x,), (g,), z3.If(x >= 0, hi * x, lo * x)
    return A


# --------------------------------------------------------------------------------- 2-D linear operators
def fam_rotation_scaling(hyp, transpose=False):
    """A = c I + s J (J the quarter turn): <Ax, x> = c |x|^2, |Ax|^2 = (c^2 + s^2)|x|^2"""
    def build(P, ctx):
        A = Assign()
        c, s = Rl('c'), Rl('s')
        A.hyps += hyp(P, c, s)
        for smp in ctx['samples']:
            xn, gn, fn = names(smp)
            x1, x2 = Rl('val1_' + xn), Rl('val2_' + xn)
            A.points[xn] = (x1, x2)
            A.points[gn] = (c * x1 - s * x2, s * x1 + c * x2)
            A.fvals[fn] = Rl('free_' + fn)
        for smp in ctx.get('t_samples', []):
            xn, gn, fn = names(smp)
            u1, u2 = Rl('val1_' + xn), Rl('val2_' + xn)
            A.points[xn] = (u1, u2)
            A.points[gn] = (c * u1 + s * u2, -s * u1 + c * u2)       # transpose
            A.fvals[fn] = Rl('free_' + fn)
        return A
    return build


def fam_diag(hyp):
    """A = diag(q1, q2)"""
    def build(P, ctx):
        A = Assign()
        q1, q2 = Rl('q1'), Rl('q2')
        A.hyps += hyp(P, q1, q2)
        for smp in ctx['samples'] + ctx.get('t_samples', []):
            xn, gn, fn = names(smp)
            x1, x2 = Rl('val1_' + xn), Rl('val2_' + xn)
            A.points[xn], A.points[gn], A.fvals[fn] = (x1, x2), (q1 * x1, q2 * x2), Rl('free_' + fn)
        return A
    return build


def fam_subdiff_abs(P, ctx):
    """the maximal monotone operator d|.| + c x on the line (set-valued at 0)"""
    A = Assign()
    c = Rl('c')
    A.hyps.append(c >= (pterm(P, 'mu') if 'mu' in P else 0))
    for s in ctx['samples']:
        xn, gn, fn = names(s)
        x, sg = Rl('val_' + xn), Rl('sel_' + xn)
        A.hyps += [sg >= -1, sg <= 1, z3.Implies(x > 0, sg == 1), z3.Implies(x < 0, sg == -1)]
        A.points[xn], A.points[gn], A.fvals[fn] = (x,), (sg + c * x,), Rl('free_' + fn)
    return A


def fam_translation(P, ctx):
    """T x = x - w : nonexpansive, its infimal displacement vector is w"""
    A = Assign()
    w1, w2 = Rl('w1'), Rl('w2')
    for s in ctx['samples']:
        xn, gn, fn = names(s)
        x1, x2 = Rl('val1_' + xn), Rl('val2_' + xn)
        A.points[xn], A.points[gn], A.fvals[fn] = (x1, x2), (x1 - w1, x2 - w2), Rl('free_' + fn)
    if 'v' in P:
        A.points[P['v'].leaf] = (w1, w2)
    return A


def fam_separable_blocks(P, ctx):
    """f(x) = c1 x1^2/2 + c2 x2^2/2 with coordinate blocks, 0 <= c_k <= L_k"""
    A = Assign()
    cs = [Rl('c1'), Rl('c2')]
    Ls = [l.term for l in P['L']]
    A.hyps += [cs[k] >= 0 for k in range(2)] + [cs[k] <= Ls[k] for k in range(2)]
    for s in ctx['samples']:
        xn, gn, fn = names(s)
        x = (Rl('val1_' + xn), Rl('val2_' + xn))
        A.points[xn] = x
        A.points[gn] = (cs[0] * x[0], cs[1] * x[1])
        A.fvals[fn] = cs[0] * x[0] * x[0] / 2 + cs[1] * x[1] * x[1] / 2
    # block leaves created by the partition stand-in: coordinate projections of their parent
    for leafname, (parent, k) in P['partition'].block_leaves.items():
        vec = [sum((co * A.points[b][t] for b, co in parent.c.items()), RV(0)) for t in range(2)]
        A.points[leafname] = tuple(vec[t] if t == k else RV(0) for t in range(2))
    return A


def between(lo, hi):
    return lambda P, q: [q >= (pterm(P, lo) if isinstance(lo, str) else lo), q <= (pterm(P, hi) if isinstance(hi, str) else hi)]


FAMILIES = {
    'ConvexFunction': [('quadratic q>=0', fam_quadratic(lambda P, q: [q >= 0])), ('a|x|+bx+cx^2/2', fam_abs(lambda P, a, b, c: []))],
    'StronglyConvexFunction': [('quadratic q>=mu', fam_quadratic(lambda P, q: [q >= pterm(P, 'mu')])),
                               ('a|x|+bx+cx^2/2, c>=mu', fam_abs(lambda P, a, b, c: [c >= pterm(P, 'mu')]))],
    'SmoothFunction': [('quadratic |q|<=L', fam_quadratic(lambda P, q: [q >= -pterm(P, 'L'), q <= pterm(P, 'L')])),
                       ('two-piece quadratic l<=L', fam_twopiece(lambda P, m, l: [l <= pterm(P, 'L')]))],
    'SmoothConvexFunction': [('quadratic 0<=q<=L', fam_quadratic(lambda P, q: [q >= 0, q <= pterm(P, 'L')])),
                             ('two-piece quadratic l<=L', fam_twopiece(lambda P, m, l: [l <= pterm(P, 'L')]))],
    'SmoothStronglyConvexFunction': [('quadratic mu<=q<=L', fam_quadratic(between('mu', 'L'))),
                                     ('two-piece quadratic mu<=m<=l<=L', fam_twopiece(lambda P, m, l: [m >= pterm(P, 'mu'), l <= pterm(P, 'L')]))],
    'ConvexLipschitzFunction': [('a|x|+bx, a+|b|<=M', fam_abs(lambda P, a, b, c: [c == 0, a + b <= pterm(P, 'M'), a - b <= pterm(P, 'M')]))],
    'SmoothConvexLipschitzFunction': [('Huber', fam_huber)],
    'ConvexIndicatorFunction': [('indicator of an interval', fam_indicator)],
    'ConvexSupportFunction': [('support function of an interval', fam_support)],
    'ConvexQGFunction': [('quadratic 0<=q<=L', fam_quadratic(lambda P, q: [q >= 0, q <= pterm(P, 'L')])),
                         ('two-piece quadratic l<=L', fam_twopiece(lambda P, m, l: [l <= pterm(P, 'L')]))],
    'RsiEbFunction': [('quadratic mu<=q<=L', fam_quadratic(between('mu', 'L'))),
                      ('two-piece quadratic mu<=m<=l<=L', fam_twopiece(lambda P, m, l: [m >= pterm(P, 'mu'), l <= pterm(P, 'L')]))],
    'SmoothStronglyConvexQuadraticFunction': [('quadratic mu<=q<=L', fam_quadratic(between('mu', 'L')))],
    'MonotoneOperator': [('cI+sJ, c>=0', fam_rotation_scaling(lambda P, c, s: [c >= 0])), ('d|.|+cx', fam_subdiff_abs)],
    'StronglyMonotoneOperator': [('cI+sJ, c>=mu', fam_rotation_scaling(lambda P, c, s: [c >= pterm(P, 'mu')])), ('d|.|+cx, c>=mu', fam_subdiff_abs)],
    'CocoerciveOperator': [('cI+sJ, c>=beta(c^2+s^2)', fam_rotation_scaling(lambda P, c, s: [c >= pterm(P, 'beta') * (c * c + s * s)]))],
    'CocoerciveStronglyMonotoneOperator': [('cI+sJ', fam_rotation_scaling(lambda P, c, s: [c >= pterm(P, 'beta') * (c * c + s * s), c >= pterm(P, 'mu')]))],
    'LipschitzOperator': [('cI+sJ, c^2+s^2<=L^2', fam_rotation_scaling(lambda P, c, s: [c * c + s * s <= pterm(P, 'L') * pterm(P, 'L')]))],
    'LipschitzStronglyMonotoneOperator': [('cI+sJ', fam_rotation_scaling(lambda P, c, s: [c * c + s * s <= pterm(P, 'L') * pterm(P, 'L'), c >= pterm(P, 'mu')]))],
    'NegativelyComonotoneOperator': [('cI+sJ, c+rho(c^2+s^2)>=0', fam_rotation_scaling(lambda P, c, s: [c + pterm(P, 'rho') * (c * c + s * s) >= 0]))],
    'NonexpansiveOperator': [('cI+sJ, c^2+s^2<=1', fam_rotation_scaling(lambda P, c, s: [c * c + s * s <= 1])), ('translation', fam_translation)],
    'LinearOperator': [('cI+sJ, c^2+s^2<=L^2', fam_rotation_scaling(lambda P, c, s: [c * c + s * s <= pterm(P, 'L') * pterm(P, 'L')])),
                       ('diag(q1,q2), |q|<=L', fam_diag(lambda P, q1, q2: [q1 * q1 <= pterm(P, 'L') * pterm(P, 'L'), q2 * q2 <= pterm(P, 'L') * pterm(P, 'L')]))],
    'SymmetricLinearOperator': [('diag(q1,q2), mu<=q<=L', fam_diag(lambda P, q1, q2: [q1 >= pterm(P, 'mu'), q1 <= pterm(P, 'L'), q2 >= pterm(P, 'mu'), q2 <= pterm(P, 'L')]))],
    'SkewSymmetricLinearOperator': [('sJ, |s|<=L', fam_rotation_scaling(lambda P, c, s: [c == 0, s * s <= pterm(P, 'L') * pterm(P, 'L')]))],
    'BlockSmoothConvexFunction': [('separable quadratic', fam_separable_blocks)],
}


def applicable(name, famlabel, mode, variant):
    if name == 'NonexpansiveOperator':
        return (mode.get('v') == 'set') == (famlabel == 'translation')
    return True


def check_family(spec, mode, variant, ctx, label, fam, timeout_ms=20000, lmi_max=3, shard=0, nshards=1):
    """returns list of (oid, verdict, seconds, detail, model)"""
    from .classcheck import Ob, mode_label
    out = []
    A = fam(ctx['P'], dict(ctx, samples=ctx['samples'], t_samples=ctx['t_samples']))
    hyps = ctx['hyps'] + A.hyps
    pre = 'C03/%s[%s;%s]/family[%s]' % (spec.cls, mode_label(mode), variant, label)
    obj = ctx['obj']
    for n, c in enumerate(obj.list_of_class_constraints):
        if n % nshards != shard:
            continue
        val = evaluate(c.expression, A.points, A.fvals)
        goal = (val <= 0) if c.equality_or_inequality == 'inequality' else (val == 0)
        v, sec, model = prove(hyps, goal, timeout_ms)
        out.append(Ob('%s/constraint#%d[%s]' % (pre, n, c.name or ''), v, sec, 'generated constraint holds on every member of the family', model,
                      signature={'class': spec.cls, 'family': label}))
    for n, psd in enumerate(obj.list_of_class_psd):
        N = psd.shape[0]
        if N > lmi_max or (len(obj.list_of_class_constraints) + n) % nshards != shard:
            continue
        w = [z3.Real('w%d' % i) for i in range(N)]
        quad = sum((w[i] * w[j] * evaluate(psd[i, j], A.points, A.fvals) for i in range(N) for j in range(N)), z3.RealVal(0))
        v, sec, model = prove(hyps, quad >= 0, timeout_ms)
        out.append(Ob('%s/lmi#%d.psd' % (pre, n), v, sec, 'w^T T w >= 0 for all w (matrix size %d)' % N, model,
                      signature={'class': spec.cls, 'family': label}))
    return out
