"""C04 (b)-(e) and C03: the REAL closures / add_class_constraints of every shipped class, executed on contract
stand-ins with symbolic parameters, compared with the documented conditions and evaluated on member families."""
import time
import traceback
import z3
from . import standins as S
from .standins import SScalar, SPoint, SExpr, SConstraint, INF, identical, prove
from .classrun import run_class, Sample
from .classes import SPECS


class Ob:
    def __init__(self, oid, verdict, seconds=0.0, detail='', model=None, signature=None, replay=None):
        self.oid, self.verdict, self.seconds, self.detail, self.model = oid, verdict, seconds, detail, model
        self.signature, self.replay = signature or {}, replay or {}

    @property
    def discharged(self): return self.verdict == 'unsat'


def hyps_of(P, texts):
    env = {k: (v.term if isinstance(v, SScalar) else v) for k, v in P.items() if isinstance(k, str)}
    return [t(P) if callable(t) else eval(t, {'__builtins__': {}}, env) for t in texts] + list(SScalar.assumptions)


def same_function(e1, e2, hyps):
    """prove e1 == e2 as affine functions of (G, F) under hyps; returns (verdict, seconds, model)"""
    goals = [g for _, g in identical(e1, e2)]
    return prove(hyps, z3.And(*goals) if goals else z3.BoolVal(True))


def mode_label(m):
    return ','.join('%s=%s' % kv for kv in sorted(m.items())) or 'default'


def role_of(obj, lst):
    if lst is obj.list_of_points:
        return 'points'
    if lst is obj.list_of_stationary_points:
        return 'stationary'
    T = getattr(obj, 'T', None)
    if T is not None and lst is T.list_of_points:
        return 'T.points'
    return 'other'


def sample_of(samples, triplet):
    for s in samples:
        if s.triplet is triplet:
            return s
    return Sample(*triplet, role='auto-stationary')


def check_class(spec, mode, variant):
    """variant: 'plain' | 'stat-first' | 'stat-last' | 'stat-auto'.  Returns (obligations, context for C03)."""
    obs = []
    kwargs, hyp_texts = spec.params(mode)
    pre = 'C04/%s[%s;%s]' % (spec.cls, mode_label(mode), variant)
    t_samples = []
    single = '+single' in variant          # one recorded sample per list: no pair exists, every per-sample condition and 1x1 LMI does

    samenames = '+samenames' in variant     # every sample point carries the same name: names are labels, never identities

    def setup(obj, samples):
        if samenames:
            for smp in samples:
                smp.x.set_name('x')
        if spec.setup:
            spec.setup(obj, samples, mode)
        if hasattr(obj, 'T'):
            for j in range(1 if single else 2):
                s = Sample(S.WORLD.point('u%d' % j), S.WORLD.point('v%d' % j), S.WORLD.expr('h%d' % j))
                obj.T.list_of_points.append(s.triplet)
                t_samples.append(s)

    residue = variant.endswith('+residue')
    variant0 = variant.replace('+residue', '').replace('+single', '').replace('+samenames', '')
    with_stat = variant0 in ('stat-first', 'stat-last') or spec.stationary_always
    obj, rec, samples = run_class(spec.module, spec.cls, dict(kwargs), n_samples=1 if single else 3, with_stationary=with_stat,
                                  stationary_pos='first' if variant0 == 'stat-first' else 'last', setup=setup, residue=residue)
    for t in rec.auto_stationary:
        samples.append(Sample(*t, role='stationary'))
    P = dict(kwargs)
    if getattr(obj, 'v', None) is not None:
        P['v'] = obj.v
    hyps = hyps_of(P, hyp_texts)
    stat = [s for s in samples if s.role == 'stationary']
    s0 = stat[0] if stat else None
    all_samples = samples + t_samples
    active = [c for c in spec.conds if c.when is None or c.when(mode)]

    def doc_expr(cond, a, b):
        nargs = cond.doc.__code__.co_argcount
        if cond.kind == 'each':
            return cond.doc(P, a) if nargs == 2 else cond.doc(P, a, s0)
        return cond.doc(P, a, b) if nargs == 3 else cond.doc(P, a, b, s0)

    matched = {c.name: 0 for c in active}
    # ---- (b)/(c): every helper call corresponds to a documented condition, formula identical at every generated pair
    for call in rec.calls:
        roles = (role_of(obj, call.l1),) + ((role_of(obj, call.l2),) if call.kind == 'two' else ())
        gens = [g for g in rec.generated if g[0] == call.name]
        if single and not gens:
            continue          # a pair helper over a one-element list generates nothing, and nothing is documented for it
        found = None
        t0 = time.time()
        last = None
        # (two documented conditions can coincide as formulas at a parameter corner: a call is matched first with the conditions not matched yet)
        for cond in sorted(active, key=lambda c_: matched[c_.name]):
            if cond.lists != roles or (cond.kind == 'pair') != (call.kind == 'two'):
                continue
            ok = True
            for (_, ti, tj, c) in gens:
                a, b = sample_of(all_samples, ti), (sample_of(all_samples, tj) if tj is not None else None)
                want = doc_expr(cond, a, b)
                if c.equality_or_inequality != cond.sense:
                    ok, last = False, ('sense %s, documented %s' % (c.equality_or_inequality, cond.sense), None)
                    break
                v, sec, model = same_function(c.expression, want, hyps)
                if v != 'unsat' and cond.sense == 'equality':
                    v, sec, model = same_function(c.expression, -want, hyps)
                if v != 'unsat':
                    ok, last = False, (v, model)
                    break
            if ok and gens:
                found = cond
                break
        oid = '%s/call[%s].formula_is_documented' % (pre, call.name)
        if found is None:
            obs.append(Ob(oid, 'sat' if last and last[0] == 'sat' else ('unknown' if last and last[0] == 'unknown' else 'sat'),
                          time.time() - t0, 'condition %r on lists %s (symmetry=%s) equals no documented condition of the class: %s' % (
                              call.name, roles, call.symmetry, last), last[1] if last else None,
                          signature={'class': spec.cls, 'condition': call.name}))
            continue
        matched[found.name] += 1
        obs.append(Ob(oid, 'unsat', time.time() - t0, '%d generated pairs identical to documented %r' % (len(gens), found.name)))
        # order / symmetry flag
        if call.kind == 'two':
            if found.order == 'ordered' and call.symmetry:
                obs.append(Ob('%s/call[%s].symmetry_flag' % (pre, call.name), 'sat', 0, 'symmetry=True on a condition documented for every ORDERED pair',
                              signature={'class': spec.cls, 'condition': call.name}))
            if call.symmetry:
                # (d): halving is only sound for a symmetric condition
                a, b = samples[0], samples[1]
                c1, c2 = call.closure(*a.triplet, *b.triplet), call.closure(*b.triplet, *a.triplet)
                v, sec, model = same_function(c1.expression, c2.expression, hyps)
                if v != 'unsat' and c1.equality_or_inequality == 'equality':
                    v, sec, model = same_function(c1.expression, -c2.expression, hyps)
                obs.append(Ob('%s/call[%s].symmetric_condition' % (pre, call.name), v, sec,
                              'Phi(a,b) == Phi(b,a)', model, signature={'class': spec.cls, 'condition': call.name}))
    # ---- constraints appended without the helpers (LinearOperator cross condition)
    helper_made = {id(g[3]) for g in rec.generated}
    direct = [c for c in obj.list_of_class_constraints if id(c) not in helper_made]
    for cond in active:
        if cond.order != 'cross' or matched[cond.name]:
            continue          # (already generated through the generic two-list helper)
        t0 = time.time()
        want = [(a, b, doc_expr(cond, a, b)) for a in samples for b in t_samples]
        ok = len(direct) == len(want)
        detail = '%d constraints appended directly, %d documented cross pairs' % (len(direct), len(want))
        model = None
        if ok:
            for c, (a, b, w) in zip(direct, want):
                v, sec, model = same_function(c.expression, w, hyps)
                if v != 'unsat':
                    v, sec, model = same_function(c.expression, -w, hyps)
                if v != 'unsat' or c.equality_or_inequality != cond.sense:
                    ok = False
                    detail = 'cross condition differs from the documented one at (%s, %s)' % (a.x, b.x)
                    break
        matched[cond.name] += 1 if ok else 0
        obs.append(Ob('%s/direct[%s].formula_is_documented' % (pre, cond.name), 'unsat' if ok else 'sat', time.time() - t0, detail, model,
                      signature={'class': spec.cls, 'condition': cond.name}))
        direct = []
    for cond in active:
        if cond.order != 'blocks':
            continue
        t0 = time.time()
        d = P['partition'].get_nb_blocks()
        want = [(a, b, k) for a in samples for b in samples if a is not b for k in range(d)]
        ok, detail, model = len(direct) == len(want), '%d constraints for %d (ordered pair, block) combinations' % (len(direct), len(want)), None
        if ok:
            for c, (a, b, k) in zip(direct, want):
                v, sec, model = same_function(c.expression, cond.doc(P, a, b, k), hyps)
                if v != 'unsat' or c.equality_or_inequality != cond.sense:
                    ok, detail = False, 'block condition differs from the documented one at pair (%s, %s), block %d' % (a.x, b.x, k)
                    break
                # C17: the name identifies condition (with its block) and the ordered pair it was generated for
                lab = lambda smp: smp.x.get_name() or 'Point_%d' % [id(t) for t in map(lambda s_: s_.x, samples)].index(id(smp.x))
                nm = c.get_name() or ''
                if not (nm.endswith('(%s, %s)' % (lab(a), lab(b))) and ('block_%d(' % k) in nm):
                    ok, detail = False, 'constraint of pair (%s, %s), block %d is named %r' % (lab(a), lab(b), k, nm)
                    break
        matched[cond.name] += 1 if ok else 0
        obs.append(Ob('%s/direct[%s].formula_is_documented' % (pre, cond.name), 'unsat' if ok else 'sat', time.time() - t0, detail, model,
                      signature={'class': spec.cls, 'condition': cond.name}))
        direct = []
    if direct:
        obs.append(Ob('%s/direct.undocumented' % pre, 'sat', 0, '%d class constraints appended outside the helpers match no documented condition' % len(direct),
                      signature={'class': spec.cls}))
    # ---- (e): every documented condition is generated, on every required pair
    for cond in active:
        oid = '%s/spec[%s].generated' % (pre, cond.name)
        if single and matched[cond.name] == 0 and cond.kind == 'pair' and cond.lists[0] == cond.lists[1] and len(samples) < 2:
            continue
        if matched[cond.name] == 0:
            obs.append(Ob(oid, 'sat', 0, 'documented condition %r is generated by no call' % cond.name,
                          signature={'class': spec.cls, 'condition': cond.name, 'missing_pairs': 'all'}))
        else:
            obs.append(Ob(oid, 'unsat', 0, 'generated'))
        if cond.order == 'unordered_with_diagonal' and not residue and not samenames:
            # the pair helper never emits (i, i): the documented diagonal conditions must come from somewhere else
            diag = [g for g in rec.generated if g[1] is g[2]]
            t0 = time.time()
            a = samples[0]
            dv, _, _ = same_function(doc_expr(cond, a, a), SExpr({}), hyps)
            if dv == 'unsat':
                obs.append(Ob('%s/spec[%s].diagonal' % (pre, cond.name), 'unsat', time.time() - t0, 'diagonal condition is trivial'))
            else:
                obs.append(Ob('%s/spec[%s].diagonal' % (pre, cond.name), 'unsat' if diag else 'sat', time.time() - t0,
                              'documented for every i <= j INCLUDING i == j (non-trivial there); %d diagonal constraints generated' % len(diag),
                              signature={'class': spec.cls, 'condition': cond.name, 'missing_pairs': 'i == j'}))
    # ---- LMIs
    psds = list(obj.list_of_class_psd)
    if len(psds) != len(spec.lmis):
        obs.append(Ob('%s/lmi.count' % pre, 'sat', 0, '%d LMIs generated, %d documented' % (len(psds), len(spec.lmis)), signature={'class': spec.cls}))
    else:
        for lmi, psd in zip(spec.lmis, psds):
            rows = samples if lmi.over == 'points' else t_samples
            t0 = time.time()
            ok, detail, model = psd.shape == (len(rows), len(rows)), 'shape %s for %d samples' % (psd.shape, len(rows)), None
            if ok:
                for i, a in enumerate(rows):
                    for j, b in enumerate(rows):
                        want = lmi.doc(P, a, b) if lmi.doc.__code__.co_argcount == 3 else lmi.doc(P, a, b, s0)
                        v, sec, model = same_function(psd[i, j], want, hyps)
                        if v != 'unsat':
                            ok, detail = False, 'entry (%d,%d) differs from the documented matrix (%s)' % (i, j, v)
                            break
                    if not ok:
                        break
            obs.append(Ob('%s/lmi[%s].entries_are_documented' % (pre, lmi.name), 'unsat' if ok else 'sat', time.time() - t0, detail, model,
                          signature={'class': spec.cls, 'lmi': lmi.name}))
    ctx = dict(obj=obj, rec=rec, samples=samples, t_samples=t_samples, P=P, hyps=hyps, s0=s0, pre=pre)
    return obs, ctx


def variants_for(spec):
    if spec.needs_stationary:
        return ['stat-first', 'stat-last', 'stat-auto', 'stat-last+residue', 'stat-last+single', 'stat-last+samenames']
    return ['plain', 'plain+residue', 'plain+single', 'plain+samenames']


def check_all_classes(only=None):
    out, ctxs = [], []
    for name, spec in SPECS.items():
        if only and name not in only:
            continue
        for mode in spec.modes:
            for variant in variants_for(spec):
                try:
                    obs, ctx = check_class(spec, mode, variant)
                    out += obs
                    ctxs.append((spec, mode, variant, ctx))
                except Exception as e:
                    out.append(Ob('C04/%s[%s;%s]/execution' % (name, mode_label(mode), variant), 'error', 0,
                                  '%s: %s\n%s' % (type(e).__name__, e, traceback.format_exc()[-800:])))
    return out, ctxs
