"""Contract-level execution (DESIGN.md C.2): stand-ins that implement exactly the post-conditions proved for the
real operators (C06) -- and nothing of their bodies -- so that loop-free DSL code from /repo (class closures,
primitive steps, add_class_constraints call structure) can be run by CPython with fully symbolic coefficients.

A Point denotes a vector: SPoint = linear form over opaque base points with z3-real coefficients.
An Expression denotes a real: SExpr = affine form over Gram symbols ip(a,b) = ip(b,a), leaf values, and 1.
Because every operator contract is (bi)linear, this normal form decides equality "as functions of (G, F)"
monomial by monomial; what is left for the solver is rational real arithmetic in the class parameters.
"""
import itertools
from fractions import Fraction
import z3
from PEPit.point import Point
from PEPit.expression import Expression
from PEPit.constraint import Constraint

INF = float('inf')


def R(x):
    """python / symbolic scalar -> z3 real term (floats are taken as the exact rationals they are)"""
    if isinstance(x, SScalar):
        return x.term
    if isinstance(x, bool):
        raise TypeError('bool used as scalar')
    if isinstance(x, int):
        return z3.RealVal(x)
    if isinstance(x, float):
        f = Fraction(x)
        return z3.RealVal('%d/%d' % (f.numerator, f.denominator))
    if z3.is_expr(x):
        return x
    raise TypeError('not a scalar: %r' % (x,))


class BranchOnSymbolic(Exception):
    pass


class SScalar(float):
    """a python float carrying a z3 term (so that `isinstance(x, float)` tests of the DSL accept it).
    Comparisons needed by constructors for warnings are answered for the *generic* regime of the parameter
    (finite, non-zero, non-negative) and recorded as assumptions."""
    assumptions = []

    def __new__(cls, term):
        o = float.__new__(cls, float('nan'))
        o.term = term
        return o

    def _b(self, o, f):
        if isinstance(o, (Point, Expression)):
            return NotImplemented
        return SScalar(f(self.term, R(o)))

    def __add__(self, o): return self._b(o, lambda a, b: a + b)
    __radd__ = __add__
    def __sub__(self, o): return self._b(o, lambda a, b: a - b)
    def __rsub__(self, o): return self._b(o, lambda a, b: b - a)
    def __mul__(self, o): return self._b(o, lambda a, b: a * b)
    __rmul__ = __mul__
    def __truediv__(self, o): return self._b(o, lambda a, b: a / b)
    def __rtruediv__(self, o): return self._b(o, lambda a, b: b / a)
    def __neg__(self): return SScalar(-self.term)
    def __pos__(self): return self

    def __pow__(self, n):
        if n == 2:
            return SScalar(self.term * self.term)
        raise BranchOnSymbolic('power %r of a symbolic scalar' % (n,))

    def __eq__(self, o):
        if isinstance(o, float) and not isinstance(o, SScalar) and o in (INF, -INF):
            return False                          # generic regime: finite
        if isinstance(o, (int, float)) and not isinstance(o, SScalar) and o == 0:
            SScalar.assumptions.append(self.term != 0)
            return False                          # generic regime: non-zero (recorded)
        raise BranchOnSymbolic('== on a symbolic scalar')

    def __ne__(self, o):
        return not self.__eq__(o)

    def __lt__(self, o):
        if isinstance(o, (int, float)) and not isinstance(o, SScalar) and o == 0:
            SScalar.assumptions.append(self.term >= 0)
            return False
        if isinstance(o, float) and o == INF:
            return True
        raise BranchOnSymbolic('< on a symbolic scalar')

    def __le__(self, o):
        if isinstance(o, (int, float)) and not isinstance(o, SScalar) and o == 0:
            SScalar.assumptions.append(self.term > 0)
            return False
        raise BranchOnSymbolic('<= on a symbolic scalar')

    def __gt__(self, o):
        if isinstance(o, (int, float)) and not isinstance(o, SScalar) and o == 0:
            SScalar.assumptions.append(self.term > 0)
            return True
        raise BranchOnSymbolic('> on a symbolic scalar')

    def __ge__(self, o):
        if isinstance(o, (int, float)) and not isinstance(o, SScalar) and o == 0:
            SScalar.assumptions.append(self.term >= 0)
            return True
        raise BranchOnSymbolic('>= on a symbolic scalar')

    __hash__ = float.__hash__

    def __repr__(self):
        return 'S(%s)' % self.term


def is_scalar(o):
    return (isinstance(o, (int, float)) and not isinstance(o, bool))


class World:
    """fresh base symbols"""
    def __init__(self):
        self.n_points = 0
        self.n_exprs = 0
        self.created_points = []
        self.created_exprs = []

    def point(self, name=None):
        name = name or 'p%d' % self.n_points
        self.n_points += 1
        p = SPoint({name: z3.RealVal(1)}, leaf=name)
        self.created_points.append(p)
        return p

    def expr(self, name=None):
        name = name or 'e%d' % self.n_exprs
        self.n_exprs += 1
        e = SExpr({('f', name): z3.RealVal(1)}, leaf=name)
        self.created_exprs.append(e)
        return e


WORLD = World()


def new_world():
    global WORLD
    WORLD = World()
    SScalar.assumptions = []
    return WORLD


def _ck(c):
    return z3.simplify(c) if z3.is_expr(c) else R(c)


class SPoint(Point):
    """contract stand-in of PEPit.point.Point (a subclass only so that `isinstance(x, Point)` tests accept it;
    no method of the real class is inherited in use: every operator is redefined from its contract)"""
    def __init__(self, is_leaf=True, decomposition_dict=None, name=None, leaf=None, c=None):
        # constructor signature of the real class: Point() / Point(is_leaf=True, decomposition_dict=None) create a leaf
        if isinstance(is_leaf, dict):
            c, is_leaf = is_leaf, False
        if c is None and is_leaf and decomposition_dict is None and leaf is None:
            fresh = WORLD.point()
            c, leaf = fresh.c, fresh.leaf
            WORLD.created_points[-1] = self
        elif c is None and not is_leaf and decomposition_dict == dict():
            c = {}
        elif c is None:
            raise AssertionError('Point constructor arguments outside its contract')
        self.c = {k: v for k, v in c.items()}
        self.leaf = leaf
        self.name = name
        self._is_leaf = leaf is not None

    def get_is_leaf(self): return self._is_leaf
    def get_name(self): return self.name
    def set_name(self, name): self.name = name

    @property
    def decomposition_dict(self):
        """read-only view of the normal form (keys: base symbols), for code that inspects a decomposition"""
        return dict(self.c)

    def __add__(self, o):
        if not isinstance(o, SPoint):
            raise AssertionError('Point + non-Point')
        keys = list(self.c) + [k for k in o.c if k not in self.c]
        return SPoint({k: _ck(self.c.get(k, 0) + o.c.get(k, 0)) for k in keys})

    def __neg__(self):
        return SPoint({k: _ck(-v) for k, v in self.c.items()})

    def __sub__(self, o):
        if not isinstance(o, SPoint):
            raise AssertionError('Point - non-Point')
        return self + (-o)

    def __rmul__(self, o):
        if isinstance(o, SPoint):
            out = {}
            for (k, a), (l, b) in itertools.product(self.c.items(), o.c.items()):
                m = ('ip',) + tuple(sorted((k, l)))
                out[m] = _ck(out.get(m, 0) + a * b)
            return SExpr(out)
        if is_scalar(o):
            return SPoint({k: _ck(v * R(o)) for k, v in self.c.items()})
        raise TypeError('Point * foreign operand')

    __mul__ = __rmul__

    def __truediv__(self, d):
        if not is_scalar(d):
            raise TypeError('Point / foreign operand')
        return self.__rmul__(1 / d)

    def __pow__(self, n):
        if n != 2:
            raise AssertionError('Point ** n, n != 2')
        return self * self

    def __eq__(self, o): return self is o
    def __hash__(self): return id(self)

    def eval(self): raise ValueError('stand-in')

    def __repr__(self):
        return 'SPoint(%s)' % ', '.join('%s*%s' % (v, k) for k, v in self.c.items())


class SExpr(Expression):
    """contract stand-in of PEPit.expression.Expression"""
    def __init__(self, is_leaf=True, decomposition_dict=None, name=None, leaf=None, t=None):
        if isinstance(is_leaf, dict):
            t, is_leaf = is_leaf, False
        if t is None and is_leaf and decomposition_dict is None and leaf is None:
            fresh = WORLD.expr()
            t, leaf = fresh.t, fresh.leaf
            WORLD.created_exprs[-1] = self
        elif t is None and not is_leaf and isinstance(decomposition_dict, dict):
            t = {}
            for k, v in decomposition_dict.items():
                if k == 1 and not isinstance(k, Expression):
                    t['const'] = R(v)
                else:
                    raise AssertionError('Expression constructor arguments outside its contract')
        elif t is None:
            raise AssertionError('Expression constructor arguments outside its contract')
        self.t = dict(t)
        self.leaf = leaf
        self.name = name
        self._is_leaf = leaf is not None

    def get_is_leaf(self): return self._is_leaf
    def get_name(self): return self.name
    def set_name(self, name): self.name = name

    def _lin(self, o, a, b):
        if isinstance(o, SExpr):
            ot = o.t
        elif is_scalar(o):
            ot = {'const': R(o)}
        else:
            raise TypeError('Expression combined with a foreign operand')
        keys = list(self.t) + [k for k in ot if k not in self.t]
        return SExpr({k: _ck(a * self.t.get(k, 0) + b * ot.get(k, 0)) for k in keys})

    def __add__(self, o): return self._lin(o, 1, 1)
    __radd__ = __add__
    def __sub__(self, o): return self._lin(o, 1, -1)
    def __rsub__(self, o): return self._lin(o, -1, 1)
    def __neg__(self): return SExpr({k: _ck(-v) for k, v in self.t.items()})

    def __rmul__(self, o):
        if not is_scalar(o):
            raise AssertionError('Expression * non-scalar')
        return SExpr({k: _ck(v * R(o)) for k, v in self.t.items()})

    __mul__ = __rmul__

    def __truediv__(self, d):
        if not is_scalar(d):
            raise AssertionError('Expression / non-scalar')
        return self.__rmul__(1 / d)

    def __le__(self, o): return SConstraint(self._lin(o, 1, -1), 'inequality')
    __lt__ = __le__
    def __ge__(self, o): return SConstraint(self._lin(o, -1, 1), 'inequality')
    __gt__ = __ge__
    def __eq__(self, o): return SConstraint(self._lin(o, 1, -1), 'equality')
    def __hash__(self): return id(self)

    def eval(self): raise ValueError('stand-in')

    def coeff(self, m):
        return self.t.get(m, z3.RealVal(0))

    def __repr__(self):
        return 'SExpr(%s)' % ' + '.join('%s*%s' % (v, k) for k, v in self.t.items())


class SConstraint(Constraint):
    def __init__(self, expression, equality_or_inequality):
        assert equality_or_inequality in ('equality', 'inequality')
        self.expression, self.equality_or_inequality = expression, equality_or_inequality
        self.name = None
        self._value = None
        self._dual_variable_value = None
        self.counter = None

    def set_name(self, name): self.name = name
    def get_name(self): return self.name


def ip(a, b):
    return ('ip',) + tuple(sorted((a, b)))


def identical(e1, e2):
    """list of z3 equalities: e1 and e2 denote the same affine function of (G, F)"""
    keys = list(e1.t) + [k for k in e2.t if k not in e1.t]
    return [(k, e1.coeff(k) == e2.coeff(k)) for k in keys]


def evaluate(e, points, fvals):
    """value of an SExpr under an assignment: points[name] = tuple of z3 reals (a vector), fvals[name] = z3 real"""
    tot = z3.RealVal(0)
    for m, c in e.t.items():
        if m == 'const':
            tot = tot + c
        elif m[0] == 'f':
            tot = tot + c * fvals[m[1]]
        else:
            a, b = points[m[1]], points[m[2]]
            tot = tot + c * sum((x * y for x, y in zip(a, b)), z3.RealVal(0))
    return tot


def prove(hyps, goal, timeout_ms=20000):
    """returns (verdict, seconds, model or None): verdict 'unsat' = proved"""
    import time
    s = z3.Solver()
    s.set('timeout', timeout_ms)
    s.add(*hyps)
    s.add(z3.Not(goal))
    t0 = time.time()
    r = s.check()
    m = None
    if r == z3.sat:
        mm = s.model()
        m = {str(d): str(mm[d]) for d in mm.decls()}
    return str(r), time.time() - t0, m


from PEPit.block_partition import BlockPartition


class SPartition(BlockPartition):
    """contract stand-in of BlockPartition.get_block (C15): d-1 fresh leaves and `point - sum` as last block,
    the same objects on every later request; d = 1: the point's own combination"""
    def __init__(self, d):
        assert isinstance(d, int) and d >= 1
        self.d = d
        self.blocks = {}
        self.block_leaves = {}     # leaf base name -> (parent SPoint, block index)
        self.list_of_constraints = []
        self.blocks_dict = {}

    def get_nb_blocks(self): return self.d

    def get_block(self, point, block_number):
        assert isinstance(point, SPoint) and isinstance(block_number, int) and 0 <= block_number <= self.d - 1
        if id(point) not in self.blocks:
            parts, acc = [], SPoint({})
            for k in range(self.d - 1):
                b = WORLD.point('blk%d_%d' % (len(self.blocks), k))
                self.block_leaves[b.leaf] = (point, k)
                parts.append(b)
                acc = acc + b
            parts.append(point - acc)
            self.blocks[id(point)] = (point, parts)
        return self.blocks[id(point)][1][block_number]
