"""Run the REAL `add_class_constraints` of a shipped class on contract stand-ins and record what it generates."""
import importlib
import types
import numpy as np
import z3
from . import standins as S
from .standins import SPoint, SExpr, SConstraint, SScalar


class Sample:
    def __init__(self, x, g, f, role='ordinary'):
        self.x, self.g, self.f, self.role = x, g, f, role
        self.triplet = (x, g, f)


class Call:
    def __init__(self, kind, name, closure, l1, l2, symmetry):
        self.kind, self.name, self.closure, self.l1, self.l2, self.symmetry = kind, name, closure, l1, l2, symmetry


def load_class(modname, clsname):
    return getattr(importlib.import_module(modname), clsname)


def make_instance(RealClass, params, recorder):
    """an instance of a subclass of the real class whose Function-level helpers are replaced by their CONTRACTS
    (C04-a / C17: one constraint per admissible pair, appended in order; proved separately on the real helpers)"""

    class StandIn(RealClass):
        def add_constraints_from_two_lists_of_points(self, list_of_points_1, list_of_points_2, constraint_name,
                                                     set_class_constraint_i_j, symmetry=False):
            recorder.calls.append(Call('two', constraint_name, set_class_constraint_i_j, list_of_points_1, list_of_points_2, symmetry))
            for i, ti in enumerate(list_of_points_1):
                for j, tj in enumerate(list_of_points_2):
                    if ti is tj or (symmetry and i > j):
                        continue
                    c = set_class_constraint_i_j(*ti, *tj)
                    recorder.generated.append((constraint_name, ti, tj, c))
                    self.list_of_class_constraints.append(c)

        def add_constraints_from_one_list_of_points(self, list_of_points, constraint_name, set_class_constraint_i):
            recorder.calls.append(Call('one', constraint_name, set_class_constraint_i, list_of_points, None, False))
            for ti in list_of_points:
                c = set_class_constraint_i(*ti)
                recorder.generated.append((constraint_name, ti, None, c))
                self.list_of_class_constraints.append(c)

        def stationary_point(self, return_gradient_and_function_value=False, name=None):
            if RealClass.__dict__.get('stationary_point') is not None and self.list_of_stationary_points:
                return RealClass.stationary_point(self, return_gradient_and_function_value, name)
            x, g, f = S.WORLD.point('xs_auto'), SPoint({}), S.WORLD.expr('fs_auto')
            t = (x, g, f)
            self.list_of_points.append(t)
            self.list_of_stationary_points.append(t)
            recorder.auto_stationary.append(t)
            return (x, g, f) if return_gradient_and_function_value else x

    return StandIn(**params)


class Recorder:
    def __init__(self):
        self.calls, self.generated, self.auto_stationary = [], [], []


def run_class(modname, clsname, params, n_samples=3, with_stationary=False, stationary_pos='last', setup=None, residue=False):
    """returns (instance, recorder, samples)"""
    from PEPit.pep import PEP
    PEP()                      # reset the class-level registries the real constructors touch
    S.new_world()
    RealClass = load_class(modname, clsname)
    rec = Recorder()
    obj = make_instance(RealClass, params, rec)
    samples = []
    for i in range(n_samples):
        samples.append(Sample(S.WORLD.point('x%d' % i), S.WORLD.point('g%d' % i), S.WORLD.expr('f%d' % i)))
    stat = None
    if with_stationary:
        stat = Sample(S.WORLD.point('xs'), SPoint({}), S.WORLD.expr('fs'), role='stationary')
        if stationary_pos == 'first':
            samples.insert(0, stat)
        else:
            samples.append(stat)
    obj.list_of_points = [s.triplet for s in samples]
    obj.list_of_stationary_points = [stat.triplet] if stat else []
    obj.list_of_class_constraints = []
    obj.list_of_class_psd = []
    n_c = n_p = 0
    if residue:
        # what an earlier solve may have left behind: add_class_constraints must generate the same conditions regardless
        from PEPit.psd_matrix import PSDMatrix
        obj.list_of_class_constraints = [SConstraint(S.WORLD.expr('residue'), 'inequality')]
        obj.list_of_class_psd = [PSDMatrix([[S.WORLD.expr('residue_lmi')]])]
        obj.tables_of_constraints = {'residue': None}
        n_c, n_p = 1, 1
    if setup:
        setup(obj, samples)
    obj.add_class_constraints()
    obj.list_of_class_constraints = obj.list_of_class_constraints[n_c:]
    obj.list_of_class_psd = obj.list_of_class_psd[n_p:]
    return obj, rec, samples
