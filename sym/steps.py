"""C08: the 8 primitive steps, executed (real function objects from /repo, CPython) on contract stand-ins with symbolic
step sizes / accuracies, compared with the documented relations (DESIGN.md Appendix B.2, written independently)."""
import importlib
import time
import types
import traceback
import z3
from . import standins as S
from .standins import SPoint, SExpr, SConstraint, SScalar, identical, prove
from .classcheck import Ob, same_function


class SFunc:
    """contract stand-in of a (leaf) Function: records what a step does to it.
    oracle / value / gradient at a point return fresh leaves and record the triplet (contract of C07 for a new point)"""
    def __init__(self, name):
        self.name = name
        self.log = []            # ('add_point', triplet) | ('add_constraint', c) | ('oracle', x, g, f) | ('value', x, f)

    def get_name(self): return None
    # (parameter names are those of the real Function: a step may pass them by keyword)
    def add_point(self, triplet): self.log.append(('add_point', triplet))
    def add_constraint(self, constraint, name=None): self.log.append(('add_constraint', constraint))

    def oracle(self, point):
        g, f = S.WORLD.point(), S.WORLD.expr()
        self.log.append(('oracle', point, g, f))
        self.__dict__.setdefault('_known', []).append((point, g, f))
        return g, f

    def _is_already_evaluated_on_point(self, point):
        # part of the real interface a step might consult: answered from what this stand-in was asked before, and RECORDED (a step is documented to
        # record its samples whatever was evaluated earlier)
        self.log.append(('lookup', point))
        for (x, g, f) in self.__dict__.get('_known', []):
            if x is point:
                return g, f
        return None

    def __getattr__(self, attr):
        # anything else a step touches on the function (its lists, for instance) is recorded as an effect outside the documented interface
        if attr.startswith('__'):
            raise AttributeError(attr)
        fn = self

        class Logged(list):
            def append(self_, item):
                fn.log.append(('direct:' + attr, item))
                list.append(self_, item)
        v = Logged()
        self.__dict__[attr] = v
        return v

    def gradient(self, point, name=None): return self.oracle(point)[0]
    subgradient = gradient

    def value(self, point, name=None):
        f = S.WORLD.expr()
        self.log.append(('value', point, f))
        return f

    __call__ = value


def load_step(name):
    mod = importlib.import_module('PEPit.primitive_steps.' + name)
    f = getattr(mod, name)
    g = dict(f.__globals__)
    g['Point'], g['Expression'] = SPoint, SExpr
    return types.FunctionType(f.__code__, g, f.__name__, f.__defaults__, f.__closure__)


def pt_eq(p, q, hyps):
    keys = list(p.c) + [k for k in q.c if k not in p.c]
    goal = z3.And(*[S.R(p.c.get(k, 0)) == S.R(q.c.get(k, 0)) for k in keys]) if keys else z3.BoolVal(True)
    return prove(hyps, goal)


def half_sq(p):
    return 0.5 * (p * p)


class StepCheck:
    def __init__(self, step, variant=''):
        self.pre = 'C08/%s%s' % (step, ('[%s]' % variant) if variant else '')
        self.obs = []

    def ob(self, name, verdict, sec=0.0, detail='', model=None):
        self.obs.append(Ob('%s/%s' % (self.pre, name), verdict, sec, detail, model, signature={'step': self.pre[4:]}))

    def same_point(self, name, got, want, hyps, detail):
        v, s, m = pt_eq(got, want, hyps)
        self.ob(name, v, s, detail, m)

    def same_expr(self, name, got, want, hyps, detail):
        v, s, m = same_function(got, want, hyps)
        self.ob(name, v, s, detail, m)

    def exactly(self, name, got, want, detail):
        self.ob(name, 'unsat' if got == want else 'sat', 0.0, detail + (' (got %s, documented %s)' % (got, want) if got != want else ''))

    def constraint(self, name, c, want, sense, hyps, detail):
        if c.equality_or_inequality != sense:
            self.ob(name, 'sat', 0, '%s: sense %s, documented %s' % (detail, c.equality_or_inequality, sense))
            return
        v, s, m = same_function(c.expression, want, hyps)
        if v != 'unsat' and sense == 'equality':
            v, s, m = same_function(c.expression, -want, hyps)
        self.ob(name, v, s, detail, m)


def shape(log):
    return [e[0] for e in log if e[0] != 'lookup']          # a look-up changes nothing: not an effect


def check_steps():
    out = []
    for fn in (c_proximal, c_zero_step, c_inexact_gradient, c_linesearch, c_inexact_proximal, c_epsilon_subgradient,
               c_bregman_gradient, c_bregman_proximal, c_linear_optimization):
        try:
            out += fn()
        except Exception as e:
            out.append(Ob('C08/%s/execution' % fn.__name__[2:], 'error', 0, '%s: %s\n%s' % (type(e).__name__, e, traceback.format_exc()[-900:])))
    return out


def fresh():
    S.new_world()
    gamma = SScalar(z3.Real('gamma'))
    return gamma, [gamma.term > 0]


def c_proximal():
    gamma, hyps = fresh()
    step = load_step('proximal_step')
    f, x0 = SFunc('f'), S.WORLD.point('x0')
    x, gx, fx = step(x0, f, gamma)
    k = StepCheck('proximal_step')
    k.same_point('relation', x, x0 - gamma * gx, hyps, 'x = x0 - gamma g')
    k.exactly('records', shape(f.log), ['add_point'], 'exactly one sample recorded on f and nothing else')
    t = f.log[0][1] if f.log else (None, None, None)
    k.exactly('recorded_is_returned', (t[0] is x, t[1] is gx, t[2] is fx), (True, True, True), 'the recorded triplet is (x, g, fx): g is a subgradient AT x')
    k.exactly('fresh', (gx.leaf is not None and gx.leaf != x0.leaf, fx.leaf is not None), (True, True), 'g and fx are new leaves')
    return k.obs


def c_zero_step():
    """step sizes a symbolic (positive) step size never takes: exactly 0 (python int and float) and a negative number.  Whatever the value, each step records
    the same samples / side constraints as in the generic case and ties the returned objects by its documented relation."""
    out = []
    for label, gamma in (('int-zero', 0), ('float-zero', 0.0), ('negative', -1.5)):
        S.new_world()
        step = load_step('proximal_step')
        f, x0 = SFunc('f'), S.WORLD.point('x0')
        x, gx, fx = step(x0, f, gamma)
        k = StepCheck('proximal_step', label)
        k.same_point('relation', x, x0 - gamma * gx, [], 'x = x0 - gamma g')
        k.exactly('records', shape(f.log), ['add_point'], 'exactly one sample recorded on f and nothing else')
        t = f.log[0][1] if f.log else (None, None, None)
        k.exactly('recorded_is_returned', (t[0] is x, t[1] is gx, t[2] is fx), (True, True, True), 'the recorded triplet is (x, g, fx)')
        out += k.obs
        for notion in ('absolute', 'relative'):
            S.new_world()
            step = load_step('inexact_gradient_step')
            f, x0 = SFunc('f'), S.WORLD.point('x0')
            eps = SScalar(z3.Real('epsilon'))
            x, d, fx0 = step(x0, f, gamma, eps, notion=notion)
            k = StepCheck('inexact_gradient_step', '%s;%s' % (notion, label))
            k.exactly('records', shape(f.log), ['oracle', 'add_constraint'], 'one oracle call at x0 and one side constraint on f')
            k.same_point('relation', x, x0 - gamma * d, [], 'x = x0 - gamma d')
            out += k.obs
        S.new_world()
        step = load_step('epsilon_subgradient_step')
        f, x0 = SFunc('f'), S.WORLD.point('x0')
        x, g0, f0, eps = step(x0, f, gamma)
        k = StepCheck('epsilon_subgradient_step', label)
        k.exactly('records', sorted(shape(f.log)), sorted(['value', 'add_point', 'add_constraint']), 'value at x0, one sample, one side constraint')
        k.same_point('relation', x, x0 - gamma * g0, [], 'x = x0 - gamma g0')
        out += k.obs
        S.new_world()
        step = load_step('bregman_gradient_step')
        h = SFunc('h')
        gx0, sx0 = S.WORLD.point('gx0'), S.WORLD.point('sx0')
        x, sx, hx = step(gx0, sx0, h, gamma)
        k = StepCheck('bregman_gradient_step', label)
        k.same_point('relation', sx, sx0 - gamma * gx0, [], 'sx = sx0 - gamma gx0')
        k.exactly('records', shape(h.log), ['add_point'], 'one sample on the mirror map')
        out += k.obs
        S.new_world()
        step = load_step('bregman_proximal_step')
        h, f = SFunc('h'), SFunc('f')
        sx0 = S.WORLD.point('sx0')
        x, sx, hx, gx, fx = step(sx0, h, f, gamma)
        k = StepCheck('bregman_proximal_step', label)
        k.same_point('relation', sx, sx0 - gamma * gx, [], 'sx = sx0 - gamma gx')
        k.exactly('records', (shape(h.log), shape(f.log)), (['add_point'], ['add_point']), 'one sample on each function')
        out += k.obs
        for opt in ('PD_gapI', 'PD_gapII'):
            S.new_world()
            step = load_step('inexact_proximal_step')
            f, x0 = SFunc('f'), S.WORLD.point('x0')
            res = step(x0, f, gamma, opt=opt)
            k = StepCheck('inexact_proximal_step', '%s;%s' % (opt, label))
            want_shape = {'PD_gapI': ['add_point', 'add_point', 'add_constraint'], 'PD_gapII': ['add_point', 'add_constraint']}[opt]
            k.exactly('records', shape(f.log), want_shape, 'samples and one side constraint recorded on f')
            out += k.obs
    return out


def c_inexact_gradient():
    out = []
    for notion in ('absolute', 'relative'):
        gamma, hyps = fresh()
        eps = SScalar(z3.Real('epsilon'))
        step = load_step('inexact_gradient_step')
        f, x0 = SFunc('f'), S.WORLD.point('x0')
        x, d, fx0 = step(x0, f, gamma, eps, notion=notion)
        k = StepCheck('inexact_gradient_step', notion)
        k.exactly('records', shape(f.log), ['oracle', 'add_constraint'], 'one oracle call at x0 and one side constraint on f')
        if shape(f.log) == ['oracle', 'add_constraint']:
            _, xq, g, fq = f.log[0]
            c = f.log[1][1]
            k.exactly('oracle_at_x0', (xq is x0, fq is fx0), (True, True), 'the oracle is queried at x0 and its value is returned')
            k.same_point('relation', x, x0 - gamma * d, hyps, 'x = x0 - gamma d')
            k.exactly('direction_fresh', d.leaf is not None and d is not g, True, 'd is a new leaf')
            want = (g - d) ** 2 - eps ** 2 if notion == 'absolute' else (g - d) ** 2 - eps ** 2 * (g ** 2)
            k.constraint('constraint', c, want, 'inequality', hyps, '|g - d|^2 <= eps^2 (|g|^2)')
        out += k.obs
    # invalid notion: ValueError before any effect
    gamma, hyps = fresh()
    step = load_step('inexact_gradient_step')
    f, x0 = SFunc('f'), S.WORLD.point('x0')
    k = StepCheck('inexact_gradient_step', 'invalid-notion')
    try:
        step(x0, f, gamma, SScalar(z3.Real('epsilon')), notion='other')
        k.ob('raises', 'sat', 0, 'an unsupported notion is accepted')
    except ValueError:
        k.ob('raises', 'unsat', 0, 'ValueError')
        k.exactly('no_constraint_recorded', [e for e in shape(f.log) if e in ('add_constraint', 'add_point')], [], 'nothing is constrained before the error')
    except Exception as e:
        k.ob('raises', 'sat', 0, 'raises %s instead of ValueError' % type(e).__name__)
    return out + k.obs


def c_linesearch():
    out = []
    for nd in (0, 1, 3):
        gamma, hyps = fresh()
        step = load_step('exact_linesearch_step')
        f, x0 = SFunc('f'), S.WORLD.point('x0')
        a, b = S.WORLD.point('da'), S.WORLD.point('db')
        dirs = [a - b, a + b, 2 * a][:nd]          # directions sharing leaf points, with different coefficients
        given = list(dirs)
        x, gx, fx = step(x0, f, dirs)
        k = StepCheck('exact_linesearch_step', '%d directions' % nd)
        k.exactly('arguments_untouched', (len(dirs), all(a_ is b_ for a_, b_ in zip(dirs, given))), (len(given), True), 'the list of directions given by the caller is left as it was')
        dirs = given
        k.exactly('records', shape(f.log), ['oracle'] + ['add_constraint'] * (1 + nd), 'oracle at the new point, 1 + %d orthogonality constraints' % nd)
        if shape(f.log) == ['oracle'] + ['add_constraint'] * (1 + nd):
            _, xq, g, fq = f.log[0]
            k.exactly('oracle_at_x', (xq is x, g is gx, fq is fx, x.leaf is not None), (True, True, True, True), 'x is a new leaf, (gx, fx) its oracle output')
            cs = [e[1] for e in f.log[1:]]
            # (the order in which independent constraints are recorded is immaterial: each documented one is matched with a recorded one not yet used)
            for label, want, detail in [('constraint[x-x0]', (x - x0) * gx, '<x - x0, g> = 0')] + [('constraint[d%d]' % i, dvec * gx, '<d, g> = 0 for every direction') for i, dvec in enumerate(dirs)]:
                pick = 0
                for j, cand in enumerate(cs):
                    probe = StepCheck('probe')
                    probe.constraint('p', cand, want, 'equality', hyps, '')
                    if probe.obs[0].verdict == 'unsat':
                        pick = j
                        break
                k.constraint(label, cs[pick], want, 'equality', hyps, detail)
                cs = cs[:pick] + cs[pick + 1:]
        out += k.obs
    return out


def pd_gap(x0, gamma, x, fx, w, v, fw):
    """documented primal-dual gap  gamma f(x) + |x-x0|^2/2 + gamma f*(v) + |x0 - gamma v|^2/2 - |x0|^2/2, f*(v) = <v,w> - f(w)"""
    return gamma * fx + half_sq(x - x0) + gamma * (v * w - fw) + half_sq(x0 - gamma * v) - half_sq(x0)


def c_inexact_proximal():
    out = []
    for opt in ('PD_gapI', 'PD_gapII', 'PD_gapIII'):
        gamma, hyps = fresh()
        step = load_step('inexact_proximal_step')
        f, x0 = SFunc('f'), S.WORLD.point('x0')
        x, gx, fx, w, v, fw, eps = step(x0, f, gamma, opt=opt)
        k = StepCheck('inexact_proximal_step', opt)
        want_shape = {'PD_gapI': ['add_point', 'add_point', 'add_constraint'], 'PD_gapII': ['add_point', 'add_constraint'],
                      'PD_gapIII': ['add_point', 'add_point', 'add_constraint']}[opt]
        k.exactly('records', shape(f.log), want_shape, 'samples and one side constraint recorded on f')
        if shape(f.log) == want_shape:
            pts = [e[1] for e in f.log if e[0] == 'add_point']
            c = f.log[-1][1]
            has = lambda t: any(p[0] is t[0] and p[1] is t[1] and p[2] is t[2] for p in pts)
            k.exactly('samples', (has((x, gx, fx)), has((w, v, fw))), (True, True), '(x, g, fx) and (w, v, fw) are samples of f')
            k.exactly('eps_fresh', eps.leaf is not None, True, 'the accuracy is a new leaf expression')
            k.constraint('constraint', c, pd_gap(x0, gamma, x, fx, w, v, fw) - eps, 'inequality', hyps,
                         'the side constraint is the documented primal-dual gap <= eps')
            if opt == 'PD_gapII':
                k.exactly('relation', (w is x, v is gx, fw is fx), (True, True, True), 'w = x, v = g')
            if opt == 'PD_gapIII':
                k.same_point('relation', gamma * v, x0 - x, hyps, 'v = (x0 - x) / gamma')
        out += k.obs
    gamma, hyps = fresh()
    step = load_step('inexact_proximal_step')
    f, x0 = SFunc('f'), S.WORLD.point('x0')
    k = StepCheck('inexact_proximal_step', 'invalid-opt')
    try:
        step(x0, f, gamma, opt='PD_gapIV')
        k.ob('raises', 'sat', 0, 'an unsupported option is accepted')
    except ValueError:
        k.ob('raises', 'unsat', 0, 'ValueError')
        k.exactly('no_effect', shape(f.log), [], 'nothing is recorded before the error')
    except Exception as e:
        k.ob('raises', 'sat', 0, 'raises %s instead of ValueError' % type(e).__name__)
    return out + k.obs


def c_epsilon_subgradient():
    out = []
    for label in ('', 'f-already-sampled-at-x0'):
        out += _epsilon_subgradient(label)
    return out


def _epsilon_subgradient(label):
    gamma, hyps = fresh()
    step = load_step('epsilon_subgradient_step')
    f, x0 = SFunc('f'), S.WORLD.point('x0')
    if label:
        f.oracle(x0)            # the function was evaluated at x0 before the step (e.g. by an initial condition on f(x0))
        f.log.clear()
    x, g0, f0, eps = step(x0, f, gamma)
    k = StepCheck('epsilon_subgradient_step', label)
    k.exactly('records', sorted(shape(f.log)), sorted(['value', 'add_point', 'add_constraint']), 'value at x0, one sample, one side constraint')
    if sorted(shape(f.log)) == sorted(['value', 'add_point', 'add_constraint']):
        val = [e for e in f.log if e[0] == 'value'][0]
        y, gy, fy = [e for e in f.log if e[0] == 'add_point'][0][1]
        c = [e for e in f.log if e[0] == 'add_constraint'][0][1]
        k.exactly('value_at_x0', (val[1] is x0, val[2] is f0), (True, True), 'f0 = f(x0)')
        k.exactly('sample', (gy is g0, y.leaf is not None, y is not x0, fy.leaf is not None), (True, True, True, True), 'g0 is a subgradient at a new point y')
        k.same_point('relation', x, x0 - gamma * g0, hyps, 'x = x0 - gamma g0')
        k.constraint('constraint', c, f0 + (g0 * y - fy) - g0 * x0 - eps, 'inequality', hyps, 'f(x0) + f*(g0) - <g0, x0> <= eps')
    return k.obs


def c_bregman_gradient():
    gamma, hyps = fresh()
    step = load_step('bregman_gradient_step')
    h = SFunc('h')
    gx0, sx0 = S.WORLD.point('gx0'), S.WORLD.point('sx0')
    x, sx, hx = step(gx0, sx0, h, gamma)
    k = StepCheck('bregman_gradient_step')
    k.same_point('relation', sx, sx0 - gamma * gx0, hyps, 'sx = sx0 - gamma gx0')
    k.exactly('records', shape(h.log), ['add_point'], 'one sample on the mirror map')
    if h.log:
        t = h.log[0][1]
        k.exactly('recorded_is_returned', (t[0] is x, t[1] is sx, t[2] is hx, x.leaf is not None, hx.leaf is not None), (True,) * 5, '(x, sx, hx) on h')
    return k.obs


def c_bregman_proximal():
    gamma, hyps = fresh()
    step = load_step('bregman_proximal_step')
    h, f = SFunc('h'), SFunc('f')
    sx0 = S.WORLD.point('sx0')
    x, sx, hx, gx, fx = step(sx0, h, f, gamma)
    k = StepCheck('bregman_proximal_step')
    k.same_point('relation', sx, sx0 - gamma * gx, hyps, 'sx = sx0 - gamma gx')
    k.exactly('records', (shape(h.log), shape(f.log)), (['add_point'], ['add_point']), 'one sample on each function')
    if h.log and f.log:
        th, tf = h.log[0][1], f.log[0][1]
        k.exactly('on_mirror_map', (th[0] is x, th[1] is sx, th[2] is hx), (True,) * 3, '(x, sx, hx) on h')
        k.exactly('on_function', (tf[0] is x, tf[1] is gx, tf[2] is fx, gx.leaf is not None), (True,) * 4, '(x, gx, fx) on f with gx a new leaf')
    return k.obs


def c_linear_optimization():
    gamma, hyps = fresh()
    step = load_step('linear_optimization_step')
    ind = SFunc('ind')
    direction = S.WORLD.point('dir')
    x, gx, fx = step(direction, ind)
    k = StepCheck('linear_optimization_step')
    k.same_point('relation', gx, -direction, hyps, 'g = -dir (the direction is in the normal cone at x)')
    k.exactly('records', shape(ind.log), ['add_point'], 'one sample on the indicator')
    if ind.log:
        t = ind.log[0][1]
        k.exactly('recorded_is_returned', (t[0] is x, t[1] is gx, t[2] is fx, x.leaf is not None, fx.leaf is not None), (True,) * 5, '(x, g, fx) on ind')
    return k.obs


def replay_step(step_label):
    """concrete run of the REAL step on REAL objects: numeric step size, real leaf points; the relation is re-checked numerically"""
    import random
    try:
        from PEPit import PEP
        from PEPit.functions import ConvexFunction
        import PEPit.primitive_steps as ps
        from PEPit.tools.dict_operations import prune_dict
        name = step_label.split('[')[0]
        variant = step_label[len(name):].strip('[]')
        p = PEP()
        f = p.declare_function(ConvexFunction)
        h = p.declare_function(ConvexFunction)
        x0 = p.set_initial_point()
        gamma = 0.75
        info = {'step': name, 'variant': variant, 'gamma': gamma}

        def coeffs(pt):
            return {k.counter: v for k, v in prune_dict(pt.decomposition_dict).items()}
        if name == 'proximal_step':
            x, g, fx = ps.proximal_step(x0, f, gamma)
            want = coeffs(x0 - gamma * g)
            info.update(x=coeffs(x), documented=want, recorded_on_f=len(f.list_of_points))
            info['reproduced'] = coeffs(x) != want or len(f.list_of_points) != 1 or f.list_of_points[0][1] is not g
        elif name == 'inexact_gradient_step':
            x, d, fx0 = ps.inexact_gradient_step(x0, f, gamma, 0.5, notion=variant if variant in ('absolute', 'relative') else 'absolute')
            want = coeffs(x0 - gamma * d)
            info.update(x=coeffs(x), documented=want, constraints=len(f.list_of_constraints))
            info['reproduced'] = coeffs(x) != want or len(f.list_of_constraints) != 1
        else:
            info['reproduced'] = False
            info['note'] = 'no numeric replay for this step; the symbolic counter-model is attached'
        return info
    except Exception as e:
        return {'reproduced': False, 'replay_error': '%s: %s' % (type(e).__name__, e)}
