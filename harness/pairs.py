"""Bounded stand-in (never counted as proved) for the contract of the two generic helpers
Function.add_constraints_from_two_lists_of_points / ..._one_list_of_points and get_class_constraints_duals
(C04-a, C17): run-time contract on the REAL methods over an enumerated set of list shapes.

Contract (from the property text): for lists l1, l2 of samples, exactly one constraint Phi(l1[i], l2[j]) is appended to the
class constraints for every pair (i, j) unless the two triplets are THE SAME SAMPLE, or (symmetry) unless it is the mirrored
duplicate of a generated pair; order row-major; nothing else is appended; the table cell (i, j) holds that constraint or 0;
labels are the samples' names or Point_<position>; the constraint's name determines (function, condition, pair);
the dual table has the same shape / labels and its (i, j) cell is the multiplier of the (i, j) constraint or 0."""
import itertools
import random


def shapes(max_n=3):
    """(n_shared, n_only1, n_only2, arrangement seed): l1 and l2 are either the same list or two lists sharing some samples"""
    out = []
    for n in range(0, max_n + 1):
        out.append(('same', n, 0, 0))
    for shared in (0, 1, 2):
        for o1 in (0, 1):
            for o2 in (0, 1, 2):
                if shared + o1 + o2 and shared + o1 <= max_n and shared + o2 <= max_n + 1:
                    out.append(('two', shared, o1, o2))
    return out


def run_case(kind, shared, o1, o2, symmetry, named, rng, one_list=False, dup=False):
    from PEPit import PEP, Point, Expression, Constraint
    from PEPit.function import Function
    p = PEP()
    f = Function(is_leaf=True)
    if named:
        f.set_name('fun')

    def sample(tag):
        x = Point(name=(tag if named and rng.random() < 0.7 else None))
        return (x, Point(), Expression())

    S = [sample('s%d' % i) for i in range(shared)]
    if dup and len(S) >= 2:
        # a repeated evaluation at one point (non-differentiable class): a second SAMPLE with the same point object
        S[1] = (S[0][0], Point(), S[0][2])
    A = [sample('a%d' % i) for i in range(o1)]
    B = [sample('b%d' % i) for i in range(o2)]
    if kind == 'same':
        l1 = l2 = S
    else:
        l1, l2 = S + A, B + S
        rng.shuffle(l1)
        rng.shuffle(l2)
    calls = []

    def phi2(xi, gi, fi, xj, gj, fj):
        c = (fi - fj <= gj * (xi - xj))
        calls.append(((xi, gi, fi), (xj, gj, fj), c))
        return c

    def phi1(xi, gi, fi):
        c = (fi <= gi * xi)
        calls.append(((xi, gi, fi), None, c))
        return c

    pre = list(f.list_of_class_constraints)
    fails = []
    if one_list:
        f.add_constraints_from_one_list_of_points(l1, 'cond', phi1)
        want_pairs = [(i, None) for i in range(len(l1))]
    else:
        f.add_constraints_from_two_lists_of_points(l1, l2, 'cond', phi2, symmetry=symmetry)
        want_pairs = [(i, j) for i in range(len(l1)) for j in range(len(l2))
                      if l1[i] is not l2[j] and not (symmetry and i > j)]
    new = f.list_of_class_constraints[len(pre):]
    desc = dict(kind=kind, shared=shared, only1=o1, only2=o2, symmetry=symmetry, named=named, one_list=one_list, dup=dup,
                l1=[id(t) % 1000 for t in l1], l2=[id(t) % 1000 for t in l2])
    got_pairs = []
    for (ti, tj, c) in calls:
        i = [k for k, t in enumerate(l1) if t[0] is ti[0] and t[1] is ti[1] and t[2] is ti[2]][0]
        j = None if tj is None else [k for k, t in enumerate(l2) if t[0] is tj[0] and t[1] is tj[1] and t[2] is tj[2]][0]
        got_pairs.append((i, j))
    if got_pairs != want_pairs:
        missing = [q for q in want_pairs if q not in got_pairs]
        extra = [q for q in got_pairs if q not in want_pairs]
        fails.append(('pairs', 'generated pairs %s, required %s (missing %s, extra %s)' % (got_pairs, want_pairs, missing, extra)))
    if [c for (_, _, c) in calls] != list(new):
        fails.append(('appended', 'class constraints appended are not exactly the generated ones, in order'))
    # ---- table (C17)
    n1, n2 = (1, len(l1)) if one_list else (len(l1), len(l2))
    tab = f.tables_of_constraints.get('cond')
    if n1 * n2 == 0 or (not one_list and n1 == 0):
        return desc, fails
    if tab is None:
        fails.append(('table.exists', 'no table for the condition'))
        return desc, fails
    if tab.shape != (n1, n2):
        fails.append(('table.shape', 'shape %s, expected %s' % (tab.shape, (n1, n2))))
        return desc, fails
    cell = {}
    for (i, j), (_, _, c) in zip(got_pairs, calls):
        cell[(0, i) if one_list else (i, j)] = c
    names = set()
    for r in range(n1):
        for cidx in range(n2):
            v = tab.iloc[r, cidx]
            want = cell.get((r, cidx))
            if want is None:
                if isinstance(v, Constraint) or v != 0:
                    fails.append(('table.zero', 'cell (%d,%d) should be 0' % (r, cidx)))
            elif v is not want:
                fails.append(('table.cell', 'cell (%d,%d) is not the constraint generated for that pair' % (r, cidx)))
            else:
                if v.get_name() is None or (v.get_name() in names and not dup):
                    fails.append(('name.unique', 'constraint name %r missing or not unique' % v.get_name()))
                names.add(v.get_name())
    lab2 = [t[0].get_name() or 'Point_%d' % k for k, t in enumerate(l2 if not one_list else l1)]
    if list(tab.columns) != lab2:
        fails.append(('table.columns', 'columns %s, expected %s' % (list(tab.columns), lab2)))
    if not one_list:
        lab1 = [t[0].get_name() or 'Point_%d' % k for k, t in enumerate(l1)]
        if list(tab.index) != lab1:
            fails.append(('table.index', 'index %s, expected %s' % (list(tab.index), lab1)))
    # ---- dual table
    for k, (_, _, c) in enumerate(calls):
        c._dual_variable_value = 10.0 + k
    try:
        duals = f.get_class_constraints_duals().get('cond')
    except Exception as e:       # noqa
        fails.append(('duals.shape', 'get_class_constraints_duals raised %s: %s (a %d x %d table of constraints all holding a multiplier)' % (type(e).__name__, str(e)[:120], n1, n2)))
        return desc, fails
    if duals is None or duals.shape != tab.shape or list(duals.columns) != list(tab.columns) or list(duals.index) != list(tab.index):
        fails.append(('duals.shape', 'dual table missing or of different shape / labels'))
    else:
        for (r, cidx), c in cell.items():
            if abs(float(duals.iloc[r, cidx]) - c._dual_variable_value) > 1e-12:
                fails.append(('duals.cell', 'dual cell (%d,%d) is not the multiplier of that pair' % (r, cidx)))
        for r in range(n1):
            for cidx in range(n2):
                if (r, cidx) not in cell and float(duals.iloc[r, cidx]) != 0:
                    fails.append(('duals.zero', 'dual cell (%d,%d) should be 0' % (r, cidx)))
    return desc, fails


def enumerate_cases(seed, thorough=False):
    rng = random.Random(seed)
    cases = []
    for (kind, shared, o1, o2) in shapes(4 if thorough else 3):
        for symmetry in ((False, True) if kind == 'same' else (False,)):
            for named in (False, True):
                cases.append((kind, shared, o1, o2, symmetry, named, False))
        if kind == 'same':
            for named in (False, True):
                cases.append((kind, shared, o1, o2, False, named, True))
    out = []
    for c in cases:
        for rep in range(3 if c[0] == 'two' else 1):
            out.append((c + (False,), rng.randrange(10 ** 9)))
        if c[1] >= 2:
            out.append((c + (True,), rng.randrange(10 ** 9)))
    return out


def run_all(seed, thorough=False):
    """returns (n_cases, failures[list of dict])"""
    results = []
    cases = enumerate_cases(seed, thorough)
    for (kind, shared, o1, o2, symmetry, named, one, dup), s in cases:
        rng = random.Random(s)
        desc, fails = run_case(kind, shared, o1, o2, symmetry, named, rng, one_list=one, dup=dup)
        desc['case_seed'] = s
        if fails:
            results.append({'case': desc, 'failed': fails})
    return len(cases), results


def replay(case):
    rng = random.Random(case['case_seed'])
    return run_case(case['kind'], case['shared'], case['only1'], case['only2'], case['symmetry'], case['named'], rng,
                    one_list=case['one_list'], dup=case.get('dup', False))
