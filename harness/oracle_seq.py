"""Bounded stand-in for C07 (oracle bookkeeping): call sequences on REAL leaf and composite functions, with the representation
invariant I1-I3 of DESIGN.md 3.3 evaluated after every call.

I1  stored samples are pruned; the stationary list is the sub-list of samples with empty gradient
I2  per function, one function value per point (coefficient-wise), and one gradient per point if the function is differentiable
I3  for a weighted sum F = sum w_t t (zero weights dropped): every sample (x, g, f) of F is the same weighted sum of samples
    recorded at x for its terms
R   what a query returns is what was recorded: value(x) twice gives the same value; gradient(x) twice gives the same
    gradient for a differentiable function; a declared stationary point has zero gradient
"""
import itertools
import random


def pruned(d):
    return {k: v for k, v in d.items() if v != 0}


def same_coeffs(a, b, tol=1e-12):
    a, b = pruned(a), pruned(b)
    return set(a) == set(b) and all(abs(a[k] - b[k]) <= tol for k in a)


def comb(pairs):
    """sum of w * dict"""
    out = {}
    for w, d in pairs:
        for k, v in d.items():
            out[k] = out.get(k, 0) + w * v
    return out


class World:
    def __init__(self, layout):
        from PEPit import PEP
        from PEPit.functions import SmoothConvexFunction, ConvexFunction
        from PEPit.point import Point
        self.pep = PEP()
        self.f1 = self.pep.declare_function(SmoothConvexFunction, L=1.)      # differentiable (reuse_gradient)
        self.f2 = self.pep.declare_function(ConvexFunction)                   # not differentiable
        self.f3 = self.pep.declare_function(SmoothConvexFunction, L=2.)
        f1, f2, f3 = self.f1, self.f2, self.f3
        self.comps = {
            'sum': lambda: f1 + f2, 'weighted': lambda: 2 * f1 - 0.5 * f2, 'smooth_sum': lambda: f1 + f3,
            'zero_weight': lambda: f1 + 0 * f2, 'cancelling': lambda: f1 + f2 - f2, 'nested': lambda: (f1 + f2) + 3 * f3,
            'scaled_nested': lambda: 0.5 * (f1 + f3) + f2,
        }
        self.F = self.comps[layout]()
        self.layout = layout
        x0, x1 = Point(), Point()
        self.points = {'x0': x0, 'x1': x1, 'x0_again': x0 - x1 + x1, 'comb': x0 - 2 * x1, 'zero_a': x0 * 0, 'zero_b': x1 - x1}
        self.funcs = {'f1': f1, 'f2': f2, 'f3': f3, 'F': self.F}
        self.returns = []

    def leaf_weights(self, F):
        return {k: v for k, v in F.decomposition_dict.items() if v != 0}


ACTIONS = [(k, f, p) for k in ('oracle', 'gradient', 'value') for f in ('f1', 'f2', 'F') for p in ('x0', 'x0_again', 'comb', 'zero_a', 'zero_b')] + \
          [('stationary', f, None) for f in ('f1', 'f2', 'F')] + [('prox', f, 'x0') for f in ('f2', 'F')]


def do(w, action):
    kind, fname, pname = action
    f = w.funcs[fname]
    if kind == 'stationary':
        x = f.stationary_point()
        w.returns.append((action, x, None, None))
        return
    p = w.points[pname]
    if kind == 'oracle':
        g, v = f.oracle(p)
        w.returns.append((action, p, g, v))
    elif kind == 'gradient':
        g = f.gradient(p)
        w.returns.append((action, p, g, None))
    elif kind == 'value':
        v = f.value(p)
        w.returns.append((action, p, None, v))
    elif kind == 'prox':
        from PEPit.primitive_steps import proximal_step
        x, g, v = proximal_step(p, f, 0.5)
        w.returns.append((action, x, g, v))


def check(w, fails, after):
    for name, f in w.funcs.items():
        pts = f.list_of_points
        # I1
        for (x, g, v) in pts:
            for o in (x, g, v):
                if any(c == 0 for c in o.decomposition_dict.values()):
                    fails.append(('I1.pruned', '%s stores a sample with a zero coefficient' % name))
        stat = [t for t in pts if pruned(t[1].decomposition_dict) == {}]
        if len(stat) != len(f.list_of_stationary_points) or any(a is not b for a, b in zip(stat, f.list_of_stationary_points)):
            fails.append(('I1.stationary', '%s: stationary list is not the list of samples with zero gradient' % name))
        # I2
        for (a, b) in itertools.combinations(pts, 2):
            if same_coeffs(a[0].decomposition_dict, b[0].decomposition_dict):
                if not same_coeffs(a[2].decomposition_dict, b[2].decomposition_dict):
                    fails.append(('I2.one_value', '%s has two different function values at one point' % name))
                if f.reuse_gradient and not same_coeffs(a[1].decomposition_dict, b[1].decomposition_dict):
                    fails.append(('I2.one_gradient', 'differentiable %s has two different gradients at one point' % name))
    # I3 on the composite
    F = w.F
    wts = w.leaf_weights(F)
    for (x, g, v) in F.list_of_points:
        cands = []
        for t, wt in wts.items():
            here = [s for s in t.list_of_points if same_coeffs(s[0].decomposition_dict, x.decomposition_dict)]
            cands.append([(wt, s) for s in here])
        if any(len(c) == 0 for c in cands):
            fails.append(('I3.terms_sampled', 'a sample of the sum at a point where a term has no sample'))
            continue
        ok = False
        for sel in itertools.product(*cands):
            if same_coeffs(comb([(wt, s[1].decomposition_dict) for wt, s in sel]), g.decomposition_dict) and \
               same_coeffs(comb([(wt, s[2].decomposition_dict) for wt, s in sel]), v.decomposition_dict):
                ok = True
                break
        if not ok:
            fails.append(('I3.weighted_sum', 'a sample (gradient, value) of the sum is not the weighted sum of samples recorded at that point for its terms'))
    # R: returns
    by = {}
    for (action, x, g, v) in w.returns:
        kind, fname, pname = action
        f = w.funcs[fname]
        if kind == 'stationary':
            st = [t for t in f.list_of_points if t[0] is x]
            if not st or pruned(st[0][1].decomposition_dict) != {}:
                fails.append(('R.stationary', 'a declared stationary point of %s has a non-zero total gradient' % fname))
            continue
        if kind == 'prox':
            continue
        key = (fname, tuple(sorted((id(k), c) for k, c in pruned(x.decomposition_dict).items())))
        prev = by.get(key)
        if prev is not None:
            pg, pv = prev
            if v is not None and pv is not None and not same_coeffs(v.decomposition_dict, pv.decomposition_dict):
                fails.append(('R.same_value', '%s queried twice at one point returns two different values' % fname))
            if f.reuse_gradient and g is not None and pg is not None and not same_coeffs(g.decomposition_dict, pg.decomposition_dict):
                fails.append(('R.same_gradient', 'differentiable %s queried twice at one point returns two different gradients' % fname))
        by[key] = (g if g is not None else (prev[0] if prev else None), v if v is not None else (prev[1] if prev else None))
    return fails


def run_sequence(layout, seq):
    w = World(layout)
    fails = []
    for i, a in enumerate(seq):
        try:
            do(w, a)
        except ZeroDivisionError as e:
            fails.append(('exception', 'ZeroDivisionError in %s' % (a,)))
            break
        except Exception as e:
            fails.append(('exception', '%s in %s: %s' % (type(e).__name__, a, str(e)[:80])))
            break
        check(w, fails, a)
        if fails:
            break
    return fails


def sequences(seed, thorough=False):
    rng = random.Random(seed)
    out = []
    layouts = ['sum', 'weighted', 'smooth_sum', 'zero_weight', 'cancelling', 'nested', 'scaled_nested']
    for lay in layouts:
        for a in ACTIONS:
            out.append((lay, (a,)))
        pairs = list(itertools.product(ACTIONS, ACTIONS))
        rng.shuffle(pairs)
        for pr in pairs[:(len(pairs) if thorough else 250)]:
            out.append((lay, pr))
        for _ in range(400 if thorough else 60):
            out.append((lay, tuple(rng.choice(ACTIONS) for _ in range(rng.choice([3, 4])))))
    return out


def _task(t):
    lay, seq = t
    try:
        return t, run_sequence(lay, seq)
    except Exception as e:
        return t, [('harness-error', '%s: %s' % (type(e).__name__, e))]


def run_all(seed, thorough=False, jobs=16):
    import multiprocessing as mp
    seqs = sequences(seed, thorough)
    ctx = mp.get_context('fork')
    with ctx.Pool(jobs) as pool:
        res = pool.map(_task, seqs, chunksize=40)
    return len(seqs), [(t, f) for t, f in res if f]
