"""Bounded stand-in for C07 (oracle bookkeeping): call sequences on REAL leaf and composite functions, with the representation
invariant I1-I3 of DESIGN.md 3.3 evaluated after every call.

I1  stored samples are pruned; the stationary list is the sub-list of samples with empty gradient
I2  per function, one function value per point (coefficient-wise), and one gradient per point if the function is differentiable
I3  for a weighted sum F = sum w_t t (zero weights dropped): every sample (x, g, f) of F is the same weighted sum of samples
    recorded at x for its terms
R   what a query returns is what was recorded: value(x) twice gives the same value; gradient(x) twice gives the same
    gradient for a differentiable function; a declared stationary point has zero gradient
"""
import itertools
import random


def pruned(d):
    return {k: v for k, v in d.items() if v != 0}


def same_coeffs(a, b, tol=1e-12):
    a, b = pruned(a), pruned(b)
    return set(a) == set(b) and all(abs(a[k] - b[k]) <= tol for k in a)


def comb(pairs):
    """sum of w * dict"""
    out = {}
    for w, d in pairs:
        for k, v in d.items():
            out[k] = out.get(k, 0) + w * v
    return out


class World:
    def __init__(self, layout):
        from PEPit import PEP
        from PEPit.functions import SmoothConvexFunction, ConvexFunction
        from PEPit.point import Point
        self.pep = PEP()
        self.f1 = self.pep.declare_function(SmoothConvexFunction, L=1.)      # differentiable (reuse_gradient)
        self.f2 = self.pep.declare_function(ConvexFunction)                   # not differentiable
        self.f3 = self.pep.declare_function(SmoothConvexFunction, L=2.)
        f1, f2, f3 = self.f1, self.f2, self.f3
        self.comps = {
            'sum': lambda: f1 + f2, 'weighted': lambda: 2 * f1 - 0.5 * f2, 'smooth_sum': lambda: f1 + f3,
            'zero_weight': lambda: f1 + 0 * f2, 'cancelling': lambda: f1 + f2 - f2, 'nested': lambda: (f1 + f2) + 3 * f3,
            'scaled_nested': lambda: 0.5 * (f1 + f3) + f2,
        }
        self.F = self.comps[layout]()
        self.layout = layout
        x0, x1 = Point(), Point()
        self.points = {'x0': x0, 'x1': x1, 'x0_again': x0 - x1 + x1, 'comb': x0 - 2 * x1, 'zero_a': x0 * 0, 'zero_b': x1 - x1}
        self.funcs = {'f1': f1, 'f2': f2, 'f3': f3, 'F': self.F}
        self.returns = []

    def leaf_weights(self, F):
        return {k: v for k, v in F.decomposition_dict.items() if v != 0}


ACTIONS = [(k, f, p) for k in ('oracle', 'gradient', 'value') for f in ('f1', 'f2', 'F') for p in ('x0', 'x0_again', 'comb', 'zero_a', 'zero_b')] + \
          [('stationary', f, None) for f in ('f1', 'f2', 'F')] + [('prox', f, 'x0') for f in ('f2', 'F')] + \
          [('at_stationary', f, None) for f in ('f1', 'f2', 'F')] + [('fixed', f, None) for f in ('f1', 'F')] + [('prox0', f, p) for f in ('f1', 'f2', 'F') for p in ('x0', 'comb')]


def do(w, action):
    kind, fname, pname = action
    f = w.funcs[fname]
    if kind == 'stationary':
        x = f.stationary_point()
        w.returns.append((action, x, None, None))
        return
    if kind == 'at_stationary':
        # query the function again AT a declared stationary point (declared now if there is none yet)
        if not f.list_of_stationary_points:
            f.stationary_point()
        xs = f.list_of_stationary_points[-1][0]
        g, v = f.oracle(xs)
        w.returns.append((('oracle', fname, None), xs, g, v))
        return
    if kind == 'fixed':
        x, gx, fx = f.fixed_point()
        w.returns.append((action, x, gx, fx))
        return
    p = w.points[pname]
    if kind == 'prox0':
        from PEPit.primitive_steps import proximal_step
        x, g, v = proximal_step(p, f, 0 if pname == 'x0' else 0.)       # a step of size exactly 0 (int / float): still an evaluation of f at the returned point
        w.returns.append((action, x, g, v))
        return
    if kind == 'oracle':
        g, v = f.oracle(p)
        w.returns.append((action, p, g, v))
    elif kind == 'gradient':
        g = f.gradient(p)
        w.returns.append((action, p, g, None))
    elif kind == 'value':
        v = f.value(p)
        w.returns.append((action, p, None, v))
    elif kind == 'prox':
        from PEPit.primitive_steps import proximal_step
        x, g, v = proximal_step(p, f, 0.5)
        w.returns.append((action, x, g, v))


def check(w, fails, after):
    for name, f in w.funcs.items():
        pts = f.list_of_points
        # I1
        for (x, g, v) in pts:
            for o in (x, g, v):
                if any(c == 0 for c in o.decomposition_dict.values()):
                    fails.append(('I1.pruned', '%s stores a sample with a zero coefficient' % name))
        stat = [t for t in pts if pruned(t[1].decomposition_dict) == {}]
        if len(stat) != len(f.list_of_stationary_points) or any(a is not b for a, b in zip(stat, f.list_of_stationary_points)):
            fails.append(('I1.stationary', '%s: stationary list is not the list of samples with zero gradient' % name))
        # I2
        for (a, b) in itertools.combinations(pts, 2):
            if same_coeffs(a[0].decomposition_dict, b[0].decomposition_dict):
                if not same_coeffs(a[2].decomposition_dict, b[2].decomposition_dict):
                    fails.append(('I2.one_value', '%s has two different function values at one point' % name))
                if f.reuse_gradient and not same_coeffs(a[1].decomposition_dict, b[1].decomposition_dict):
                    fails.append(('I2.one_gradient', 'differentiable %s has two different gradients at one point' % name))
        # I4: on a LEAF function every sample at a new point brings its own value variable (two different points never share one value leaf)
        if name != 'F':
            for (a, b) in itertools.combinations(pts, 2):
                if not same_coeffs(a[0].decomposition_dict, b[0].decomposition_dict) and a[2] is b[2]:
                    fails.append(('I4.own_value', '%s: samples at two different points share one function-value object' % name))
    # I3 on the composite
    F = w.F
    wts = w.leaf_weights(F)
    for (x, g, v) in F.list_of_points:
        cands = []
        for t, wt in wts.items():
            here = [s for s in t.list_of_points if same_coeffs(s[0].decomposition_dict, x.decomposition_dict)]
            cands.append([(wt, s) for s in here])
        if any(len(c) == 0 for c in cands):
            fails.append(('I3.terms_sampled', 'a sample of the sum at a point where a term has no sample'))
            continue
        ok = False
        for sel in itertools.product(*cands):
            if same_coeffs(comb([(wt, s[1].decomposition_dict) for wt, s in sel]), g.decomposition_dict) and \
               same_coeffs(comb([(wt, s[2].decomposition_dict) for wt, s in sel]), v.decomposition_dict):
                ok = True
                break
        if not ok:
            fails.append(('I3.weighted_sum', 'a sample (gradient, value) of the sum is not the weighted sum of samples recorded at that point for its terms'))
    # R: returns
    by = {}
    for (action, x, g, v) in w.returns:
        kind, fname, pname = action
        f = w.funcs[fname]
        if kind == 'stationary':
            st = [t for t in f.list_of_points if t[0] is x]
            if not st or pruned(st[0][1].decomposition_dict) != {}:
                fails.append(('R.stationary', 'a declared stationary point of %s has a non-zero total gradient' % fname))
            elif fname == 'f2':
                by[(fname, tuple(sorted((id(k), c) for k, c in pruned(x.decomposition_dict).items())))] = (st[0][1], st[0][2])     # the null gradient recorded there
            continue
        if kind in ('prox', 'prox0', 'fixed'):
            # the returned triple is a sample recorded on the function (the returned gradient / value ARE those of f at the returned point)
            if not any(t[1] is g and t[2] is v and same_coeffs(t[0].decomposition_dict, x.decomposition_dict) for t in f.list_of_points):
                fails.append(('R.recorded', 'the triple returned by %s on %s is not a recorded sample of that function' % (kind, fname)))
            if kind == 'fixed' and not same_coeffs(g.decomposition_dict, x.decomposition_dict):
                fails.append(('R.fixed', 'fixed_point of %s returns an image different from the point' % fname))
            continue
        key = (fname, tuple(sorted((id(k), c) for k, c in pruned(x.decomposition_dict).items())))
        prev = by.get(key)
        if prev is not None:
            pg, pv = prev
            if fname == 'f2' and g is not None and pg is not None and g is pg:
                # a non-differentiable LEAF function gives a new subgradient at every query (also at a minimiser, where 0 is only ONE of its subgradients)
                fails.append(('R.new_subgradient', 'non-differentiable %s queried twice at one point returns the same gradient object' % fname))
            if v is not None and pv is not None and not same_coeffs(v.decomposition_dict, pv.decomposition_dict):
                fails.append(('R.same_value', '%s queried twice at one point returns two different values' % fname))
            if f.reuse_gradient and g is not None and pg is not None and not same_coeffs(g.decomposition_dict, pg.decomposition_dict):
                fails.append(('R.same_gradient', 'differentiable %s queried twice at one point returns two different gradients' % fname))
        by[key] = (g if g is not None else (prev[0] if prev else None), v if v is not None else (prev[1] if prev else None))
    return fails


def run_sequence(layout, seq):
    w = World(layout)
    fails = []
    for i, a in enumerate(seq):
        try:
            do(w, a)
        except ZeroDivisionError as e:
            fails.append(('exception', 'ZeroDivisionError in %s' % (a,)))
            break
        except Exception as e:
            fails.append(('exception', '%s in %s: %s' % (type(e).__name__, a, str(e)[:80])))
            break
        check(w, fails, a)
        if fails:
            break
    return fails


def zero_step_first(seq):
    """A proximal step of size exactly 0 lands on its starting point and records a sample there whatever was recorded before (the step does not look the
    point up): after an earlier evaluation at that point the function then holds two value variables for one point, which only the class constraints tie
    together.  That corner is a deliberate property of the steps (they always record, C08) and is not what this check is about: zero-size steps are
    exercised as the FIRST call of a sequence only (nothing recorded before; later calls must find and reuse what the step recorded)."""
    return all(a[0] != 'prox0' for a in seq[1:])


def sequences(seed, thorough=False):
    rng = random.Random(seed)
    out = []
    layouts = ['sum', 'weighted', 'smooth_sum', 'zero_weight', 'cancelling', 'nested', 'scaled_nested']
    for lay in layouts:
        for a in ACTIONS:
            out.append((lay, (a,)))
        pairs = [pr for pr in itertools.product(ACTIONS, ACTIONS) if zero_step_first(pr)]
        rng.shuffle(pairs)
        for pr in pairs[:(len(pairs) if thorough else 300)]:
            out.append((lay, pr))
        n = 0
        while n < (400 if thorough else 70):
            sq = tuple(rng.choice(ACTIONS) for _ in range(rng.choice([3, 4])))
            if zero_step_first(sq):
                out.append((lay, sq))
                n += 1
    return out


def _task(t):
    lay, seq = t
    try:
        return t, run_sequence(lay, seq)
    except Exception as e:
        return t, [('harness-error', '%s: %s' % (type(e).__name__, e))]


def run_all(seed, thorough=False, jobs=16):
    import multiprocessing as mp
    seqs = sequences(seed, thorough)
    ctx = mp.get_context('fork')
    with ctx.Pool(jobs) as pool:
        res = pool.map(_task, seqs, chunksize=40)
    return len(seqs), [(t, f) for t, f in res if f]


# ------------------------------------------------------------------------------------------------ differentiability flag of every shipped class
REQUIRED = {'L': 2., 'mu': .5, 'M': 1., 'beta': .5, 'rho': .5, 'D': 1.}


def constructor_flags():
    """every shipped function / operator class, declared through PEP.declare_function: the differentiability flag asked for is the one the function carries
    (explicit True / explicit default / omitted), and the name is the one given.  Expectations come from the class's own signature."""
    import inspect
    import PEPit.functions as F
    import PEPit.operators as O
    from PEPit import PEP
    fails, n = [], 0
    for mod in (F, O):
        for cname in sorted(dir(mod)):
            cls = getattr(mod, cname)
            if not inspect.isclass(cls):
                continue
            sig = inspect.signature(cls.__init__)
            if 'reuse_gradient' not in sig.parameters:
                continue
            default = sig.parameters['reuse_gradient'].default
            pep = PEP()
            kw = {k: REQUIRED[k] for k, p in sig.parameters.items() if p.default is inspect._empty and k in REQUIRED}
            if 'partition' in sig.parameters:
                kw['partition'] = pep.declare_block_partition(d=2)
                kw['L'] = [1., 2.]
            for given in ('omitted', True, default):
                args = dict(kw) if given == 'omitted' else dict(kw, reuse_gradient=given)
                want = default if given == 'omitted' else given
                try:
                    f = pep.declare_function(cls, name='fn', **args)
                except Exception as e:       # noqa
                    fails.append(('flag.constructor', '%s(%s) raised %s' % (cname, args, type(e).__name__)))
                    continue
                n += 1
                if bool(f.reuse_gradient) != bool(want):
                    fails.append(('flag.reuse_gradient', '%s declared with reuse_gradient=%s carries reuse_gradient=%r' % (cname, given, f.reuse_gradient)))
                if f.get_name() != 'fn':
                    fails.append(('flag.name', '%s declared with a name carries the name %r' % (cname, f.get_name())))
                if given is True and f.reuse_gradient:
                    # a differentiable function returns the same gradient at the same point
                    from PEPit import Point
                    x = Point()
                    g1, g2 = f.gradient(x), f.gradient(x)
                    if g1 is not g2 and g1.decomposition_dict != g2.decomposition_dict:
                        fails.append(('flag.same_gradient', '%s declared differentiable returns two gradients at one point' % cname))
    return n, fails
