"""C06, bounded stand-in: every Python-level SPELLING of the algebra (binary, reflected, unary, AUGMENTED assignment, comparisons) on
seeded real Point / Expression objects, against the coefficient-level specification:
    - the result denotes what was written (coefficient map, linear in each operand, symmetrised for inner products),
    - the operands denote after the operation what they denoted before (also through an alias of the left operand of `op=`),
    - the result shares no decomposition dict with an operand that remains reachable.
The per-method contracts (proved) cover the methods that exist; this harness is what notices a NEW spelling handled by new code
(e.g. an in-place `__imul__`), which Python would dispatch to before the contracted method."""
import random

from pyvc import gen


def coeffs(obj):
    """canonical coefficient map of a Point / Expression: leaf -> c, 'one' -> c, unordered leaf pair -> symmetrised c; zeros dropped"""
    out = {}
    for k, v in obj.decomposition_dict.items():
        if isinstance(k, tuple):
            a, b = sorted((k[0].counter, k[1].counter))
            key = ('pair', a, b)
        elif hasattr(k, 'decomposition_dict'):
            key = ('leaf', type(k).__name__, k.counter)
        else:
            key = ('one',)
        out[key] = out.get(key, 0.0) + float(v)
    return {k: v for k, v in out.items() if v != 0}


def lin(*terms):
    out = {}
    for c, m in terms:
        for k, v in m.items():
            out[k] = out.get(k, 0.0) + c * v
    return {k: v for k, v in out.items() if v != 0}


def inner(pa, pb):
    out = {}
    for (_, _, i), a in pa.items():
        for (_, _, j), b in pb.items():
            key = ('pair',) + tuple(sorted((i, j)))
            out[key] = out.get(key, 0.0) + a * b
    return {k: v for k, v in out.items() if v != 0}


def same(m1, m2):
    ks = set(m1) | set(m2)
    return all(abs(m1.get(k, 0.0) - m2.get(k, 0.0)) <= 1e-12 * (1 + abs(m1.get(k, 0.0))) for k in ks)


ONE = lambda c: {('one',): float(c)} if c != 0 else {}


def forms(w, rng):
    """yield (label, thunk, operands, expected coefficient map or ('constraint', map, sense))"""
    p, q = w.point(), w.point()
    e, g = w.expression(), w.expression()
    c = rng.choice([-2, -0.5, 0.25, 1, 2, 3, 0, 1.5])
    d = rng.choice([-2, 0.5, 4, 1, -1])
    P, Q, E, G = coeffs(p), coeffs(q), coeffs(e), coeffs(g)

    def aug(x, op, y):
        def run():
            t = x                       # an alias: `t op= y` must not change what x denotes
            if op == '+': t += y
            elif op == '-': t -= y
            elif op == '*': t *= y
            else: t /= y
            return t
        return run
    yield 'p + q', lambda: p + q, [p, q], lin((1, P), (1, Q))
    yield 'p - q', lambda: p - q, [p, q], lin((1, P), (-1, Q))
    yield '-p', lambda: -p, [p], lin((-1, P))
    yield 'c * p', lambda: c * p, [p], lin((c, P))
    yield 'p * c', lambda: p * c, [p], lin((c, P))
    yield 'p / d', lambda: p / d, [p], lin((1.0 / d, P))
    yield 'p * q', lambda: p * q, [p, q], inner(P, Q)
    yield 'p ** 2', lambda: p ** 2, [p], inner(P, P)
    yield 't = p; t += q', aug(p, '+', q), [p, q], lin((1, P), (1, Q))
    yield 't = p; t -= q', aug(p, '-', q), [p, q], lin((1, P), (-1, Q))
    yield 't = p; t *= c', aug(p, '*', c), [p], lin((c, P))
    yield 't = p; t /= d', aug(p, '/', d), [p], lin((1.0 / d, P))
    yield 'e + g', lambda: e + g, [e, g], lin((1, E), (1, G))
    yield 'e - g', lambda: e - g, [e, g], lin((1, E), (-1, G))
    yield 'e + c', lambda: e + c, [e], lin((1, E), (1, ONE(c)))
    yield 'c + e', lambda: c + e, [e], lin((1, E), (1, ONE(c)))
    yield 'e - c', lambda: e - c, [e], lin((1, E), (-1, ONE(c)))
    yield 'c - e', lambda: c - e, [e], lin((-1, E), (1, ONE(c)))
    yield '-e', lambda: -e, [e], lin((-1, E))
    yield 'c * e', lambda: c * e, [e], lin((c, E))
    yield 'e * c', lambda: e * c, [e], lin((c, E))
    yield 'e / d', lambda: e / d, [e], lin((1.0 / d, E))
    yield 't = e; t += g', aug(e, '+', g), [e, g], lin((1, E), (1, G))
    yield 't = e; t -= c', aug(e, '-', c), [e], lin((1, E), (-1, ONE(c)))
    yield 't = e; t *= c', aug(e, '*', c), [e], lin((c, E))
    yield 't = e; t /= d', aug(e, '/', d), [e], lin((1.0 / d, E))
    for lab, fn, m, sense in (
            ('e <= g', lambda: e <= g, lin((1, E), (-1, G)), 'inequality'), ('e < g', lambda: e < g, lin((1, E), (-1, G)), 'inequality'),
            ('e >= g', lambda: e >= g, lin((-1, E), (1, G)), 'inequality'), ('e > g', lambda: e > g, lin((-1, E), (1, G)), 'inequality'),
            ('e == g', lambda: e == g, lin((1, E), (-1, G)), 'equality'),
            ('e <= c', lambda: e <= c, lin((1, E), (-1, ONE(c))), 'inequality'), ('e >= c', lambda: e >= c, lin((-1, E), (1, ONE(c))), 'inequality'),
            ('e > c', lambda: e > c, lin((-1, E), (1, ONE(c))), 'inequality'), ('e < c', lambda: e < c, lin((1, E), (-1, ONE(c))), 'inequality'),
            ('c <= e', lambda: c <= e, lin((-1, E), (1, ONE(c))), 'inequality'), ('c >= e', lambda: c >= e, lin((1, E), (-1, ONE(c))), 'inequality'),
            ('c < e', lambda: c < e, lin((-1, E), (1, ONE(c))), 'inequality'), ('c > e', lambda: c > e, lin((1, E), (-1, ONE(c))), 'inequality'),
            ('e == c', lambda: e == c, lin((1, E), (-1, ONE(c))), 'equality')):
        yield lab, fn, [e, g], ('constraint', m, sense)


def foreign_forms(w, rng):
    """spellings that combine kinds the algebra does not define (scalar +- point, point +- expression, products / quotients of the wrong kinds, a
    complex / string / None factor, division by zero): each must raise, never return an object with another meaning"""
    p, q = w.point(), w.point()
    e, g = w.expression(), w.expression()
    c = rng.choice([1, 2.5, -1, 0.5])
    return [
        ('c + p', lambda: c + p), ('p + c', lambda: p + c), ('c - p', lambda: c - p), ('p - c', lambda: p - c),
        ('p + e', lambda: p + e), ('e + p', lambda: e + p), ('p - e', lambda: p - e), ('e - p', lambda: e - p),
        ('p / q', lambda: p / q), ('c / p', lambda: c / p), ('e * g', lambda: e * g), ('e * p', lambda: e * p), ('p * e', lambda: p * e),
        ('e / g', lambda: e / g), ('c / e', lambda: c / e), ('e ** 2', lambda: e ** 2), ('p <= q', lambda: p <= q), ('p <= c', lambda: p <= c),
        ('p ** 3', lambda: p ** 3), ('e <= p', lambda: e <= p), ('p / 0', lambda: p / 0), ('e / 0', lambda: e / 0),
        ("p * 'a'", lambda: p * 'a'), ('p * None', lambda: p * None), ('e + None', lambda: e + None), ("e * 'a'", lambda: e * 'a'),
        ('p * 1j', lambda: p * 1j), ('e * 1j', lambda: e * 1j), ('1j * e', lambda: 1j * e), ('e / 2j', lambda: e / 2j),
        ('t = p; t += c', lambda: _aug_add(p, c)), ('t = e; t += p', lambda: _aug_add(e, p)),
    ]


def _aug_add(x, y):
    t = x
    t += y
    return t


def run_once(seed, n):
    """returns (evaluations, failures); a failure is (label, clause, text, seed)"""
    fails, evals = [], 0
    for it in range(n):
        rng = random.Random('%s|%s' % (seed, it))
        w = gen.World(rng)
        for label, thunk, operands, want in forms(w, rng):
            before = [(coeffs(o), id(o.decomposition_dict)) for o in operands]
            try:
                res = thunk()
            except Exception as ex:
                fails.append((label, 'raises', '%s raised %s: %s' % (label, type(ex).__name__, str(ex)[:80]), (seed, it)))
                continue
            evals += 1
            for o, (m0, d0) in zip(operands, before):
                if not same(coeffs(o), m0):
                    fails.append((label, 'operand_unchanged', 'after `%s` an operand denotes %r, before %r' % (label, coeffs(o), m0), (seed, it)))
                    break
            if isinstance(want, tuple):
                _, m, sense = want
                ok = res.equality_or_inequality == sense and (same(coeffs(res.expression), m) or (sense == 'equality' and same(coeffs(res.expression), lin((-1, m)))))
                if not ok:
                    fails.append((label, 'denotes', '`%s` gives the constraint %r %s 0, written: %r %s 0' % (
                        label, coeffs(res.expression), res.equality_or_inequality, m, sense), (seed, it)))
                continue
            if not same(coeffs(res), want):
                fails.append((label, 'denotes', '`%s` denotes %r, written: %r' % (label, coeffs(res), want), (seed, it)))
            if not res._is_leaf and any(res.decomposition_dict is o.decomposition_dict for o in operands if o is not res):
                fails.append((label, 'no_shared_dict', 'the result of `%s` shares its decomposition dict with an operand' % label, (seed, it)))
        if it % 4 == 0:
            for label, thunk in foreign_forms(w, rng):
                evals += 1
                try:
                    res = thunk()
                    fails.append((label, 'foreign_raises', '`%s` is not defined by the algebra and must raise; it returned a %s' % (label, type(res).__name__), (seed, it)))
                except Exception:       # noqa
                    pass
    return evals, fails


def component(run, n_quick=40, n_thorough=400):
    n = n_quick if run.tier == 'quick' else n_thorough
    evals, fails = run_once(run.seed, n)
    seen = set()
    for label, clause, text, where in fails:
        if (label, clause) in seen:
            continue
        seen.add((label, clause))
        run.violation('C06/op-forms/%s[%s]' % (clause, label), text,
                      replay={'kind': 'op-forms', 'seed': where[0], 'iteration': where[1], 'form': label, 'clause': clause, 'observed': text},
                      signature={'form': label, 'clause': clause}, reproduced=True)
    run.bounded['operator-forms'] = {'evaluations': evals, 'failing': len(fails),
                                     'rule': '%d seeded worlds x 40 spellings (binary, reflected, unary, augmented assignment through an alias, comparisons with '
                                             'either operand a scalar) on real Point / Expression objects: result denotes what is written, operands unchanged, no shared dict; '
                                             '32 spellings over kinds the algebra does not define must raise' % n}


def replay(rec):
    evals, fails = run_once(rec['seed'], rec['iteration'] + 1)
    return [f for f in fails if f[0] == rec['form'] and f[1] == rec['clause']]
