"""wiring of the bounded stand-ins into property runs (always reported under coverage.bounded, never as discharged obligations)"""


def pair_helpers(run, clauses=None, label='pair-helpers'):
    """clauses: restrict to failing-clause prefixes relevant for the property (C04: 'pairs', 'appended'; C17: table / name / duals)"""
    from . import pairs
    n, res = pairs.run_all(run.seed, thorough=run.tier != 'quick')
    shown = 0
    kept = 0
    for r in res:
        fl = [f for f in r['failed'] if clauses is None or any(f[0].startswith(c) for c in clauses)]
        if not fl:
            continue
        kept += 1
        if shown >= 1:
            continue
        shown += 1
        fn = 'add_constraints_from_one_list_of_points' if r['case']['one_list'] else 'add_constraints_from_two_lists_of_points'
        run.violation('PEPit/function.py::Function.%s/runtime.%s' % (fn, fl[0][0]),
                      '%s on lists %s / %s (symmetry=%s): %s' % (fn, r['case']['l1'], r['case']['l2'], r['case']['symmetry'], fl[0][1]),
                      replay={'kind': 'pairs-case', 'case': r['case'], 'observed': fl, 'failing_cases_in_this_run': len(res)},
                      signature={'function': fn, 'clause': fl[0][0], 'lists': 'different' if r['case']['kind'] == 'two' else 'same'},
                      reproduced=True)
    run.bounded[label] = {'evaluations': n, 'failing': kept, 'exhaustive': True,
                          'rule': 'all list shapes with <= %d samples per list (same list, or two lists sharing 0-2 samples in shuffled positions), '
                                  'symmetry on/off, named/unnamed points and function; run-time contract of the two helpers and of '
                                  'get_class_constraints_duals on the real methods' % (4 if run.tier != 'quick' else 3),
                          'summary': '%d list shapes, %d violate the helper contract' % (n, kept)}


def replay_pairs(rec, pid, path):
    from . import pairs
    desc, fails = pairs.replay(rec['case'])
    print('case:', rec['case'])
    print('failed clauses:', fails)
    if fails:
        print('VIOLATION property=%s replay=%s' % (pid, path))
        return 1
    print('not reproduced on the current tree')
    return 0
