"""wiring of the bounded stand-ins into property runs (always reported under coverage.bounded, never as discharged obligations)"""


def pair_helpers(run, clauses=None, label='pair-helpers'):
    """clauses: restrict to failing-clause prefixes relevant for the property (C04: 'pairs', 'appended'; C17: table / name / duals)"""
    from . import pairs
    n, res = pairs.run_all(run.seed, thorough=run.tier != 'quick')
    shown = 0
    kept = 0
    for r in res:
        fl = [f for f in r['failed'] if clauses is None or any(f[0].startswith(c) for c in clauses)]
        if not fl:
            continue
        kept += 1
        if shown >= 1:
            continue
        shown += 1
        fn = 'add_constraints_from_one_list_of_points' if r['case']['one_list'] else 'add_constraints_from_two_lists_of_points'
        run.violation('PEPit/function.py::Function.%s/runtime.%s' % (fn, fl[0][0]),
                      '%s on lists %s / %s (symmetry=%s): %s' % (fn, r['case']['l1'], r['case']['l2'], r['case']['symmetry'], fl[0][1]),
                      replay={'kind': 'pairs-case', 'case': r['case'], 'observed': fl, 'failing_cases_in_this_run': len(res)},
                      signature={'function': fn, 'clause': fl[0][0], 'lists': 'different' if r['case']['kind'] == 'two' else 'same'},
                      reproduced=True)
    run.bounded[label] = {'evaluations': n, 'failing': kept, 'exhaustive': True,
                          'rule': 'all list shapes with <= %d samples per list (same list, or two lists sharing 0-2 samples in shuffled positions), '
                                  'symmetry on/off, named/unnamed points and function; run-time contract of the two helpers and of '
                                  'get_class_constraints_duals on the real methods' % (4 if run.tier != 'quick' else 3),
                          'summary': '%d list shapes, %d violate the helper contract' % (n, kept)}


def replay_pairs(rec, pid, path):
    from . import pairs
    desc, fails = pairs.replay(rec['case'])
    print('case:', rec['case'])
    print('failed clauses:', fails)
    if fails:
        print('VIOLATION property=%s replay=%s' % (pid, path))
        return 1
    print('not reproduced on the current tree')
    return 0


# ------------------------------------------------------------------------------------------ solve scenarios
import multiprocessing as mp
import os
import traceback

JOBS = int(os.environ.get('VERIF_JOBS', '16'))


def _scenario(task):
    kind, args = task
    try:
        from . import scenarios as sc, solve as sv
        fn = {'program': sv.run_program, 'resolve': sc.resolve, 'resolve_none': sc.resolve_after_none, 'resolve_replaced': sc.resolve_replaced, 'unused_function': sc.unused_function, 'partition_real': sc.partition_realization, 'dual_tables_direct': sc.dual_tables_direct, 'dimred': sc.dimension_reduction, 'dimred_fallback': sc.dimension_reduction_fallback,
              'history': sc.history, 'verbosity': sc.verbosity, 'no_value': sc.no_value, 'invalid_options': sc.invalid_options,
              'dual_tables': sc.dual_tables, 'partitions': sc.partitions, 'backends': sc.backends, 'mosek_many_rows': sc.mosek_many_rows,
              'mosek_no_value': sc.mosek_no_value, 'partition_resolve': sc.partition_resolve, 'partition_dropped_handle': sc.partition_dropped_handle,
              'fresh_process': sc.fresh_process}[kind]
        info, fails = fn(*args)
        return kind, args, info, fails, None
    except Exception as e:
        if type(e).__name__ == 'SolverError':
            # the numerical solver gave up (ill-conditioned heuristic problem): inconclusive, never a violation
            return kind, args, {'inconclusive': 'SolverError: %s' % str(e)[:100]}, [], None
        return kind, args, {}, [], '%s: %s\n%s' % (type(e).__name__, e, traceback.format_exc()[-1000:])


def run_scenarios(tasks):
    ctx = mp.get_context('fork')
    with ctx.Pool(min(JOBS, max(1, len(tasks)))) as pool:
        return pool.map(_scenario, tasks, chunksize=1)


def solve_scenarios(run, pid, tasks, label, rule, known_clause_signature=None, also=()):
    """report the failures of property `pid` found by the bounded solve harness; one VIOLATION per distinct clause"""
    res = run_scenarios(tasks)
    seen = {}
    n_fail = 0
    errors = 0
    samples = []
    for kind, args, info, fails, err in res:
        if err:
            errors += 1
            mine = [(pid, 'scenario.crash', 'the scenario %s%s stopped with %s' % (kind, tuple(args), err.splitlines()[0]))]
        else:
            mine = [f for f in fails if f[0] == pid or f[0] in also]
        if len(samples) < 4:
            samples.append({'scenario': kind, 'args': list(args), 'info': {k: str(v)[:80] for k, v in info.items()}})
        if not mine:
            continue
        n_fail += 1
        for f in mine:
            key = f[1]
            if key in seen:
                seen[key]['count'] += 1
                continue
            seen[key] = {'count': 1}
            sig = {'clause': f[1]}
            if known_clause_signature:
                sig.update(known_clause_signature(kind, args, info, f))
            run.violation('%s/rt-solve/%s' % (pid, f[1]), '%s [scenario %s%s]' % (f[2], kind, tuple(args)),
                          replay={'kind': 'solve-scenario', 'scenario': kind, 'args': list(args), 'info': {k: str(v) for k, v in info.items()},
                                  'observed': [list(x) for x in mine], 'crash': err},
                          signature=sig, reproduced=True)
    run.bounded[label] = {'evaluations': len(tasks), 'failing': n_fail, 'rule': rule, 'samples': samples, 'crashed': errors,
                          'summary': '%d scenarios, %d with a failing post-condition of %s' % (len(tasks), n_fail, pid)}


def replay_scenario(rec, pid, path):
    kind, args = rec['scenario'], [tuple(a) if isinstance(a, list) and a and isinstance(a[0], list) else a for a in rec['args']]
    if kind == 'history':
        args[2] = [tuple(x) for x in rec['args'][2]]
    k, a, info, fails, err = _scenario((kind, args))
    mine = [f for f in fails if f[0] == pid]
    print('scenario:', kind, args)
    print('info:', info)
    print('failed post-conditions:', mine, err or '')
    if mine or err:
        print('VIOLATION property=%s replay=%s' % (pid, path))
        return 1
    print('not reproduced on the current tree')
    return 0
