"""RT-SOLVE: bounded stand-in (never counted as proved) for the solver-dependent parts of C01, C02, C05, C12, C13, C14, C16.
Real DSL programs are solved through the real cvxpy path; the post-conditions of PEP.solve are evaluated numerically.

Tolerances (stated): TOL_ABS on constraint violation / eigenvalues / reconstruction remainder / value differences,
relative to (1 + |tau|).  Solver: CLARABEL (interior point, default) unless stated."""
import contextlib
import io
import hashlib
import numpy as np

TOL = 2e-5


def quiet():
    return contextlib.redirect_stdout(io.StringIO())


class Spy:
    """records what reaches the cvxpy wrapper, from outside (the repository is not edited)"""
    def __init__(self):
        self.wrappers = []

    def install(self):
        import PEPit.pep as pepmod
        from PEPit.wrappers.cvxpy_wrapper import CvxpyWrapper
        spy = self

        class SpyWrapper(CvxpyWrapper):
            def __init__(self, verbose=1):
                super().__init__(verbose=verbose)
                self.sent = []
                spy.wrappers.append(self)

            def send_constraint_to_solver(self, constraint):
                self.sent.append(('scalar', constraint))
                return super().send_constraint_to_solver(constraint)

            def send_lmi_constraint_to_solver(self, psd_counter, psd_matrix):
                self.sent.append(('lmi', psd_matrix))
                return super().send_lmi_constraint_to_solver(psd_counter, psd_matrix)

            def prepare_heuristic(self, wc_value, tol_dimension_reduction):
                self.heuristic_calls = getattr(self, 'heuristic_calls', []) + [('prepare', float(wc_value), tol_dimension_reduction)]
                return super().prepare_heuristic(wc_value, tol_dimension_reduction)

            def solve(self, **kwargs):
                self.solve_calls = getattr(self, 'solve_calls', []) + [dict(kwargs)]
                self.solve_objectives = getattr(self, 'solve_objectives', []) + [type(self.prob.objective).__name__]
                return super().solve(**kwargs)

            def heuristic(self, weight):
                self.heuristic_calls = getattr(self, 'heuristic_calls', []) + [('weight', np.array(weight, dtype=float))]
                out = super().heuristic(weight)
                # the objective installed by the heuristic is the documented one: a function of the Gram matrix only, equal to <W, G> (probed at a random PSD matrix)
                try:
                    expr = self.prob.objective.args[0]
                    others = [v for v in expr.variables() if v is not self.G]
                    saved = [(v, v.value) for v in expr.variables()]
                    rs = np.random.RandomState(len(self.heuristic_calls))
                    n = self.G.shape[0]
                    A = rs.randn(n, n)
                    self.G.value = A @ A.T
                    for v in others:
                        B = rs.randn(*v.shape) if v.shape else rs.randn()
                        v.value = (B @ B.T) if (len(v.shape) == 2 and v.shape[0] == v.shape[1]) else B
                    got, want = float(expr.value), float(np.sum(np.array(weight, dtype=float) * (A @ A.T)))
                    for v, val in saved:
                        v.value = val
                    ok = not others and abs(got - want) <= 1e-8 * (1 + abs(want))
                    self.heuristic_objective = getattr(self, 'heuristic_objective', []) + [(ok, len(others), got, want)]
                except Exception as e:       # noqa  (an objective of another shape: recorded, judged by the scenario)
                    self.heuristic_objective = getattr(self, 'heuristic_objective', []) + [(False, -1, repr(e)[:80], None)]
                return out
        self._old = pepmod.WRAPPERS['cvxpy']
        pepmod.WRAPPERS['cvxpy'] = SpyWrapper
        return self

    def remove(self):
        import PEPit.pep as pepmod
        pepmod.WRAPPERS['cvxpy'] = self._old


def spec_seq(pep):
    """SPEC_SEQ(model): what must be sent, in order, computed from the declared sources (independent of pep.solve's code)"""
    from PEPit.function import Function
    from PEPit.block_partition import BlockPartition
    seq = [('metric', m) for m in pep.list_of_performance_metrics]
    seq += [('scalar', c) for c in pep.list_of_constraints]
    seq += [('lmi', m) for m in pep.list_of_psd]
    for f in Function.list_of_functions:
        if f.get_is_leaf():
            seq += [('scalar', c) for c in f.list_of_class_constraints]
            seq += [('lmi', m) for m in f.list_of_class_psd]
    for f in Function.list_of_functions:
        if len(f.list_of_constraints) > 0 or len(f.list_of_psd) > 0:
            seq += [('scalar', c) for c in f.list_of_constraints]
            seq += [('lmi', m) for m in f.list_of_psd]
    for part in BlockPartition.list_of_partitions:
        seq += [('scalar', c) for c in part.list_of_constraints]
    return seq


def expr_coeffs(e):
    """(G, F, c) of an expression computed by the harness itself (not by the library's translation)"""
    from PEPit.point import Point
    from PEPit.expression import Expression
    G = np.zeros((Point.counter, Point.counter))
    F = np.zeros(Expression.counter)
    c = 0.0
    for k, w in e.decomposition_dict.items():
        if isinstance(k, tuple):
            G[k[0].counter, k[1].counter] += w / 2
            G[k[1].counter, k[0].counter] += w / 2
        elif isinstance(k, Expression):
            F[k.counter] += w
        else:
            c += w
    return G, F, c


def cvx_row_value(wrapper, cvx_expr, Gval, Fval):
    """numeric value of a cvxpy affine expression at (G, F): assumed cvxpy semantics of Variable.value / Expression.value"""
    wrapper.G.value, wrapper.F.value = Gval, Fval
    return float(np.asarray(cvx_expr.value))


def solve(pep, **kw):
    kw.setdefault('solver', 'CLARABEL')
    with quiet():
        return pep.solve(verbose=0, **kw)


def tol(tau):
    return TOL * (1 + abs(tau if tau is not None else 0))


def scale_of(pep):
    try:
        return max(1.0, float(np.max(np.abs(np.asarray(pep.wrapper.optimal_G)))))
    except Exception:
        return 1.0


# ---------------------------------------------------------------------------------------------- checks
def regenerated_class_data(f):
    """what add_class_constraints generates NOW for the current samples of leaf function f (lists and tables restored afterwards)"""
    saved = (f.list_of_class_constraints, f.list_of_class_psd, dict(f.tables_of_constraints))
    f.list_of_class_constraints, f.list_of_class_psd = [], []
    try:
        f.add_class_constraints()
        return list(f.list_of_class_constraints), list(f.list_of_class_psd)
    finally:
        f.list_of_class_constraints, f.list_of_class_psd = saved[0], saved[1]
        f.tables_of_constraints.clear()
        f.tables_of_constraints.update(saved[2])


def check_class_constraints_current(pep, wrapper, fails):
    """C05: the class constraints that reached the solver are those of the CURRENT samples of every leaf function"""
    from PEPit.function import Function
    sent_ids = {id(o) for _, o in wrapper.sent}
    for f in Function.list_of_functions:
        if not f.get_is_leaf():
            continue
        sent_c = [c for c in f.list_of_class_constraints if id(c) in sent_ids]
        want_c, want_p = regenerated_class_data(f)
        key = lambda c: (c.equality_or_inequality,) + tuple(np.round(x, 9).tobytes() if hasattr(x, 'tobytes') else round(x, 9) for x in expr_coeffs(c.expression))
        a, b = sorted(map(key, sent_c), key=repr), sorted(map(key, want_c), key=repr)
        if a != b:
            fails.append(('C05', 'class_constraints.current', '%s: %d class constraints reached the solver, the %d current samples require %d (or other ones)' % (
                type(f).__name__, len(sent_c), len(f.list_of_points), len(want_c))))
        sent_p = [m for m in f.list_of_class_psd if id(m) in sent_ids]
        if len(sent_p) != len(want_p) or any(x.shape != y.shape for x, y in zip(sent_p, want_p)):
            fails.append(('C05', 'class_lmis.current', '%s: class LMIs sent %s, required for the current samples %s' % (
                type(f).__name__, [m.shape for m in sent_p], [m.shape for m in want_p])))


def check_sent(pep, wrapper, fails):
    """C05: the tracked sequence equals SPEC_SEQ(model); each cvxpy row denotes the symbolic expression"""
    check_class_constraints_current(pep, wrapper, fails)
    want = spec_seq(pep)
    got = wrapper.sent
    nm = len(pep.list_of_performance_metrics)
    # C01-O4: the lists through which the library exposes multipliers are exactly what was sent (one multiplier per sent object)
    exp_c, exp_p = list(pep._list_of_constraints_sent_to_wrapper), list(pep._list_of_psd_sent_to_wrapper)
    sent_c, sent_p = [o for k, o in got if k == 'scalar'], [o for k, o in got if k == 'lmi']
    if len(exp_c) != len(sent_c) or any(a is not b for a, b in zip(exp_c, sent_c)) or len(exp_p) != len(sent_p) or any(a is not b for a, b in zip(exp_p, sent_p)):
        fails.append(('C01', 'exposed_list', '%d scalar / %d matrix constraints reach the solver, %d / %d are exposed with a multiplier' % (
            len(sent_c), len(sent_p), len(exp_c), len(exp_p))))
    if len(got) != len(want):
        fails.append(('C05', 'sent.count', '%d objects reached the solver, %d declared (metrics %d)' % (len(got), len(want), nm)))
        return
    # each declared object reaches the solver exactly as often as it was declared, and nothing else does (a multiset: the ORDER of sending is not part of the property)
    pending = [(wk, wo) for wk, wo in want if wk != 'metric']
    metrics = [wo for wk, wo in want if wk == 'metric']

    def is_metric_row(go, m):
        if go.equality_or_inequality != 'inequality':
            return False
        G1, F1, c1 = expr_coeffs(go.expression)
        G2, F2, c2 = expr_coeffs(pep.objective - m)
        return max(np.max(np.abs(G1 - G2), initial=0), np.max(np.abs(F1 - F2), initial=0), abs(c1 - c2)) <= 1e-12
    for idx, (gk, go) in enumerate(got):
        hit = next((k for k, (wk, wo) in enumerate(pending) if wk == gk and wo is go), None)
        if hit is not None:
            pending.pop(hit)
            continue
        mh = next((k for k, m in enumerate(metrics) if gk == 'scalar' and is_metric_row(go, m)), None)
        if mh is not None:
            metrics.pop(mh)
            continue
        fails.append(('C05', 'sent.extra', 'object %d sent to the solver (%s %s) was not declared (or was sent more often than declared)' % (idx, gk, go.get_name() if hasattr(go, 'get_name') else '')))
        break
    if not fails or fails[-1][1] != 'sent.extra':
        if pending:
            fails.append(('C05', 'sent.missing', '%d declared object(s) did not reach the solver as often as declared (first: %s)' % (len(pending), pending[0][0])))
        if metrics:
            fails.append(('C05', 'sent.metric', '%d performance metric(s) were not sent as objective <= metric' % len(metrics)))
    # numeric data of every cvxpy row
    rng = np.random.default_rng(7)
    from PEPit.point import Point
    from PEPit.expression import Expression
    A = rng.normal(size=(Point.counter, Point.counter))
    Gv, Fv = A @ A.T, rng.normal(size=Expression.counter)
    cons = wrapper._list_of_solver_constraints
    pos = 1
    for (gk, go) in got:
        if gk == 'scalar':
            G, F, c = expr_coeffs(go.expression)
            want_val = float(np.sum(G * Gv) + F @ Fv + c)
            cc = cons[pos]
            got_val = cvx_row_value(wrapper, cc.args[0] - cc.args[1], Gv, Fv)
            kind = type(cc).__name__
            okkind = (kind == 'Inequality') if go.equality_or_inequality == 'inequality' else (kind == 'Equality')
            if abs(got_val - want_val) > 1e-9 * (1 + abs(want_val)) or not okkind:
                fails.append(('C05', 'row.data', 'cvxpy row of %s denotes %.6g (kind %s), the expression denotes %.6g (%s)' % (
                    go.get_name(), got_val, kind, want_val, go.equality_or_inequality)))
            pos += 1
        else:
            n = go.shape[0]
            pos += 1
            M = np.zeros((n, n))
            covered = np.zeros((n, n), dtype=bool)
            for k in range(n * n):
                if pos + k >= len(cons):
                    break
                cc = cons[pos + k]
                if type(cc).__name__ != 'Equality':
                    break
            # entry rows are  M[i, j] == expr : evaluate (rhs) row-major as declared
            cnt = 0
            for i in range(n):
                for j in range(n):
                    if pos >= len(cons) or type(cons[pos]).__name__ != 'Equality':
                        continue
                    cc = cons[pos]
                    G, F, c = expr_coeffs(go[i, j])
                    want_val = float(np.sum(G * Gv) + F @ Fv + c)
                    got_val = cvx_row_value(wrapper, cc.args[1], Gv, Fv)
                    if abs(got_val - want_val) > 1e-9 * (1 + abs(want_val)):
                        fails.append(('C05', 'lmi.entry', 'LMI entry (%d,%d) row denotes %.6g, the declared entry denotes %.6g' % (i, j, got_val, want_val)))
                    pos += 1
                    cnt += 1
            if cnt != n * n:
                fails.append(('C05', 'lmi.entries', 'LMI of size %d tied through %d entry rows instead of %d' % (n, cnt, n * n)))
    if pos != len(cons):
        fails.append(('C05', 'rows.extra', '%d solver constraints, %d accounted for by the declared model' % (len(cons), pos)))


def check_primal(pep, handles, tau_primal, tau_dual, wrapper, fails):
    """C02: one consistent instance"""
    from PEPit.point import Point
    t = tol(tau_primal) * scale_of(pep) / max(1.0, abs(tau_primal))
    t = max(t, tol(tau_primal))
    leaves = Point.list_of_leaf_points
    vals = [p.eval() for p in leaves]
    n = len(leaves)
    Gp = np.array([[vals[i] @ vals[j] for j in range(n)] for i in range(n)])
    Gs = np.asarray(wrapper.optimal_G)              # the Gram matrix found by the solver (not the library's post-processed copy)
    w, V = np.linalg.eigh((Gs + Gs.T) / 2)
    Gproj = (V * np.maximum(w, 0)) @ V.T
    if np.max(np.abs(Gp - Gproj), initial=0) > 10 * t:
        fails.append(('C02', 'gram', 'inner products of the evaluated leaf points differ from the PSD projection of the Gram matrix by %.3g' % np.max(np.abs(Gp - Gproj))))
    # the public arrays of the problem object are that same instance
    Gl = np.asarray(pep.G_value, dtype=float)
    if Gl.shape != Gp.shape:
        fails.append(('C02', 'gram.public', 'PEP.G_value has shape %s for %d leaf points' % (Gl.shape, n)))
    else:
        wl, Vl = np.linalg.eigh((Gl + Gl.T) / 2)
        if np.max(np.abs(Gp - (Vl * np.maximum(wl, 0)) @ Vl.T), initial=0) > 10 * t:
            fails.append(('C02', 'gram.public', 'PEP.G_value (PSD part) differs from the inner products of the evaluated leaf points by %.3g' % np.max(np.abs(Gp - (Vl * np.maximum(wl, 0)) @ Vl.T))))
    from PEPit.expression import Expression as _E
    Fl = np.asarray(pep.F_value, dtype=float).reshape(-1)
    Fe = np.array([x.eval() for x in _E.list_of_leaf_expressions], dtype=float)
    # (entry k is the value of leaf expression k; the MOSEK back-end keeps its auxiliary objective variable as one more trailing entry)
    if len(Fl) < len(Fe) or np.max(np.abs(Fl[:len(Fe)] - Fe), initial=0) > 1e-9 * (1 + np.max(np.abs(Fe), initial=0)):
        fails.append(('C02', 'function_values.public', 'PEP.F_value differs from the values of the leaf expressions'))
    for p in handles.get('points', []):
        want = sum((wgt * k.eval() for k, wgt in p.decomposition_dict.items()), np.zeros_like(vals[0]) if vals else 0)
        if np.max(np.abs(np.asarray(p.eval()) - want), initial=0) > 1e-9:
            fails.append(('C02', 'point.combination', 'a point does not evaluate to the combination of its operands'))
    for e in handles.get('exprs', []):
        G, F, c = expr_coeffs(e)
        want = float(np.sum(G * Gp) + F @ np.array([x.eval() for x in __import__('PEPit').Expression.list_of_leaf_expressions]) + c)
        if abs(e.eval() - want) > 1e-7 * (1 + abs(want)):
            fails.append(('C02', 'expr.combination', 'an expression evaluates to %.8g, the combination of its operands is %.8g' % (e.eval(), want)))
    for kind, obj in wrapper.sent:
        if kind == 'scalar':
            v = obj.eval()
            bad = v > 20 * t if obj.equality_or_inequality == 'inequality' else abs(v) > 20 * t
            if bad:
                fails.append(('C02', 'constraint.holds', 'sent constraint %s evaluates to %.3g at the returned instance' % (obj.get_name(), v)))
        else:
            M = obj.eval()
            mn = np.min(np.linalg.eigvalsh((M + M.T) / 2))
            if mn < -20 * t or np.max(np.abs(M - M.T), initial=0) > 20 * t:
                fails.append(('C02', 'lmi.holds', 'sent LMI evaluates to a matrix with min eigenvalue %.3g, asymmetry %.3g' % (mn, np.max(np.abs(M - M.T), initial=0))))
    mets = [m.eval() for m in pep.list_of_performance_metrics]
    if abs(pep.objective.eval() - min(mets)) > 20 * t:
        fails.append(('C02', 'objective', 'objective %.6g differs from the smallest metric %.6g' % (pep.objective.eval(), min(mets))))
    if tau_primal > tau_dual + 50 * t:
        fails.append(('C02', 'weak_duality', 'primal value %.8g exceeds the dual bound %.8g' % (tau_primal, tau_dual)))


def check_certificate(pep, tau_dual, wrapper, fails, lmi_symmetric=True):
    """C01: objective - tau = sum lambda_k expr_k - <S, G> - sum <Z_m, T_m> as affine functions of (G, F); signs; PSD"""
    from PEPit.point import Point
    G, F, c = expr_coeffs(pep.objective)
    S = pep.residual
    if tau_dual is None:            # primal mode: the bound certified is the constant of the identity itself
        scalars = [o.eval_dual() for k_, o in wrapper.sent if k_ == 'scalar']
        tau_dual = float(-sum(lam * expr_coeffs(o.expression)[2] for lam, (k_, o) in zip(scalars, [x for x in wrapper.sent if x[0] == 'scalar'])))
        for k_, o in wrapper.sent:
            if k_ != 'scalar':
                Z_ = o.eval_dual()
                tau_dual += float(sum(Z_[i, j] * expr_coeffs(o[i, j])[2] for i in range(o.shape[0]) for j in range(o.shape[1])))
    t = tol(tau_dual)
    G = G + (S + S.T) / 2          # objective - ( ... - <S,G> )
    if np.min(np.linalg.eigvalsh((S + S.T) / 2)) < -20 * t:
        fails.append(('C01', 'residual.psd', 'residual has a negative eigenvalue %.3g' % np.min(np.linalg.eigvalsh((S + S.T) / 2))))
    for kind, obj in wrapper.sent:
        if kind == 'scalar':
            lam = obj.eval_dual()
            if obj.equality_or_inequality == 'inequality' and lam < -20 * t:
                fails.append(('C01', 'multiplier.sign', 'negative multiplier %.3g on inequality %s' % (lam, obj.get_name())))
            g, f, cc = expr_coeffs(obj.expression)
            G, F, c = G - lam * g, F - lam * f, c - lam * cc
        else:
            Z = obj.eval_dual()
            if np.min(np.linalg.eigvalsh((Z + Z.T) / 2)) < -20 * t:
                fails.append(('C01', 'lmi_multiplier.psd', 'LMI multiplier has a negative eigenvalue'))
            n = obj.shape[0]
            for i in range(n):
                for j in range(n):
                    g, f, cc = expr_coeffs(obj[i, j])
                    G, F, c = G + Z[i, j] * g, F + Z[i, j] * f, c + Z[i, j] * cc
    rem = max(np.max(np.abs(G), initial=0), np.max(np.abs(F), initial=0))
    if rem > 5 * t:              # 1e-4 (1 + |tau|): the solver closes the identity to ~1e-8; observed on the unchanged tree <= 4e-8 over all templates
        fails.append(('C01', 'identity' if lmi_symmetric else 'identity.nonsymmetric_lmi',
                      'objective - tau - combination has a non-constant coefficient %.3g (should vanish)' % rem))
    if abs(c - tau_dual) > 50 * t:
        fails.append(('C01', 'tau', 'the bound returned in dual mode is %.8g, the constant of the identity is %.8g' % (tau_dual, c)))


def run_program(name, seed, options=None):
    """build, solve (dual and primal), check; returns (info, fails)"""
    from . import models
    options = options or {}
    spy = Spy().install()
    fails = []
    info = {'template': name, 'seed': seed, 'options': options}
    try:
        pep, h = models.build(name, seed)
        options = dict(options)
        mode = options.pop('return_primal_or_dual', 'dual')
        tau_d = solve(pep, return_primal_or_dual=mode, **options)
        w = spy.wrappers[-1]
        info['tau'] = tau_d
        if mode == 'primal' and tau_d is not None:
            # the certificate of the solve is exposed whatever the mode of the returned number: the identity is checked against its own constant
            try:
                check_certificate(pep, None, w, fails, lmi_symmetric=h.get('symmetric_as_written', True) and h.get('lmi_symmetric_as_written', True)
                                  and not h.get('class_lmi_nonsym', False))
            except (ValueError, TypeError, AttributeError) as e:
                fails.append(('C01', 'certificate_exposed', 'after a solve in primal mode that returned %r the multipliers are not exposed (%s: %s)' % (tau_d, type(e).__name__, str(e)[:80])))
            return info, fails
        if tau_d is None:
            # every template is a bounded, feasible model: no value means that what was solved is not the declared model (or its certificate / instance is missing)
            for pid_ in ('C01', 'C02', 'C03', 'C04', 'C05', 'C07', 'C08', 'C11', 'C12', 'C13', 'C14', 'C15', 'C16', 'C17'):
                fails.append((pid_, 'unexpected_none', 'a bounded feasible model returned None'))
            return info, fails
        check_sent(pep, w, fails)
        # constraints the template declared (kept in its handles at declaration time) reach the solver, whatever the library's lists say after the solve
        sent_ids = {id(o) for _, o in w.sent}
        for m_, entries in h.get('lmi_snapshots', []):
            if any(m_[i_, j_] is not entries[i_][j_] for i_ in range(len(entries)) for j_ in range(len(entries[0]))):
                fails.append(('C05', 'sent.lmi_as_declared', 'an LMI no longer holds the entries it was declared with (the array it was declared from was modified afterwards)'))
        for c in h.get('declared', []):
            if id(c) not in sent_ids:
                fails.append(('C05', 'sent.declared', 'a constraint declared by the user (%s) was not sent to the solver' % (c.get_name() or type(c).__name__)))
                break
        tau_p = float(w.prob.value) if options.get('dimension_reduction_heuristic') is None else None
        if tau_p is None:
            tau_p = tau_d
        check_certificate(pep, tau_d, w, fails, lmi_symmetric=h.get('symmetric_as_written', True) and h.get('lmi_symmetric_as_written', True)
                          and not h.get('class_lmi_nonsym', False))
        check_primal(pep, h, pep.objective.eval(), tau_d, w, fails)
        info['primal'] = pep.objective.eval()
    finally:
        spy.remove()
    return info, fails
