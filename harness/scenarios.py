"""Multi-step scenarios of the bounded solve harness: re-solves (C13), dimension reduction (C14), histories (C12),
models without a finite value (C16), dual tables after a solve (C17), block partitions at solve time (C15)."""
import hashlib
import numpy as np
from . import models
from .solve import Spy, solve, tol, expr_coeffs, check_certificate, check_primal, check_sent, spec_seq, quiet


# ---------------------------------------------------------------------------------------------- edits
def edit_add_metric(pep, h):
    m0 = pep.list_of_performance_metrics[0]
    pep.set_performance_metric(0.5 * m0 + 0.05)


def edit_add_constraint(pep, h):
    m0 = pep.list_of_performance_metrics[0]
    pep.add_constraint(m0 <= 0.3)


def edit_add_lmi(pep, h):
    m0 = pep.list_of_performance_metrics[0]
    pep.add_psd_matrix([[1, m0], [m0, 0.04]])


def edit_new_iterate(pep, h):
    """evaluate the first function at a new point (a further oracle call) and add a metric on it"""
    f = h['funcs'][0]
    x = h['points'][-1]
    g = f.gradient(x)
    pep.set_performance_metric(0.25 * (x - 0.5 * g - h['points'][0]) ** 2 + 0.1 * pep.list_of_performance_metrics[0])


def edit_replace_metrics(pep, h):
    """every metric replaced by another one (same number of metrics): the latest list is what the next solve optimises"""
    pep.list_of_performance_metrics = [0.5 * m + 0.01 for m in pep.list_of_performance_metrics]


EDITS = {'replace_metrics': edit_replace_metrics, 'add_metric': edit_add_metric, 'add_constraint': edit_add_constraint, 'add_lmi': edit_add_lmi, 'new_iterate': edit_new_iterate}


def fingerprint(pep, wrapper):
    """bit-level digest of what reached the solver: kinds, senses, dense coefficient data, sizes"""
    from PEPit.point import Point
    from PEPit.expression import Expression
    hsh = hashlib.sha256()
    hsh.update(('%d,%d;' % (Point.counter, Expression.counter)).encode())
    for kind, obj in wrapper.sent:
        if kind == 'scalar':
            G, F, c = expr_coeffs(obj.expression)
            hsh.update(obj.equality_or_inequality.encode() + G.tobytes() + F.tobytes() + np.float64(c).tobytes())
        else:
            n = obj.shape[0]
            hsh.update(('lmi%d' % n).encode())
            for i in range(n):
                for j in range(n):
                    G, F, c = expr_coeffs(obj[i, j])
                    hsh.update(G.tobytes() + F.tobytes() + np.float64(c).tobytes())
    return hsh.hexdigest(), len(wrapper.sent)


def count_sent(w):
    return (sum(1 for k, _ in w.sent if k == 'scalar'), sum(1 for k, _ in w.sent if k == 'lmi'))


# ------------------------------------------------------------------------------------------------ C13
def resolve(name, seed, edit):
    """solve, solve again unchanged, edit, solve; compare with a freshly built equivalent model"""
    fails = []
    info = {'template': name, 'seed': seed, 'edit': edit}
    spy = Spy().install()
    try:
        pep, h = models.build(name, seed)
        t1 = solve(pep)
        w1 = spy.wrappers[-1]
        held = h['exprs'][0]
        held_pt = h['points'][-1]
        v1 = held.eval()
        t2 = solve(pep)
        w2 = spy.wrappers[-1]
        if abs(t1 - t2) > 50 * tol(t1):
            fails.append(('C13', 'same_value', 'unchanged model: first solve %.8g, second solve %.8g' % (t1, t2)))
        if count_sent(w1) != count_sent(w2):
            fails.append(('C13', 'no_growth', '(scalar, LMI) constraints sent: first solve %s, second solve of the unchanged model %s' % (count_sent(w1), count_sent(w2))))
        check_sent(pep, w2, fails)
        EDITS[edit](pep, h)
        t3 = solve(pep)
        w3 = spy.wrappers[-1]
        check_sent(pep, w3, fails)
        info['taus'] = (t1, t2, t3)
        # a fresh equivalent model
        pep_f, h_f = models.build(name, seed)
        EDITS[edit](pep_f, h_f)
        tf = solve(pep_f)
        wf = spy.wrappers[-1]
        info['tau_fresh'] = tf
        if (t3 is None) != (tf is None) or (t3 is not None and abs(t3 - tf) > 50 * tol(tf)):
            fails.append(('C13', 'like_fresh', 'after the edit %r the re-solve returns %r, a newly built equivalent model returns %r' % (edit, t3, tf)))
        if count_sent(w3) != count_sent(wf):
            fails.append(('C13', 'like_fresh.count', '(scalar, LMI) constraints sent after the edit: re-solve %s, fresh model %s' % (count_sent(w3), count_sent(wf))))
    finally:
        spy.remove()
    if fails or t3 is None:
        return info, [f for f in fails]
    # user-held objects evaluate to the latest solution: rebuild, solve once with the edit, compare values of the same handles
    spy = Spy().install()
    try:
        pep, h = models.build(name, seed)
        solve(pep)
        held, held_pt = h['exprs'][0], h['points'][-1]
        held.eval(), held_pt.eval()               # the user looks at them between the solves
        cons_held = [c for k, c in spy.wrappers[-1].sent if k == 'scalar'][:3]
        [c.eval() for c in cons_held]
        lmis_held = [m for k, m in spy.wrappers[-1].sent if k != 'scalar'][:2]
        [m.eval() for m in lmis_held]
        EDITS[edit](pep, h)
        t3 = solve(pep)
        w3 = spy.wrappers[-1]
        from PEPit.point import Point
        leaves = Point.list_of_leaf_points
        G, F, c = expr_coeffs(held)
        vals = [p.eval() for p in leaves]
        Gp = np.array([[vals[i] @ vals[j] for j in range(len(leaves))] for i in range(len(leaves))])
        from PEPit.expression import Expression
        want = float(np.sum(G * Gp) + F @ np.array([x.eval() for x in Expression.list_of_leaf_expressions]) + c)
        if abs(held.eval() - want) > 1e-6 * (1 + abs(want)):
            fails.append(('C13', 'latest_values', 'an expression held by the user evaluates to %.8g after the re-solve; at the latest solution it is %.8g' % (held.eval(), want)))
        wantp = sum((wgt * k.eval() for k, wgt in held_pt.decomposition_dict.items()), 0 * vals[0])
        got_pt = np.asarray(held_pt.eval())
        if got_pt.shape != np.asarray(wantp).shape or np.max(np.abs(got_pt - wantp), initial=0) > 1e-6:
            fails.append(('C13', 'latest_values.point', 'a point held by the user does not evaluate to the latest solution after the re-solve'))
        for cst in cons_held:
            G, F, c = expr_coeffs(cst.expression)
            want = float(np.sum(G * Gp) + F @ np.array([x.eval() for x in Expression.list_of_leaf_expressions]) + c)
            if abs(cst.eval() - want) > 1e-6 * (1 + abs(want)):
                fails.append(('C13', 'latest_values.constraint', 'a constraint held by the user evaluates to %.8g after the re-solve, %.8g at the latest solution' % (cst.eval(), want)))
                break
        Fp = np.array([x.eval() for x in Expression.list_of_leaf_expressions])
        for m in lmis_held:
            got = np.asarray(m.eval(), dtype=float)
            wantm = np.zeros(m.shape)
            for i in range(m.shape[0]):
                for j in range(m.shape[1]):
                    G, F, c = expr_coeffs(m[i, j])
                    wantm[i, j] = float(np.sum(G * Gp) + F @ Fp + c)
            if got.shape != wantm.shape or np.max(np.abs(got - wantm), initial=0) > 1e-6 * (1 + np.max(np.abs(wantm), initial=0)):
                fails.append(('C13', 'latest_values.lmi', 'an LMI held by the user does not evaluate to the latest solution after the re-solve'))
                break
        check_certificate(pep, t3, w3, fails, lmi_symmetric=h.get('symmetric_as_written', True) and h.get('lmi_symmetric_as_written', True))
    finally:
        spy.remove()
    return info, fails


def resolve_after_none(seed):
    """a solve that finds no finite value after a successful one: no number of the earlier solve remains readable"""
    fails = []
    spy = Spy().install()
    try:
        template = 'T_gd_ssc' if seed % 2 == 0 else 'T_user_lmi'
        pep, h = models.build(template, seed)
        solve(pep)
        x = h['points'][1]
        e = h['exprs'][1] if template == 'T_user_lmi' else h['exprs'][0]
        held = [('derived point', x.eval), ('expression', e.eval)]
        c0 = pep.list_of_constraints[0] if pep.list_of_constraints else None
        if c0 is not None:
            held.append(('constraint', c0.eval))
            held.append(('multiplier of a constraint', c0.eval_dual))
        for m in h.get('lmis', []):
            held.append(('LMI', m.eval))
            held.append(('multiplier of an LMI', m.eval_dual))
        for _, fn in held:
            fn()                                                              # read after the successful solve (values get stored)
        if template == 'T_user_lmi':
            pep.add_constraint(e <= -1)                                       # infeasible: a squared distance below -1
        else:
            pep.add_constraint(pep.list_of_performance_metrics[0] <= -1)      # infeasible: a squared distance / gap below -1
        t = solve(pep)
        if t is not None:
            fails.append(('C13', 'none_after_edit', 'an infeasible re-solve returned %r' % (t,)))
        else:
            from PEPit.point import Point
            for what, fn in [('leaf point', Point.list_of_leaf_points[0].eval)] + held + [('objective', pep.objective.eval)] + _dual_table_accessors():
                try:
                    v = fn()
                    fails.append(('C13', 'stale_after_none', '%s still evaluates to a number of the earlier solve after a solve that found no value' % what))
                    break
                except ValueError:
                    pass
    finally:
        spy.remove()
    return {'template': template, 'seed': seed, 'scenario': 'none-after-success'}, fails


def resolve_replaced(seed):
    """an initial condition, an LMI and a metric are REPLACED between two solves; a constraint attached to the function stays. Afterwards nothing of the
    earlier solve is readable: the replaced objects behave as in a freshly built model that never contained them (ValueError), the kept ones carry the
    multipliers of the latest solve; then a solve without value leaves no dual of the earlier solve on the function-level constraint either"""
    import random
    from PEPit import PEP, Expression
    from PEPit.functions import SmoothStronglyConvexFunction
    rnd = random.Random(seed)
    mu, L = rnd.choice([.1, .2, .3]), rnd.choice([1., 2.])
    r1, r2 = rnd.choice([1., 2.]), rnd.choice([4., 9.])
    fails = []

    def build(radius2, lmi_diag):
        p = PEP()
        f = p.declare_function(SmoothStronglyConvexFunction, mu=mu, L=L)
        xs, x0 = f.stationary_point(), p.set_initial_point()
        g0 = f.gradient(x0)
        x1 = x0 - g0 / L
        cond = ((x0 - xs) ** 2 <= radius2)
        p.set_initial_condition(cond)
        fc = (g0 ** 2 <= 10 * L * L * max(r1, r2))          # not binding
        f.add_constraint(fc)
        s = Expression()
        lmi = p.add_psd_matrix([[lmi_diag, s], [s, lmi_diag]])
        p.set_performance_metric((x1 - xs) ** 2)
        return p, f, xs, x0, x1, cond, fc, lmi

    def dual(o):
        try:
            return o.eval_dual()
        except ValueError:
            return None

    p, f, xs, x0, x1, old_cond, fc, old_lmi = build(r1, 1.)
    t1 = solve(p)
    old_cond.eval_dual(), old_lmi.eval_dual(), fc.eval_dual()           # the user reads them after the first solve
    new_cond = ((x0 - xs) ** 2 <= r2)
    p.list_of_constraints = [new_cond]
    p.list_of_psd = []
    s2 = Expression()
    new_lmi = p.add_psd_matrix([[2., s2], [s2, 2.]])
    t2 = solve(p)
    pf, ff, _, _, _, cond_f, fc_f, lmi_f = build(r2, 2.)
    tf = solve(pf)
    info = {'scenario': 'resolve-replaced', 'seed': seed, 'mu': mu, 'L': L, 'radii': (r1, r2), 'taus': (t1, t2, tf)}
    if t2 is None or tf is None or abs(t2 - tf) > 50 * tol(tf):
        fails.append(('C13', 'like_fresh', 'after replacing the initial condition and the LMI the re-solve returns %r, a newly built equivalent model %r' % (t2, tf)))
        return info, fails
    for what, got, want in (('new initial condition', new_cond.eval_dual(), cond_f.eval_dual()), ('function-level constraint', fc.eval_dual(), fc_f.eval_dual())):
        if abs(got - want) > 2e-3 * (1 + abs(want)):
            fails.append(('C13', 'latest_duals', 'multiplier of the %s after the re-solve: %.6g, in a newly built equivalent model: %.6g' % (what, got, want)))
    for what, o in (('replaced initial condition', old_cond), ('replaced LMI', old_lmi)):
        v = dual(o)
        if v is not None:
            fails.append(('C13', 'stale_dual.replaced', 'the %s is not part of the latest problem and still reports a dual value of the earlier solve (%s); in a newly built '
                          'model that never contained it this is a ValueError' % (what, np.round(v, 6).tolist())))
    # then a solve that finds no value
    p.add_constraint((x1 - xs) ** 2 <= -1)
    t3 = solve(p)
    if t3 is not None:
        fails.append(('C13', 'none_after_edit', 'an infeasible re-solve returned %r' % (t3,)))
    else:
        for what, o in (('function-level constraint', fc), ('initial condition', new_cond), ('LMI', new_lmi), ('replaced initial condition', old_cond)):
            v = dual(o)
            if v is not None:
                fails.append(('C13', 'stale_dual.after_none', 'the %s still reports a dual value of the earlier solve after a solve that found no value' % what))
    return info, fails


# ------------------------------------------------------------------------------------------------ C14
def dimension_reduction(name, seed, heuristic, tol_dr=1e-4, eig_reg=None):
    fails = []
    info = {'template': name, 'seed': seed, 'heuristic': heuristic, 'tol': tol_dr, 'eig_regularization': eig_reg}
    spy = Spy().install()
    try:
        if name == 'T_asym_lmi':
            seed = int(seed) - int(seed) % 2     # the constant-offset variant of T_asym_lmi (odd v, wave 14, for C01) is not used here: finding F7 makes the dual-mode
                                                 # value (1.40625) a loose bound there while the primal optimum is 1.125 with or without a heuristic, so 'optimum' is
                                                 # not the dual value on that model (DESIGN 9.16, replayed natively)
        pep0, h0 = models.build(name, seed)
        t0 = solve(pep0)
        w0 = spy.wrappers[-1]
        duals0 = [o.eval_dual() for k, o in w0.sent]
        tr0 = float(np.trace(pep0.G_value))
        pep, h = models.build(name, seed)
        extra = {} if eig_reg is None else {'eig_regularization': eig_reg}
        td = solve(pep, dimension_reduction_heuristic=heuristic, tol_dimension_reduction=tol_dr, **extra)
        w = spy.wrappers[-1]
        info['taus'] = (t0, td)
        if abs(td - t0) > 50 * tol(t0):
            fails.append(('C14', 'dual_unchanged', 'dual bound %.8g without the heuristic, %.8g with %s' % (t0, td, heuristic)))
        duals = [o.eval_dual() for k, o in w.sent]
        dmax = max([float(np.max(np.abs(np.asarray(a) - np.asarray(b)))) for a, b in zip(duals0, duals)] + [0.0])
        if dmax > 1e-3 * (1 + abs(t0)):
            fails.append(('C14', 'certificate_of_original', 'multipliers exposed after the heuristic differ from those of the original problem by %.3g' % dmax))
        sym = h.get('symmetric_as_written', True) and h.get('lmi_symmetric_as_written', True)
        check_certificate(pep, td, w, fails, lmi_symmetric=sym)
        fails[:] = [('C14',) + f[1:] if f[0] == 'C01' else f for f in fails if f[1] != 'identity.nonsymmetric_lmi']     # that one is C01's finding F7
        obj = pep.objective.eval()
        if obj < t0 - tol_dr - 50 * tol(t0):
            fails.append(('C14', 'primal_within_tolerance', 'objective %.8g after the heuristic is below optimum %.8g minus the tolerance %.1g' % (obj, t0, tol_dr)))
        before = len(fails)
        check_primal(pep, dict(h, exprs=[], points=[]), obj, td + tol_dr, w, fails)
        fails[:] = [f for f in fails if f[1] != 'objective']
        fails[:] = [('C14',) + f[1:] if f[0] == 'C02' else f for f in fails]
        tols = [c[2] for c in getattr(w, 'heuristic_calls', []) if c[0] == 'prepare']
        if tols != [tol_dr]:
            fails.append(('C14', 'stated_tolerance', 'the objective is anchored with tolerance(s) %r, the stated tolerance is %r' % (tols, tol_dr)))
        for ok_, n_other, got_, want_ in getattr(w, 'heuristic_objective', []):
            if not ok_:
                fails.append(('C14', 'heuristic_objective_is_weighted_trace', 'the objective installed by the heuristic is not <W, G>: at a random PSD matrix it evaluates to %s, <W, G> is %s '
                              '(%s other solver variable(s) enter it)' % (got_, want_, n_other)))
                break
        objs = getattr(w, 'solve_objectives', [])
        if len(objs) < 2 or objs[0] != 'Maximize' or any(o != 'Minimize' for o in objs[1:]):
            fails.append(('C14', 'heuristic_objective_replaced', 'problems handed to the solver by one call with the heuristic %s: %s; expected the model (Maximize), then the '
                          'weighted trace (Minimize) for every heuristic solve' % (heuristic, objs)))
        calls = getattr(w, 'solve_calls', [])
        if len(calls) >= 2 and any(c != calls[0] for c in calls[1:]):
            fails.append(('C14', 'same_solver_options', 'the solves of one call to PEP.solve receive different solver options: first %r, then %r' % (
                calls[0], [c for c in calls[1:] if c != calls[0]][0])))
        if heuristic == 'trace' and float(np.trace(pep.G_value)) > tr0 + 100 * tol(t0) * (1 + abs(tr0)):
            fails.append(('C14', 'trace', 'trace of the Gram matrix %.6g after the trace heuristic, %.6g before' % (np.trace(pep.G_value), tr0)))
    finally:
        spy.remove()
    return info, fails


def dimension_reduction_fallback(name, seed, heuristic, tol_dr, eig_reg):
    """the requested back-end is not installed: solve announces that it switches to cvxpy, so the heuristic must run exactly as with wrapper='cvxpy' and
    the same options - the stated tolerance anchors the objective, the stated regularisation enters the weights"""
    import importlib.util
    info = {'template': name, 'seed': seed, 'heuristic': heuristic, 'tol': tol_dr, 'eig_regularization': eig_reg, 'scenario': 'fall-back path'}
    if importlib.util.find_spec('mosek') is not None:
        return dict(info, skipped='mosek is installed: no fall-back path'), []
    fails = []
    spy = Spy().install()
    try:
        runs = []
        for wname in ('cvxpy', 'mosek'):
            pep, h = models.build(name, seed)
            with quiet():
                t = pep.solve(wrapper=wname, verbose=0, solver='CLARABEL', dimension_reduction_heuristic=heuristic, tol_dimension_reduction=tol_dr, eig_regularization=eig_reg)
            w = spy.wrappers[-1]
            runs.append((t, pep.objective.eval(), np.array(pep.G_value), list(getattr(w, 'heuristic_calls', []))))
        (t_a, obj_a, G_a, calls_a), (t_b, obj_b, G_b, calls_b) = runs
        info['taus'] = (t_a, t_b)
        for label, calls in (('direct', calls_a), ('fall-back', calls_b)):
            tols = [c[2] for c in calls if c[0] == 'prepare']
            if tols != [tol_dr]:
                fails.append(('C14', 'stated_tolerance', '%s path: the objective is anchored with tolerance(s) %r, the stated tolerance is %r' % (label, tols, tol_dr)))
        wa, wb = [c[1] for c in calls_a if c[0] == 'weight'], [c[1] for c in calls_b if c[0] == 'weight']
        if len(wa) != len(wb) or any(x.shape != y.shape or np.max(np.abs(x - y), initial=0) > 1e-6 * (1 + np.max(np.abs(x), initial=0)) for x, y in zip(wa, wb)):
            fails.append(('C14', 'fallback_same_weights', 'the heuristic weights on the fall-back path differ from those of wrapper=cvxpy with the same options (%d vs %d reweighted solves)' % (len(wb), len(wa))))
        if abs(t_a - t_b) > 1e-7 * (1 + abs(t_a)):
            fails.append(('C14', 'dual_unchanged', 'dual bound %.10g with wrapper=cvxpy, %.10g on the fall-back path' % (t_a, t_b)))
        if abs(obj_a - obj_b) > 1e-7 * (1 + abs(obj_a)):
            fails.append(('C14', 'primal_within_tolerance', 'objective after the heuristic %.10g with wrapper=cvxpy, %.10g on the fall-back path with the same options' % (obj_a, obj_b)))
    finally:
        spy.remove()
    return info, fails


# ------------------------------------------------------------------------------------------------ C12
def run_once(name, seed, solve_it=True, **solve_kw):
    spy = Spy().install()
    try:
        pep, h = models.build(name, seed)
        if solve_it:
            t = solve(pep, **solve_kw)
            return t, fingerprint(pep, spy.wrappers[-1])
        return None, None
    finally:
        spy.remove()


def history(name, seed, hist):
    """hist: list of (template, seed, action) with action in build / solve / fail / abandon"""
    fails = []
    # a history with a crudely solved model (explicit solver options): model B then runs the same solver with ITS OWN (default) options
    kw_b = {'solver': 'SCS'} if any(a == 'solve_crude' for _, _, a in hist) else {}
    t_ref, fp_ref = run_once(name, seed, **kw_b)
    keep = []          # earlier models stay referenced (a notebook session): object addresses - hence id()-based hashes - of later models shift
    for (hn, hs, action) in hist:
        keep.append([object() for _ in range(1 + hs % 89)])
        if action == 'build':
            keep.append(models.build(hn, hs))
        elif action == 'solve':
            run_once(hn, hs)
        elif action == 'solve_crude':
            run_once(hn, hs, solver='SCS', eps=5e-2, max_iters=20)
        elif action == 'fail_translation':
            # the same program as model B plus one malformed hand-written constraint: the solve raises in the middle of the translation of that constraint
            from PEPit import Expression
            from PEPit.point import Point
            p, h_ = models.build(name, seed)
            a = Point.list_of_leaf_points[0]
            b = Point.list_of_leaf_points[min(1, len(Point.list_of_leaf_points) - 1)]
            bad = Expression(is_leaf=False, decomposition_dict={(a, b): 1.0, (b, a + b): 1.0})
            p.list_of_constraints.insert(0, bad <= 1)
            try:
                solve(p)
            except Exception:       # noqa
                pass
            keep.append((p, h_))
        elif action == 'fail':
            p, _ = models.build('T_unbounded', hs)
            solve(p)
            keep.append(p)
        elif action == 'abandon':
            try:
                p, h = models.build(hn, hs)
                keep.append((p, h))
                p.set_performance_metric(h['points'][0])        # AssertionError mid-way: model abandoned
            except AssertionError:
                pass
    t, fp = run_once(name, seed, **kw_b)
    if fp != fp_ref:
        fails.append(('C12', 'same_solver_input', 'solver input of the model differs after the history %s (constraints sent %s vs %s)' % (
            [(a, b) for a, _, b in hist], fp[1], fp_ref[1])))
    if (t is None) != (t_ref is None) or (t is not None and abs(t - t_ref) > 1e-9 * (1 + abs(t_ref))):
        fails.append(('C12', 'same_result', 'value %r after the history, %r before' % (t, t_ref)))
    return {'template': name, 'seed': seed, 'history': hist}, fails


def verbosity(name, seed, heuristic=None):
    fails = []
    spy = Spy().install()
    try:
        fps = []
        kw = {'dimension_reduction_heuristic': heuristic} if heuristic else {}
        for v in (0, 1, 2):
            pep, h = models.build(name, seed)
            with quiet():
                t = pep.solve(verbose=v, solver='CLARABEL', **kw)
            fps.append((t, fingerprint(pep, spy.wrappers[-1])) if not heuristic else
                       (t, (fingerprint(pep, spy.wrappers[-1]), np.round(np.asarray(pep.G_value), 9).tobytes())))
        if not (fps[0][1] == fps[1][1] == fps[2][1]):
            fails.append(('C12', 'verbosity.input', 'solver input depends on the verbosity'))
        if max(abs(fps[0][0] - x[0]) for x in fps) > 1e-9:
            fails.append(('C12', 'verbosity.result', 'result depends on the verbosity: %s' % [x[0] for x in fps]))
    finally:
        spy.remove()
    return {'template': name, 'seed': seed, 'scenario': 'verbosity'}, fails


# ------------------------------------------------------------------------------------------------ C16
def no_value(seed):
    fails = []
    pep, h = models.build('T_unbounded', seed)
    info = {'template': 'T_unbounded', 'seed': seed, 'kind': h['kind']}
    for mode in ('dual', 'primal'):
        t = solve(pep, return_primal_or_dual=mode, solver='SCS' if seed % 2 else 'CLARABEL')
        if t is not None:
            fails.append(('C16', 'none', '%s model, mode %s: solve returned %r' % (h['kind'], mode, t)))
    for verbose in (1, 2, -1):
        # the reporting branches (status line, solver log) must not turn "no value" into an exception or a number
        try:
            with quiet():
                t = pep.solve(verbose=verbose, solver='CLARABEL')
            if t is not None:
                fails.append(('C16', 'none', '%s model, verbose=%d: solve returned %r' % (h['kind'], verbose, t)))
        except Exception as e:       # noqa
            fails.append(('C16', 'none.exception', '%s model, verbose=%d: solve raised %s instead of returning no value' % (h['kind'], verbose, type(e).__name__)))
    from PEPit.point import Point
    accessors = [('leaf point', Point.list_of_leaf_points[0].eval)] + [('point', p.eval) for p in h['points']] + \
                [('expression', e.eval) for e in h['exprs']] + [('objective', pep.objective.eval)] + \
                [('constraint.eval', c.eval) for c in h['constraints'] + pep.list_of_constraints] + \
                [('constraint.eval_dual', c.eval_dual) for c in h['constraints'] + pep.list_of_constraints]
    accessors += _dual_table_accessors()
    for what, fn in accessors:
        try:
            v = fn()
            fails.append(('C16', 'accessor.number', '%s returned %r although no solve succeeded' % (what, v)))
        except ValueError:
            pass
        except Exception as e:
            fails.append(('C16', 'accessor.exception', '%s raised %s instead of the documented ValueError' % (what, type(e).__name__)))
    return info, fails


def _dual_table_accessors():
    """the dual tables of every leaf function whose class constraints (hence tables) were generated by the solve attempt"""
    from PEPit.function import Function
    return [('dual tables of %s' % type(f).__name__, f.get_class_constraints_duals) for f in Function.list_of_functions
            if f.get_is_leaf() and any(getattr(t, 'size', 0) for t in f.tables_of_constraints.values())]


def invalid_options(seed):
    fails = []
    for kw in ({'return_primal_or_dual': 'both'}, {'return_primal_or_dual': ''}, {'return_primal_or_dual': 'du'}, {'return_primal_or_dual': 'Dual'},
               {'dimension_reduction_heuristic': 'nuclear'}, {'dimension_reduction_heuristic': 'logdet'}, {'dimension_reduction_heuristic': 'tr'},
               {'dimension_reduction_heuristic': 'trace2'}, {'dimension_reduction_heuristic': 'trace10'}, {'dimension_reduction_heuristic': 'Trace'},
               {'dimension_reduction_heuristic': 'logdet2x'}, {'dimension_reduction_heuristic': ' trace'}):
        pep, h = models.build('T_gd_ssc', seed)
        try:
            t = solve(pep, **kw)
            fails.append(('C16', 'invalid_option', 'invalid option %r accepted, solve returned %r' % (kw, t)))
        except ValueError:
            pass
        except Exception as e:
            fails.append(('C16', 'invalid_option.exception', 'invalid option %r raised %s, not ValueError' % (kw, type(e).__name__)))
    # a solver name that names no solver is an invalid option value: an error (whatever its type - cvxpy raises its own), never a number
    for bad in ('NOT_A_SOLVER', 'SCS2', '', 'scs '):
        pep, h = models.build('T_gd_ssc', seed)
        try:
            with quiet():
                t = pep.solve(wrapper='cvxpy', verbose=0, solver=bad)
            fails.append(('C16', 'invalid_option.solver', 'solver=%r names no solver and is accepted: solve returned %r' % (bad, t)))
        except Exception:       # noqa
            pass
    # a back-end that is not installed falls back to cvxpy: the options must be treated as on the direct path
    import importlib.util
    if importlib.util.find_spec('mosek') is None:
        for bad in ('both', 'Dual', ''):
            pep, h = models.build('T_gd_ssc', seed)
            try:
                with quiet():
                    t = pep.solve(wrapper='mosek', verbose=0, return_primal_or_dual=bad)
                fails.append(('C16', 'invalid_option.fallback', 'invalid return_primal_or_dual=%r accepted on the fall-back path (requested back-end not installed), solve returned %r' % (bad, t)))
            except ValueError:
                pass
            except Exception as e:       # noqa
                fails.append(('C16', 'invalid_option.exception', 'fall-back path with return_primal_or_dual=%r raised %s, not ValueError' % (bad, type(e).__name__)))
        pep, h = models.build('T_gd_ssc', seed)
        with quiet():
            tp = pep.solve(wrapper='mosek', verbose=0, return_primal_or_dual='primal')
        if tp is None or abs(tp - pep.objective.eval()) > 1e-9 * (1 + abs(tp)):
            fails.append(('C16', 'invalid_option.fallback_mode', 'fall-back path: primal mode returned %r, the objective evaluates to %r' % (tp, pep.objective.eval())))
    # options of the primitive steps (real DSL objects): an unknown value must be rejected, whatever its spelling or type
    from PEPit import PEP
    from PEPit.functions import SmoothStronglyConvexFunction
    from PEPit.primitive_steps import inexact_gradient_step, inexact_proximal_step
    for bad in ('Relative', 'rel', '', None, 2, 'ABSOLUTE'):
        p = PEP()
        f = p.declare_function(SmoothStronglyConvexFunction, L=1., mu=.1)
        x0 = p.set_initial_point()
        for step, call in (('inexact_gradient_step(notion=%r)' % (bad,), lambda: inexact_gradient_step(x0, f, gamma=1., epsilon=.1, notion=bad)),
                           ('inexact_proximal_step(opt=%r)' % (bad,), lambda: inexact_proximal_step(x0, f, 1., opt=bad))):
            try:
                call()
                fails.append(('C16', 'invalid_option.step', 'invalid option accepted by %s' % step))
            except ValueError:
                pass
            except Exception as e:
                fails.append(('C16', 'invalid_option.step.exception', '%s raised %s, not ValueError' % (step, type(e).__name__)))
    return {'template': 'T_gd_ssc', 'seed': seed, 'scenario': 'invalid-options'}, fails


def unused_function(k):
    """a function of each shipped class that is declared and never evaluated adds nothing to the problem: same value as without it.
    (The three linear-operator classes are left out: with no sample they build a 0 x 0 LMI that the solver interface rejects - an exception, not a wrong value.)"""
    import inspect
    import PEPit.functions as F
    import PEPit.operators as O
    from PEPit import PEP
    from PEPit.functions import SmoothStronglyConvexFunction
    req = {'L': 2., 'mu': .5, 'M': 1., 'beta': .5, 'rho': .5, 'D': 1.}
    classes = [getattr(m, n) for m in (F, O) for n in sorted(dir(m)) if inspect.isclass(getattr(m, n)) and 'Linear' not in n]
    cls = classes[k % len(classes)]
    fails = []

    def model(extra):
        p = PEP()
        f = p.declare_function(SmoothStronglyConvexFunction, mu=.1, L=1.)
        if extra:
            sig = inspect.signature(cls.__init__)
            kw = {a: req[a] for a, q in sig.parameters.items() if q.default is inspect._empty and a in req}
            if 'partition' in sig.parameters:
                kw['partition'] = p.declare_block_partition(d=2)
                kw['L'] = [1., 2.]
            p.declare_function(cls, **kw)
        xs = f.stationary_point()
        x0 = p.set_initial_point()
        p.set_initial_condition((x0 - xs) ** 2 <= 1)
        x1 = x0 - f.gradient(x0)
        p.set_performance_metric((x1 - xs) ** 2)
        return p
    t0 = solve(model(False))
    try:
        t1 = solve(model(True))
    except Exception as e:       # noqa
        fails.append(('C05', 'unused_function.exception', 'a declared, never evaluated %s makes the solve stop with %s' % (cls.__name__, type(e).__name__)))
        t1 = t0
    if t0 is None or t1 is None or abs(t0 - t1) > 100 * tol(t0):
        fails.append(('C05', 'unused_function.value', 'a declared, never evaluated %s changes the value from %r to %r' % (cls.__name__, t0, t1)))
    return {'class': cls.__name__, 'scenario': 'unused-function'}, fails


# ------------------------------------------------------------------------------------------------ C17
def dual_tables(name, seed, resolve=False):
    from PEPit.constraint import Constraint
    fails = []
    spy = Spy().install()
    try:
        pep, h = models.build(name, seed)
        solve(pep)
        if resolve:
            EDITS['add_metric'](pep, h)
            solve(pep)
        for f in h['funcs']:
            if not f.get_is_leaf():
                continue
            cname = type(f).__name__
            try:
                duals = f.get_class_constraints_duals()
            except Exception as e:
                fails.append(('C17', 'duals.accessor', '%s.get_class_constraints_duals() raised %s: %s' % (cname, type(e).__name__, str(e)[:80])))
                continue
            in_tables = []
            for cond, tab in f.tables_of_constraints.items():
                if not hasattr(tab, 'iloc'):
                    fails.append(('C17', 'table.type', '%s: table %r is a %s, not a table with one row/column per sample' % (cname, cond, type(tab).__name__)))
                    continue
                dt = duals.get(cond)
                if dt is None or dt.shape != tab.shape:
                    fails.append(('C17', 'duals.shape', '%s: dual table of %r missing or of a different shape' % (cname, cond)))
                    continue
                n = len(f.list_of_points)
                nT = len(f.T.list_of_points) if hasattr(f, 'T') else n
                if tab.shape[1] not in (n, nT) or tab.shape[0] not in (1, n, len(f.list_of_stationary_points)):
                    fails.append(('C17', 'table.shape', '%s: table %r has shape %s for %d samples' % (cname, cond, tab.shape, n)))
                for i in range(tab.shape[0]):
                    for j in range(tab.shape[1]):
                        c = tab.iloc[i, j]
                        if isinstance(c, Constraint):
                            in_tables.append(c)
                            # the cell is the one of the ordered pair the constraint was generated for: its name carries the labels of that pair
                            nm = c.get_name() or ''
                            rows, cols = [str(x) for x in tab.index], [str(x) for x in tab.columns]
                            if tab.shape[0] > 1 and len(set(rows)) == len(rows) and len(set(cols)) == len(cols) and nm.endswith(')') and '(' in nm:
                                inside = nm[nm.rindex('(') + 1:-1]
                                if inside != '%s, %s' % (rows[i], cols[j]):
                                    fails.append(('C17', 'table.cell_is_its_pair', '%s: cell (%s, %s) of %r holds the constraint named %r' % (
                                        cname, rows[i], cols[j], cond, nm)))
                            if abs(float(dt.iloc[i, j]) - c.eval_dual()) > 1e-12:
                                fails.append(('C17', 'duals.cell', '%s: dual cell (%d,%d) of %r is not the multiplier of that constraint' % (cname, i, j, cond)))
                        elif float(dt.iloc[i, j]) != 0:
                            fails.append(('C17', 'duals.zero', '%s: dual cell (%d,%d) of %r should be 0' % (cname, i, j, cond)))
            missing = [c for c in f.list_of_class_constraints if not any(c is d for d in in_tables)]
            if missing:
                fails.append(('C17', 'table.covers_all', '%s: %d of %d class constraints appear in no table cell (names %s)' % (
                    cname, len(missing), len(f.list_of_class_constraints), [c.get_name() for c in missing[:2]])))
            names = [c.get_name() for c in f.list_of_class_constraints]
            if any(n is None for n in names):
                fails.append(('C17', 'name.missing', '%s: class constraints without a name' % cname))
    finally:
        spy.remove()
    return {'template': name, 'seed': seed, 'scenario': 'dual-tables'}, fails


def dual_tables_direct(seed):
    """unnamed functions created directly by their constructor AND through declare_function, in either order: the names of the class constraints (and so the
    headers of the tables) of two different functions never coincide"""
    import random
    from PEPit import PEP
    from PEPit.functions import ConvexFunction, SmoothStronglyConvexFunction
    rng = random.Random(seed)
    fails = []
    from PEPit.primitive_steps import proximal_step
    pep = PEP()
    order = [['direct', 'declared', 'declared'], ['declared', 'direct', 'declared'], ['direct', 'direct', 'declared'], ['declared', 'declared', 'direct']][seed % 4]
    specs = [(ConvexFunction, {}), (ConvexFunction, {}), (SmoothStronglyConvexFunction, dict(mu=.1, L=1.))]
    funcs = [cls(**kw) if how == 'direct' else pep.declare_function(cls, **kw) for how, (cls, kw) in zip(order, specs)]
    h_, g_, f_ = funcs
    F = f_ + h_
    xs = F.stationary_point()
    x0 = pep.set_initial_point()
    pep.set_initial_condition((x0 - xs) ** 2 <= 1)
    x1 = x0 - f_.gradient(x0)                       # one step of the proximal gradient method on f + h
    x2, _, _ = proximal_step(x1, h_, 1.)
    g_.gradient(x0)                                 # a third function, sampled at two points, that the method does not use
    g_.gradient(x2)
    pep.set_performance_metric((x2 - xs) ** 2)
    t = solve(pep)
    names = []
    headers = []
    for f in funcs:
        names.append({c.get_name() for c in f.list_of_class_constraints})
        headers.append({str(tab.columns.name) for tab in f.get_class_constraints_duals().values()})
        if not names[-1] or None in names[-1]:
            fails.append(('C17', 'name.missing', 'a function has class constraints without a name (or none at all)'))
    for i in range(len(funcs)):
        for j in range(i):
            if headers[i] & headers[j]:
                fails.append(('C17', 'name.identifies_function', 'the dual tables of two different functions (%s, %s) carry the same header %r' % (
                    order[j], order[i], sorted(headers[i] & headers[j])[0])))
            both = names[i] & names[j]
            if both:
                fails.append(('C17', 'name.identifies_function', 'two different functions (%s, %s) both have a class constraint named %r' % (order[j], order[i], sorted(both)[0])))
    return {'scenario': 'dual-tables-direct', 'seed': seed, 'order': order, 'tau': t}, fails


# ------------------------------------------------------------------------------------------------ C15
def partitions(seed):
    import random
    from PEPit import PEP, Point
    from PEPit.tools.dict_operations import prune_dict, merge_dict
    rng = random.Random(seed)
    fails = []
    d = rng.choice([1, 2, 3, 4])
    pep = PEP()
    part = pep.declare_block_partition(d=d)
    leaves = [Point() for _ in range(3)]
    cands = leaves + [leaves[0] - leaves[1], 2 * leaves[2] + leaves[0], leaves[1] * 1]
    decomposed = rng.sample(cands, rng.choice([1, 2, 3]))
    for p in decomposed:
        blocks = [part.get_block(p, k) for k in range(d)]
        again = [part.get_block(p, k) for k in rng.sample(range(d), d)]
        if any(a is not part.get_block(p, k) for k, a in enumerate(blocks)):
            fails.append(('C15', 'same_blocks', 'asking again for a block returns another object'))
        tot = {}
        for b in blocks:
            tot = merge_dict(tot, b.decomposition_dict)
        if prune_dict(tot) != prune_dict(p.decomposition_dict):
            fails.append(('C15', 'sum', 'the %d blocks of a point do not sum back to the point' % d))
        if d == 1 and prune_dict(blocks[0].decomposition_dict) != prune_dict(p.decomposition_dict):
            fails.append(('C15', 'identity', 'a one-block partition is not the identity'))
    # points written with explicit null coefficients, decomposed, handed to an oracle (which prunes their dictionaries in place), and asked again
    from PEPit.functions import ConvexFunction
    f_ = pep.declare_function(ConvexFunction)
    for z in (0 * leaves[1], 0.0 * leaves[2], (1 - 1) * leaves[0]):
        first = [part.get_block(z, k) for k in range(d)]
        f_.gradient(z)
        if any(part.get_block(z, k) is not b_ for k, b_ in enumerate(first)):
            fails.append(('C15', 'same_blocks', 'asking again for the blocks of a point, after it was handed to an oracle, returns other objects'))
            break
        decomposed.append(z)
    if d >= 2 and seed % 3 == 0:
        # the user states an INEQUALITY on a cross-block product: the orthogonality relation on the same product is still imposed, as an equality
        part.add_constraint(part.get_block(decomposed[0], 1) * part.get_block(decomposed[0], 0) <= 0)
    n_before = len(part.list_of_constraints)
    part.add_partition_constraints()
    new = part.list_of_constraints[n_before:]
    m = len(decomposed)
    want = m * m * d * (d - 1) // 2
    if len(new) != want:
        fails.append(('C15', 'orthogonality.count', '%d orthogonality relations for %d decomposed points and %d blocks, expected %d' % (len(new), m, d, want)))
    else:
        from .solve import expr_coeffs
        want_set = []
        for p in decomposed:
            for q in decomposed:
                for k in range(d):
                    for l in range(k):
                        want_set.append(expr_coeffs(part.get_block(p, k) * part.get_block(q, l))[0])
        got_set = [expr_coeffs(c.expression)[0] for c in new]
        for wmat in want_set:
            if not any(np.allclose(wmat, g) or np.allclose(wmat, -g) for g in got_set):
                fails.append(('C15', 'orthogonality.content', 'a required orthogonality relation between different blocks is not imposed'))
                break
        if any(c.equality_or_inequality != 'equality' for c in new):
            fails.append(('C15', 'orthogonality.sense', 'an orthogonality relation is not an equality'))
    # a second partition with the SAME number of blocks is another partition: its own blocks, relations among its own blocks only
    other = pep.declare_block_partition(d=d)
    if other is part:
        fails.append(('C15', 'independent_partitions', 'declaring a second partition with %d blocks returns the first one' % d))
    else:
        p0 = decomposed[0]
        mine, theirs = [part.get_block(p0, k) for k in range(d)], [other.get_block(p0, k) for k in range(d)]
        if d > 1 and any(a is b for a in mine for b in theirs):
            fails.append(('C15', 'independent_partitions', 'two partitions share block objects for one point'))
        n0 = len(other.list_of_constraints)
        other.add_partition_constraints()
        got = len(other.list_of_constraints) - n0
        if got != d * (d - 1) // 2:
            fails.append(('C15', 'independent_partitions', 'the second partition (one decomposed point) imposes %d relations, %d required' % (got, d * (d - 1) // 2)))
        if len(part.blocks_dict) != len(decomposed):
            fails.append(('C15', 'independent_partitions', 'decomposing a point in the second partition changed the first one'))
    return {'seed': seed, 'd': d, 'decomposed': len(decomposed), 'scenario': 'partition'}, fails


def partition_realization(seed):
    """max ||P_k x||^2 subject to ||x||^2 <= 1 is exactly 1 for coordinate-block projections: a real projection attains it (so every imposed relation must hold on
    real projections) and orthogonality of different blocks forbids more (so all of them must be imposed) - whether the partition was declared through the PEP or
    instantiated directly (the class is exported), and also when a block is itself decomposed again, blocks being requested in any order"""
    import random
    from PEPit import PEP, BlockPartition
    from PEPit.point import Point
    from .solve import expr_coeffs
    rng = random.Random(seed)
    d = rng.choice([2, 3, 4])
    direct = seed % 2 == 1
    again = (seed // 2) % 3 != 0
    fails = []
    spy = Spy().install()
    try:
        pep = PEP()
        part = BlockPartition(d=d) if direct else pep.declare_block_partition(d=d)
        x = pep.set_initial_point()
        k0 = rng.randrange(d)
        y = part.get_block(x, k0)
        order = rng.sample(range(d), d)
        if again:
            for k in order:
                part.get_block(y, k)
        pep.set_initial_condition(x ** 2 <= 1)
        pep.set_performance_metric(y ** 2)
        tau = solve(pep)
        info = {'scenario': 'partition-realization', 'seed': seed, 'd': d, 'declared': 'BlockPartition(d)' if direct else 'declare_block_partition', 'block': k0,
                'block_decomposed_again_in_order': order if again else None, 'tau': tau}
        if tau is None or abs(tau - 1) > 1e-4:
            fails.append(('C15', 'projection_value', 'max ||P_%d x||^2 under ||x||^2 <= 1 with %d blocks is %r; coordinate-block projections give exactly 1' % (k0, d, tau)))
        # a real coordinate partition of R^(2d): block k = coordinates 2k, 2k+1
        v = np.array([rng.gauss(0, 1) for _ in range(2 * d)])
        v = v / np.linalg.norm(v)
        proj = lambda k, u: np.array([u[i] if i // 2 == k else 0. for i in range(2 * d)])
        real = {x: v}
        val = lambda p: sum((w * real[leaf] for leaf, w in p.decomposition_dict.items()), np.zeros(2 * d))
        for p, blocks in part.blocks_dict.items():
            rp = val(p)
            for k, b in enumerate(blocks):
                if b.get_is_leaf() and b not in real:
                    real[b] = proj(k, rp)
        leaves = Point.list_of_leaf_points
        if any(l not in real for l in leaves):
            fails.append(('C15', 'projection_realization', 'a leaf point of the model is neither the initial point nor a block of a decomposed point'))
        else:
            G = np.array([[real[a] @ real[b] for b in leaves] for a in leaves])
            for kind, c in spy.wrappers[-1].sent:
                if kind != 'scalar':
                    continue
                Gw, Fw, cst = expr_coeffs(c.expression)
                if np.any(Fw != 0):
                    continue            # objective <= metric
                r = float(np.sum(Gw * G) + cst)
                if (c.equality_or_inequality == 'equality' and abs(r) > 1e-9) or r > 1e-9:
                    fails.append(('C15', 'projection_realization', 'a relation sent to the solver does not hold for real coordinate-block projections (value %.3g, %s)' % (r, c.equality_or_inequality)))
                    break
    finally:
        spy.remove()
    return info, fails


# ------------------------------------------------------------------------------------------------ C11
def _with_mosek_standin():
    import os, sys
    d = os.path.join(os.path.dirname(os.path.dirname(os.path.abspath(__file__))), 'standins')
    if d not in sys.path:
        sys.path.insert(0, d)
    import importlib
    m = importlib.import_module('mosek')
    assert 'STAND-IN' in (m.__doc__ or ''), 'a real mosek module is installed: the stand-in must not shadow it'
    return m


class MosekSpy:
    def install(self):
        import PEPit.pep as pepmod
        from PEPit.wrappers.mosek_wrapper import MosekWrapper
        spy = self
        self.wrappers = []

        class SpyMosek(MosekWrapper):
            def __init__(self, verbose=1):
                super().__init__(verbose=verbose)
                self.sent = []
                spy.wrappers.append(self)

            def send_constraint_to_solver(self, constraint, track=True):
                if track:
                    self.sent.append(('scalar', constraint))
                return super().send_constraint_to_solver(constraint, track=track)

            def send_lmi_constraint_to_solver(self, psd_counter, psd_matrix):
                self.sent.append(('lmi', psd_matrix))
                return super().send_lmi_constraint_to_solver(psd_counter, psd_matrix)

            def heuristic(self, weight):
                out = super().heuristic(weight)
                # what the task now minimises must be <W, G> (the function the cvxpy back-end minimises), nothing else
                W = np.asarray(weight, dtype=float)
                C = self.task.barC.get(0)
                lin = max([abs(v) for v in self.task.c.values()] + [0.0])
                ok = C is not None and C.shape == W.shape and np.max(np.abs(C - (W + W.T) / 2)) <= 1e-9 * (1 + np.max(np.abs(W))) \
                    and lin == 0 and self.task.sense == 'minimize' and set(self.task.barC) <= {0}
                spy.heuristic_objectives.append(bool(ok))
                return out
        self.heuristic_objectives = []
        self._old = pepmod.WRAPPERS['mosek']
        pepmod.WRAPPERS['mosek'] = SpyMosek
        return self

    def remove(self):
        import PEPit.pep as pepmod
        pepmod.WRAPPERS['mosek'] = self._old


def backends(name, seed, heuristic=None, resolve=False):
    """the same model through the cvxpy back-end and through the MOSEK wrapper (on the MOSEK stand-in)"""
    mosek = _with_mosek_standin()
    fails = []
    info = {'template': name, 'seed': seed, 'heuristic': heuristic, 'resolve': resolve}
    kw = {'dimension_reduction_heuristic': heuristic} if heuristic else {}
    spy = Spy().install()
    try:
        pep_c, h_c = models.build(name, seed)
        if resolve:
            solve(pep_c)
        tc = solve(pep_c, **kw)
        wc = spy.wrappers[-1]
        obj_c = pep_c.objective.eval() if tc is not None else None
    finally:
        spy.remove()
    ms = MosekSpy().install()
    try:
        pep_m, h_m = models.build(name, seed)
        try:
            if resolve:
                with quiet():
                    pep_m.solve(wrapper='mosek', verbose=0)
            with quiet():
                tm = pep_m.solve(wrapper='mosek', verbose=0, **kw)
        except Exception as e:
            fails.append(('C11', 'mosek_path.exception[%s]' % type(e).__name__, 'the MOSEK path stops with %s: %s' % (type(e).__name__, str(e)[:160])))
            return info, fails
        if pep_m.wrapper_name != 'mosek':
            fails.append(('C11', 'mosek_path.not_used', 'the MOSEK wrapper was not used'))
            return info, fails
        wm = ms.wrappers[-1]
        info['taus'] = (tc, tm)
        if heuristic and (not ms.heuristic_objectives or not all(ms.heuristic_objectives)):
            fails.append(('C11', 'mosek.heuristic_objective', 'the objective given to the MOSEK task for the dimension-reduction step is not <W, G> minimised '
                                                              '(%d of %d heuristic solves)' % (sum(not x for x in ms.heuristic_objectives), len(ms.heuristic_objectives))))
        if (tc is None) != (tm is None) or (tc is not None and abs(tc - tm) > 100 * tol(tc)):
            fails.append(('C11', 'same_value', 'cvxpy back-end %r, MOSEK back-end %r' % (tc, tm)))
            return info, fails
        if tc is None:
            fails.append(('C11', 'unexpected_none', 'a bounded feasible model returned None through both back-ends'))
            return info, fails
        if [k for k, _ in wc.sent] != [k for k, _ in wm.sent]:
            fails.append(('C11', 'same_constraint_list', 'the two back-ends do not receive the same list of constraints'))
            return info, fails
        sym = h_m.get('symmetric_as_written', True) and h_m.get('lmi_symmetric_as_written', True)
        sub = []
        check_certificate(pep_m, tm, wm, sub, lmi_symmetric=sym)
        fails += [('C11', 'mosek.' + f[1], f[2]) for f in sub]
        sub = []
        check_primal(pep_m, dict(h_m, points=[], exprs=[]), pep_m.objective.eval(), tm + (1e-4 if heuristic else 0), wm, sub)
        if heuristic:
            sub = [f for f in sub if f[1] != 'objective']
        fails += [('C11', 'mosek.' + f[1], f[2]) for f in sub]
        if not heuristic and abs(pep_m.objective.eval() - obj_c) > 100 * tol(tc):
            fails.append(('C11', 'same_primal_value', 'objective value %.8g (MOSEK path) vs %.8g (cvxpy path)' % (pep_m.objective.eval(), obj_c)))
    finally:
        ms.remove()
    return info, fails


def mosek_many_rows(n_steps=11):
    """more than 128 scalar constraints through the MOSEK wrapper"""
    _with_mosek_standin()
    from PEPit import PEP
    from PEPit.functions import SmoothStronglyConvexFunction
    fails = []
    pep = PEP()
    f = pep.declare_function(SmoothStronglyConvexFunction, mu=.1, L=1.)
    xs = f.stationary_point()
    x = pep.set_initial_point()
    pep.set_initial_condition((x - xs) ** 2 <= 1)
    for i in range(n_steps):
        x = x - 0.5 * f.gradient(x)
    pep.set_performance_metric(f(x) - f(xs))
    try:
        with quiet():
            tm = pep.solve(wrapper='mosek', verbose=0)
        pep2 = PEP()
        f = pep2.declare_function(SmoothStronglyConvexFunction, mu=.1, L=1.)
        xs = f.stationary_point()
        x = pep2.set_initial_point()
        pep2.set_initial_condition((x - xs) ** 2 <= 1)
        for i in range(n_steps):
            x = x - 0.5 * f.gradient(x)
        pep2.set_performance_metric(f(x) - f(xs))
        tc = solve(pep2)
        if abs(tc - tm) > 1e-4 * (1 + abs(tc)):
            fails.append(('C11', 'same_value', 'cvxpy %r vs MOSEK path %r on a model with %d rows' % (tc, tm, len(pep._list_of_constraints_sent_to_wrapper))))
    except Exception as e:
        fails.append(('C11', 'mosek_path.exception[%s]' % type(e).__name__, 'a model with %d samples (more than 128 rows) stops the MOSEK path with %s: %s' % (
            n_steps + 2, type(e).__name__, str(e)[:120])))
    return {'scenario': 'many-rows', 'samples': n_steps + 2}, fails


def mosek_no_value(seed):
    _with_mosek_standin()
    fails = []
    pep, h = models.build('T_unbounded', seed)
    with quiet():
        t = pep.solve(wrapper='mosek', verbose=0)
    if t is not None:
        fails.append(('C11', 'none_if_unsolved', '%s model through the MOSEK wrapper: solve returned %r instead of no value' % (h['kind'], t)))
    return {'template': 'T_unbounded', 'seed': seed, 'kind': h['kind']}, fails


def partition_resolve(seed):
    """solve, decompose one more point with the same partition, solve again: the relations of ALL decomposed points are imposed"""
    fails = []
    spy = Spy().install()
    try:
        pep, h = models.build('T_blocks', seed)
        part = h['partitions'][0]
        d = part.get_nb_blocks()
        t1 = solve(pep)
        x0, x1 = h['points'][0], h['points'][1]
        newpt = x0 - 2 * x1
        blocks = [part.get_block(newpt, k) for k in range(d)]
        pep.set_performance_metric(pep.list_of_performance_metrics[0] + 0.25 * (blocks[0] * blocks[d - 1]))
        t2 = solve(pep)
        w = spy.wrappers[-1]
        m = len(part.blocks_dict)
        want = m * m * d * (d - 1) // 2
        user = h.get('declared', [])          # constraints the user put on the partition are not orthogonality relations (and must still be there)
        sent = [o for k, o in w.sent if k == 'scalar' and any(o is c for c in part.list_of_constraints) and not any(o is c for c in user)]
        if any(not any(o is c for _, o in w.sent) for c in user):
            fails.append(('C15', 'user_constraint_kept', 'a constraint the user declared on the partition no longer reaches the solver at the second solve'))
        if len(sent) != want:
            fails.append(('C15', 'orthogonality.at_solve', '%d orthogonality relations reach the solver for %d decomposed points and %d blocks, %d required' % (len(sent), m, d, want)))
        pep_f, h_f = models.build('T_blocks', seed)
        part_f = h_f['partitions'][0]
        x0f, x1f = h_f['points'][0], h_f['points'][1]
        bf = [part_f.get_block(x0f - 2 * x1f, k) for k in range(d)]
        pep_f.set_performance_metric(pep_f.list_of_performance_metrics[0] + 0.25 * (bf[0] * bf[d - 1]))
        tf = solve(pep_f)
        if abs(tf - t2) > 50 * tol(tf):
            fails.append(('C15', 'orthogonality.value', 're-solve after decomposing a new point returns %.8g, a fresh model %.8g' % (t2, tf)))
    finally:
        spy.remove()
    return {'template': 'T_blocks', 'seed': seed, 'scenario': 'partition-resolve'}, fails


def partition_dropped_handle(seed):
    """a combination is decomposed through a temporary handle that the user drops before solving"""
    import gc
    from PEPit import PEP
    from PEPit.functions import BlockSmoothConvexFunction
    fails = []
    spy = Spy().install()
    try:
        p = PEP()
        d = 2 + seed % 2
        part = p.declare_block_partition(d=d)
        f = p.declare_function(BlockSmoothConvexFunction, L=[1.0] * d, partition=part)
        xs = f.stationary_point()
        x0 = p.set_initial_point()
        p.set_initial_condition((x0 - xs) ** 2 <= 1)
        g = f.gradient(x0)
        b0 = part.get_block(x0 - xs, 0)               # the combination x0 - xs is a temporary: no handle kept
        gl = part.get_block(g, d - 1)
        p.set_performance_metric(b0 * gl)
        gc.collect()
        try:
            t = solve(p)
        except Exception as e:
            if type(e).__name__ != 'SolverError':
                raise
            t = 'solver-error'
        w = spy.wrappers[-1]
        sent = [o for k, o in w.sent if k == 'scalar' and any(o is c for c in part.list_of_constraints)]
        m = 3          # x0 - xs and g (decomposed by the user), and the null gradient of the stationary point (decomposed by the class)
        want_min = m * m * d * (d - 1) // 2
        if len(sent) < want_min:
            fails.append(('C15', 'orthogonality.at_solve', '%d orthogonality relations reach the solver, at least %d required (a decomposed combination was forgotten)' % (len(sent), want_min)))
        if t != 'solver-error' and (t is None or abs(t) > 1e-4):
            fails.append(('C15', 'orthogonality.value', '<P_0(x0 - xs), P_last(g)> has worst case %r, different blocks are orthogonal (0)' % (t,)))
    finally:
        spy.remove()
    return {'seed': seed, 'scenario': 'partition-dropped-handle'}, fails


def fresh_process(name, seed, fragment):
    """C12: the same program in fresh interpreters, once alone and once after a history that precedes the very first PEP()"""
    import subprocess, sys, os, json
    here = os.path.dirname(os.path.dirname(os.path.abspath(__file__)))
    code = """
import sys, json, warnings
warnings.filterwarnings('ignore')
sys.path.insert(0, %r)
frag = %r
if frag == 'objects':
    from PEPit.point import Point
    from PEPit.expression import Expression
    from PEPit.functions import SmoothConvexFunction
    from PEPit.block_partition import BlockPartition
    a, b = Point(), Point(); e = Expression(); g = SmoothConvexFunction(L=2.); g.gradient(a); q = BlockPartition(d=2); q.get_block(b, 0)
elif frag == 'model':
    from harness import models, scenarios
    scenarios.run_once('T_quadratic', 3)
from harness import scenarios
t, fp = scenarios.run_once(%r, %r)
print(json.dumps({'t': t, 'fp': fp}))
""" % (here, fragment, name, seed)
    fails = []
    outs = []
    for frag in ('none', fragment):
        c = code.replace("frag = %r" % fragment, "frag = %r" % frag)
        env = dict(os.environ)
        r = subprocess.run([sys.executable, '-W', 'ignore', '-c', c], capture_output=True, text=True, env=env, timeout=300)
        line = [l for l in r.stdout.splitlines() if l.startswith('{')]
        if not line:
            raise RuntimeError('fresh process failed: ' + r.stderr[-400:])
        outs.append(json.loads(line[-1]))
    if outs[0]['fp'] != outs[1]['fp']:
        fails.append(('C12', 'same_solver_input.fresh_process', 'solver input of the model differs when objects were created before the first PEP() of the process (%s vs %s constraints sent)' % (outs[1]['fp'][1], outs[0]['fp'][1])))
    if (outs[0]['t'] is None) != (outs[1]['t'] is None) or (outs[0]['t'] is not None and abs(outs[0]['t'] - outs[1]['t']) > 1e-9):
        fails.append(('C12', 'same_result.fresh_process', 'value %r after the history, %r in a fresh interpreter' % (outs[1]['t'], outs[0]['t'])))
    return {'template': name, 'seed': seed, 'fragment': fragment}, fails
