"""Seeded generator of small DSL programs for the bounded solve harness (RT-SOLVE, DESIGN.md 2.8).
Every template is deterministic in its rng, so the same (template, seed) rebuilds the same model in any process."""
import random


def T_gd_ssc(rng, v=0):
    """gradient descent on a smooth strongly convex function, 1-2 steps, 1-2 metrics"""
    from PEPit import PEP
    from PEPit.functions import SmoothStronglyConvexFunction
    mu, L = rng.choice([0.1, 0.25, 0.5]), rng.choice([1.0, 2.0])
    gamma = rng.choice([0.5, 1.0, 1.5]) / L
    n = rng.choice([1, 2])
    p = PEP()
    f = p.declare_function(SmoothStronglyConvexFunction, mu=mu, L=L)
    xs = f.stationary_point()
    fs = f(xs)
    x0 = p.set_initial_point()
    p.set_initial_condition((x0 - xs) ** 2 <= 1)
    x = x0
    for _ in range(n):
        x = x - gamma * f.gradient(x)
    p.set_performance_metric((x - xs) ** 2)
    if rng.random() < 0.5:
        p.set_performance_metric(2 * (f(x) - fs) / L + (x - xs) ** 2 / 2)
    return p, dict(points=[x0, x, xs, x - xs], exprs=[f(x) - fs, (x0 - xs) ** 2], funcs=[f])


def T_metrics(rng, v=0):
    """several performance metrics; which one is active at the optimum, and its position in the list, varies with the variant"""
    from PEPit import PEP
    from PEPit.functions import SmoothStronglyConvexFunction
    mu, L = 0.1, 1.0
    p = PEP()
    f = p.declare_function(SmoothStronglyConvexFunction, mu=mu, L=L)
    xs = f.stationary_point()
    x0 = p.set_initial_point()
    p.set_initial_condition((x0 - xs) ** 2 <= 1)
    x1 = x0 - f.gradient(x0) / L
    d = (x1 - xs) ** 2
    mets = [d + 1, 3 * d + 0.5, 2 * (f(x1) - f(xs)) + 1.2]           # the first one is the smallest at the optimum (0.81 + 1)
    k = v % 3
    mets = mets[k:] + mets[:k]
    for m in mets:
        p.set_performance_metric(m)
    return p, dict(points=[x0, x1, xs], exprs=[d], funcs=[f])


def T_scaled(rng, v=0):
    """a badly scaled but legitimate model: radius 50 and an auxiliary unit vector orthogonal to what the method sees"""
    from PEPit import PEP
    from PEPit.functions import SmoothStronglyConvexFunction
    R = [50., 20.][v % 2]
    big = 1e9 if v >= 2 else 1.          # (v >= 2: the initial condition written in huge units - its exact multiplier is of order 1e-9 / R^2)
    p = PEP()
    f = p.declare_function(SmoothStronglyConvexFunction, L=1., mu=.1)
    xs = f.stationary_point()
    x0 = p.set_initial_point()
    g0 = f.gradient(x0)
    x1 = x0 - g0
    y = p.set_initial_point()
    for c in [big * (x0 - xs) ** 2 <= big * R ** 2, y ** 2 == 1, y * (x0 - xs) == 0, y * g0 == 0]:
        p.set_initial_condition(c)
    p.set_performance_metric((x1 - xs) ** 2)
    return p, dict(points=[x0, x1, y], exprs=[(x1 - xs) ** 2, y * y], funcs=[f], scale=R * R)


def T_illcond(rng, v=0):
    """a stiff but legitimate model: smoothness constant 50 / 100 with a unit initial radius - gradients live on a scale L times that of the points, so the
    multiplier of G >> 0 has genuine eigenvalues more than three orders of magnitude apart"""
    from PEPit import PEP
    from PEPit.functions import SmoothStronglyConvexFunction
    L, mu, n = [(50., .1, 3), (100., 0., 2), (50., .1, 2), (30., .5, 3)][v % 4]
    p = PEP()
    f = p.declare_function(SmoothStronglyConvexFunction, mu=mu, L=L)
    xs = f.stationary_point()
    fs = f(xs)
    x0 = p.set_initial_point()
    p.set_initial_condition((x0 - xs) ** 2 <= 1)
    x = x0
    for _ in range(n):
        x = x - f.gradient(x) / L
    p.set_performance_metric(f(x) - fs)
    return p, dict(points=[x0, x, xs], exprs=[f(x) - fs, (x0 - xs) ** 2], funcs=[f])


def T_prox_convex(rng, v=0):
    from PEPit import PEP
    from PEPit.functions import ConvexFunction
    from PEPit.primitive_steps import proximal_step
    gamma = rng.choice([0.5, 1.0, 3.0])
    n = rng.choice([1, 2])
    p = PEP()
    f = p.declare_function(ConvexFunction)
    xs = f.stationary_point()
    fs = f(xs)
    x0 = p.set_initial_point()
    p.set_initial_condition((x0 - xs) ** 2 <= 1)
    x = x0
    for _ in range(n):
        x, _, fx = proximal_step(x, f, gamma)
    p.set_performance_metric(fx - fs)
    return p, dict(points=[x0, x, xs], exprs=[fx - fs], funcs=[f])


def T_user_lmi(rng, v=0):
    """a user LMI whose entries are, or are not, written symmetrically; a second LMI declared on a function first"""
    from PEPit import PEP, Expression
    from PEPit.functions import SmoothConvexFunction
    L = rng.choice([1.0, 2.0])
    p = PEP()
    f = p.declare_function(SmoothConvexFunction, L=L)
    xs = f.stationary_point()
    x0 = p.set_initial_point()
    p.set_initial_condition((x0 - xs) ** 2 <= 1)
    g0 = f.gradient(x0)
    x1 = x0 - g0 / L
    t = Expression()
    sym = v % 2 == 0
    a, b = (x1 - xs) ** 2, (x0 - xs) ** 2
    if sym and (v // 8) % 2 == 1:
        o = t - 0.5                                # a CONSTANT in the off-diagonal entries (same object at both places)
        mat = [[b, o], [o, 1]]
    elif sym:
        mat = [[b, t], [t, 1]]
    else:
        mat = [[b, t / 2 + (x0 - xs) * (x1 - xs) / 2], [(x0 - xs) * (x1 - xs) - t + t * 1.5 - (x0 - xs) * (x1 - xs) / 2, 1]]
        # upper entry  t/2 + <.,.>/2 ,  lower entry  t/2 + <.,.>/2  written differently: symmetric as a function, not as text
    if (v // 2) % 2 == 0:
        f.add_psd_matrix([[1, (x1 - xs) * g0], [(x1 - xs) * g0, L * L * 4]])
    snapshots = []
    if (v // 4) % 2 == 1:
        # the binding LMI (constant entry 1) is attached to the function, not to the problem
        f.add_psd_matrix(mat)
        m = f.list_of_psd[-1]
    elif v % 3 == 1:
        # declared from a numpy OBJECT array which the user goes on using as a buffer: the declared LMI is what it was when declared
        import numpy as np
        buf = np.empty((2, 2), dtype=object)
        for i_ in range(2):
            for j_ in range(2):
                buf[i_, j_] = mat[i_][j_]
        m = p.add_psd_matrix(buf)
        snapshots.append((m, [[m[i_, j_] for j_ in range(2)] for i_ in range(2)]))
        buf[0, 0] = 5 * b
        buf[1, 1] = 7
    else:
        m = p.add_psd_matrix(mat)
    p.add_constraint(t <= 2)
    p.set_performance_metric(t)
    return p, dict(points=[x0, x1, xs], exprs=[t, a], funcs=[f], lmis=[m], symmetric_as_written=sym, lmi_snapshots=snapshots)


def T_asym_lmi(rng, v=0):
    """an LMI whose (0,1) and (1,0) entries are DIFFERENT expressions (not symmetric as written, nor as a function)"""
    from PEPit import PEP, Expression
    from PEPit.functions import ConvexFunction
    p = PEP()
    f = p.declare_function(ConvexFunction)
    x0 = p.set_initial_point()
    p.set_initial_condition(x0 ** 2 <= 1)
    t, s = Expression(), Expression()
    if v % 2 == 1:      # DIFFERENT constant terms at (0,1) and (1,0): the constant of the certificate then depends on which of the two entries a multiplier entry is paired with
        m = p.add_psd_matrix([[x0 ** 2, t - 0.5], [s + 0.25, 1]])
    else:
        m = p.add_psd_matrix([[x0 ** 2, t], [s, 1]])
    p.add_constraint(s <= 3)
    p.add_constraint(t <= 10)
    p.add_constraint(s >= -3)
    p.add_constraint(t >= -10)
    p.set_performance_metric(s + t / 4)
    return p, dict(points=[x0], exprs=[t, s], funcs=[f], lmis=[m], symmetric_as_written=False, asymmetric=True)


def T_quadratic(rng, v=0):
    """class with a class-level LMI"""
    from PEPit import PEP
    from PEPit.functions import SmoothStronglyConvexQuadraticFunction
    mu, L = rng.choice([0.1, 0.5]), rng.choice([1.0, 2.0])
    gamma = rng.choice([1.0, 2.0]) / (L + mu)
    p = PEP()
    f = p.declare_function(SmoothStronglyConvexQuadraticFunction, mu=mu, L=L)
    xs = f.stationary_point()
    x0 = p.set_initial_point()
    p.set_initial_condition((x0 - xs) ** 2 <= 1)
    x1 = x0 - gamma * f.gradient(x0)
    p.set_performance_metric((x1 - xs) ** 2)
    return p, dict(points=[x0, x1, xs], exprs=[(x1 - xs) ** 2], funcs=[f], class_lmi=True)


def T_composite(rng, v=0):
    """proximal gradient on f1 + f2 (composite function, terms evaluated through the sum)"""
    from PEPit import PEP
    from PEPit.functions import SmoothStronglyConvexFunction, ConvexFunction
    from PEPit.primitive_steps import proximal_step
    mu, L = 0.1, 1.0
    gamma = rng.choice([0.5, 1.0])
    p = PEP()
    f1 = p.declare_function(SmoothStronglyConvexFunction, mu=mu, L=L)
    f2 = p.declare_function(ConvexFunction)
    if v % 3 == 2:
        # a sum whose last addition brings several new leaf functions at once, evaluated directly through the sum
        from PEPit.functions import SmoothConvexFunction
        gs = [p.declare_function(SmoothConvexFunction, L=L) for _ in range(4)]
        F = f1 + (gs[0] + gs[1] + gs[2] + gs[3])
        xs = F.stationary_point()
        x0 = p.set_initial_point()
        p.set_initial_condition((x0 - xs) ** 2 <= 1)
        x1 = x0 - gamma / 5 * F.gradient(x0)
        p.set_performance_metric(F(x1) - F(xs))
        return p, dict(points=[x0, x1, xs], exprs=[(x1 - xs) ** 2], funcs=[f1] + gs + [F])
    F = f1 + f2
    xs = F.stationary_point()
    x0 = p.set_initial_point()
    p.set_initial_condition((x0 - xs) ** 2 <= 1)
    y = x0 - gamma * f1.gradient(x0)
    x1, _, _ = proximal_step(y, f2, gamma)
    if rng.random() < 0.5:
        F.add_constraint((x1 - xs) ** 2 <= 4)
    p.set_performance_metric((x1 - xs) ** 2)
    return p, dict(points=[x0, x1, xs, y], exprs=[(x1 - xs) ** 2], funcs=[f1, f2, F])


def T_duplicates(rng, v=0):
    """the SAME Constraint object registered twice (initial condition + constraint), or the same PSDMatrix object added twice (second time to name it)"""
    from PEPit import PEP, Expression
    from PEPit.functions import SmoothStronglyConvexFunction
    mu, L = 0.1, 1.0
    p = PEP()
    f = p.declare_function(SmoothStronglyConvexFunction, mu=mu, L=L)
    xs = f.stationary_point()
    x0 = p.set_initial_point()
    c = (x0 - xs) ** 2 <= 1
    p.set_initial_condition(c)
    x1 = x0 - rng.choice([1.0, 1.5]) / L * f.gradient(x0)
    lmis = []
    if v % 2 == 0:
        p.add_constraint(c)                              # same object, second registration
        p.set_performance_metric((x1 - xs) ** 2)
        exprs = [(x1 - xs) ** 2]
    else:
        t = Expression()
        m = p.add_psd_matrix([[(x1 - xs) ** 2, t], [t, 1]])
        p.add_psd_matrix(m, name='bound')                # same object, second registration
        p.set_performance_metric(t)
        exprs, lmis = [t], [m]
    return p, dict(points=[x0, x1, xs], exprs=exprs, funcs=[f], lmis=lmis, duplicates=True)


def T_qg(rng, v=0):
    """ConvexQGFunction: stationary point declared first, last, or created by the class at solve time"""
    from PEPit import PEP
    from PEPit.functions import ConvexQGFunction
    L = rng.choice([1.0, 2.0])
    order = ['first', 'last', 'auto', 'auto_qg'][v % 4]
    gamma = 1 / L
    p = PEP()
    f = p.declare_function(ConvexQGFunction, L=L)
    if order == 'auto_qg':
        # ConvexQGFunction itself without a declared minimiser: the class records one while it generates its constraints
        x0 = p.set_initial_point()
        g0, f0 = f.oracle(x0)
        p.set_initial_condition(g0 ** 2 <= 1)
        x1 = x0 - gamma * g0
        f1 = f(x1)
        p.set_performance_metric(f0 - f1)
        return p, dict(points=[x0, x1], exprs=[f0 - f1], funcs=[f], order=order)
    if order == 'auto':
        # no stationary point declared: the class creates one (new leaves) while class constraints are generated at solve time
        from PEPit.functions import RsiEbFunction
        p = PEP()
        f = p.declare_function(RsiEbFunction, mu=0.5, L=2.)
        x0 = p.set_initial_point()
        g0, f0 = f.oracle(x0)
        p.set_initial_condition(g0 ** 2 <= 1)
        x1 = x0 - 0.25 * g0
        g1 = f.gradient(x1)
        p.set_performance_metric(g1 ** 2)
        return p, dict(points=[x0, x1], exprs=[g1 ** 2], funcs=[f], order=order)
    if order == 'first':
        xs = f.stationary_point()
    x0 = p.set_initial_point()
    g0, f0 = f.oracle(x0)
    x1 = x0 - gamma * g0
    f1 = f(x1)
    if order == 'last':
        xs = f.stationary_point()
    fs = f(xs)
    p.set_initial_condition((x0 - xs) ** 2 <= 1)
    p.set_performance_metric(f1 - fs)
    return p, dict(points=[x0, x1, xs], exprs=[f1 - fs], funcs=[f], order=order)


def T_operator(rng, v=0):
    from PEPit import PEP
    from PEPit.operators import MonotoneOperator, CocoerciveOperator, LipschitzStronglyMonotoneOperator, NonexpansiveOperator
    from PEPit.primitive_steps import proximal_step
    kind = ['prox-monotone', 'cocoercive', 'lsm', 'nonexpansive'][v % 4]
    p = PEP()
    if kind == 'prox-monotone':
        A = p.declare_function(MonotoneOperator)
        x0, y0 = p.set_initial_point(), p.set_initial_point()
        p.set_initial_condition((x0 - y0) ** 2 <= 1)
        al = rng.choice([0.5, 2.0])
        x1, _, _ = proximal_step(x0, A, al)
        y1, _, _ = proximal_step(y0, A, al)
        p.set_performance_metric((x1 - y1) ** 2)
        return p, dict(points=[x0, y0, x1, y1], exprs=[(x1 - y1) ** 2], funcs=[A])
    if kind == 'cocoercive':
        beta = rng.choice([0.5, 1.0])
        A = p.declare_function(CocoerciveOperator, beta=beta)
        x0, y0 = p.set_initial_point(), p.set_initial_point()
        p.set_initial_condition((x0 - y0) ** 2 <= 1)
        g = rng.choice([0.5, 1.0]) * beta
        x1, y1 = x0 - g * A.gradient(x0), y0 - g * A.gradient(y0)
        p.set_performance_metric((x1 - y1) ** 2)
        return p, dict(points=[x0, y0, x1, y1], exprs=[(x1 - y1) ** 2], funcs=[A])
    if kind == 'lsm':
        mu, L = rng.choice([0.1, 0.5]), 1.0
        A = p.declare_function(LipschitzStronglyMonotoneOperator, mu=mu, L=L)
        x0, y0 = p.set_initial_point(), p.set_initial_point()
        p.set_initial_condition((x0 - y0) ** 2 <= 1)
        g = mu / L ** 2
        x1, y1 = x0 - g * A.gradient(x0), y0 - g * A.gradient(y0)
        p.set_performance_metric((x1 - y1) ** 2)
        return p, dict(points=[x0, y0, x1, y1], exprs=[(x1 - y1) ** 2], funcs=[A])
    A = p.declare_function(NonexpansiveOperator)
    xs, _, _ = A.fixed_point()
    x0 = p.set_initial_point()
    p.set_initial_condition((x0 - xs) ** 2 <= 1)
    x1 = 0.5 * x0 + 0.5 * A.gradient(x0)
    p.set_performance_metric((x1 - A.gradient(x1)) ** 2)
    return p, dict(points=[x0, x1, xs], exprs=[(x1 - xs) ** 2], funcs=[A])


def T_blocks(rng, v=0):
    """cyclic coordinate descent step on a block-smooth function (partition constraints, class without the helpers)"""
    from PEPit import PEP
    from PEPit.functions import BlockSmoothConvexFunction
    d = rng.choice([2, 3])
    Ls = [rng.choice([1.0, 2.0]) for _ in range(d)]
    p = PEP()
    if (v // 2) % 2 == 1:
        p.declare_block_partition(d=1)          # another partition, never used, declared BEFORE the one that matters
    part = p.declare_block_partition(d=d)
    f = p.declare_function(BlockSmoothConvexFunction, L=Ls, partition=part)
    xs = f.stationary_point()
    x0 = p.set_initial_point()
    p.set_initial_condition((x0 - xs) ** 2 <= 1)
    g0 = f.gradient(x0)
    x1 = x0 - 1 / Ls[0] * part.get_block(g0, 0)
    p.set_performance_metric(f(x1) - f(xs))
    declared = []
    if v % 2 == 1:
        # a constraint the USER puts on the partition (binding: the first block of x0 - xs is small)
        c = part.get_block(x0 - xs, 0) ** 2 <= 0.25
        part.add_constraint(c)
        declared.append(c)
    return p, dict(points=[x0, x1, xs, part.get_block(x0 - xs, d - 1)], exprs=[f(x1) - f(xs)], funcs=[f], partitions=[part], declared=declared)


def T_linear(rng, v=0):
    from PEPit import PEP
    from PEPit.operators import LinearOperator, SymmetricLinearOperator
    p = PEP()
    if v % 2 == 0:
        L = rng.choice([1.0, 2.0])
        M = p.declare_function(LinearOperator, L=L)
        x0, u0 = p.set_initial_point(), p.set_initial_point()
        p.set_initial_condition(x0 ** 2 <= 1)
        p.set_initial_condition(u0 ** 2 <= 1)
        y = M.gradient(x0)
        v = M.T.gradient(u0)
        p.set_performance_metric(y * u0 + v ** 2 / 4)
        return p, dict(points=[x0, u0, y, v], exprs=[y * u0], funcs=[M], class_lmi=True)
    mu, L = rng.choice([0.0, 0.5]), 2.0
    M = p.declare_function(SymmetricLinearOperator, mu=mu, L=L)
    x0 = p.set_initial_point()
    p.set_initial_condition(x0 ** 2 <= 1)
    y = M.gradient(x0)
    if v % 4 == 3:
        # ONE sample only: no scalar class constraint exists, the class LMI is all there is
        p.set_performance_metric(y ** 2)
        return p, dict(points=[x0, y], exprs=[y ** 2], funcs=[M], class_lmi=True, lmi_symmetric_as_written=False)
    z = M.gradient(y)
    p.set_performance_metric(z * x0)
    return p, dict(points=[x0, y, z], exprs=[z * x0], funcs=[M], class_lmi=True, lmi_symmetric_as_written=False)


def T_inexact(rng, v=0):
    from PEPit import PEP
    from PEPit.functions import SmoothStronglyConvexFunction
    from PEPit.primitive_steps import inexact_gradient_step, exact_linesearch_step
    mu, L = 0.1, 1.0
    p = PEP()
    # (v % 3 == 2: the function is built by calling its class, not through declare_function - leaf functions register themselves)
    f = SmoothStronglyConvexFunction(mu=mu, L=L) if v % 3 == 2 else p.declare_function(SmoothStronglyConvexFunction, mu=mu, L=L)
    xs = f.stationary_point()
    fs = f(xs)
    x0 = p.set_initial_point()
    p.set_initial_condition(f(x0) - fs <= 1)
    if rng.random() < 0.5:
        x1, d, f0 = inexact_gradient_step(x0, f, gamma=1.0, epsilon=rng.choice([0.1, 0.3]), notion=rng.choice(['absolute', 'relative']))
        fx = f(x1)
    else:
        x1, g1, fx = exact_linesearch_step(x0, f, [f.gradient(x0)])
    p.set_performance_metric(fx - fs)
    return p, dict(points=[x0, x1, xs], exprs=[fx - fs], funcs=[f], declared=list(f.list_of_constraints))      # the side constraints of the step reach the solver


def T_lmi_trace(rng, v=0):
    """a free point z under the LMI [[c - 5 |z|^2, s], [s, 1]] >> 0: nothing but the trace heuristic has an opinion on |z|^2, and the trace of the AUXILIARY matrix of
    the LMI decreases when |z|^2 grows"""
    from PEPit import PEP, Expression
    from PEPit.functions import SmoothStronglyConvexFunction
    c = [2., 3.][v % 2]
    p = PEP()
    f = p.declare_function(SmoothStronglyConvexFunction, mu=.1, L=1.)
    xs = f.stationary_point()
    x0 = p.set_initial_point()
    p.set_initial_condition((x0 - xs) ** 2 <= 1)
    x1 = x0 - f.gradient(x0)
    z = p.set_initial_point()
    s_ = Expression()
    lmi = p.add_psd_matrix([[c - 5 * z ** 2, s_], [s_, 1.]])
    p.set_performance_metric((x1 - xs) ** 2)
    return p, dict(points=[x0, x1, z], exprs=[(x1 - xs) ** 2, z ** 2], funcs=[f], lmis=[lmi])


def T_nonsmooth(rng, v=0):
    """non-differentiable classes with single-sample conditions and finite parameters; a subgradient requested twice at one named point"""
    from PEPit import PEP
    from PEPit.functions import ConvexSupportFunction, ConvexLipschitzFunction, ConvexIndicatorFunction, SmoothStronglyConvexFunction
    p = PEP()
    kind = ['support', 'lipschitz'][v % 2]
    f = p.declare_function(SmoothStronglyConvexFunction, mu=0.1, L=1.)
    if kind == 'support':
        h = p.declare_function(ConvexSupportFunction, M=2.)
    elif kind == 'lipschitz':
        h = p.declare_function(ConvexLipschitzFunction, M=2.)
    else:
        h = p.declare_function(ConvexIndicatorFunction, D=3.)
    F = f + h
    xs = F.stationary_point()
    x0 = p.set_initial_point(name='x0')
    p.set_initial_condition((x0 - xs) ** 2 <= 1)
    g1 = h.subgradient(x0)
    g2 = h.subgradient(x0)             # a second subgradient at the same (named) point
    x1 = x0 - 0.5 * (f.gradient(x0) + g1)
    if kind == 'indicator':
        p.set_performance_metric((x1 - xs) ** 2)        # (normal cones are unbounded: no term in the subgradients)
    else:
        p.set_performance_metric((x1 - xs) ** 2 + 0.1 * (g1 - g2) ** 2)
    return p, dict(points=[x0, x1, xs], exprs=[(x1 - xs) ** 2], funcs=[f, h, F], kind=kind)


def T_unbounded(rng, v=0):
    from PEPit import PEP
    from PEPit.functions import ConvexFunction
    p = PEP()
    f = p.declare_function(ConvexFunction)
    xs = f.stationary_point()
    x0 = p.set_initial_point()
    kind = ['unbounded', 'infeasible'][v % 2]
    if kind == 'infeasible':
        p.set_initial_condition((x0 - xs) ** 2 <= -1)
    x1 = x0 - f.gradient(x0)
    c = (f(x1) - f(xs) <= 5)
    p.set_performance_metric((x1 - xs) ** 2 if kind == 'unbounded' else f(x1) - f(xs))
    return p, dict(points=[x0, x1, x0 - x1], exprs=[f(x1), f(x1) - f(xs)], funcs=[f], constraints=[c], no_value=True, kind=kind)


TEMPLATES = [T_gd_ssc, T_metrics, T_prox_convex, T_user_lmi, T_asym_lmi, T_quadratic, T_composite, T_qg, T_operator, T_blocks, T_linear, T_inexact, T_nonsmooth]
ALL = {t.__name__: t for t in TEMPLATES + [T_unbounded, T_scaled, T_duplicates, T_illcond, T_lmi_trace]}


def build(name, seed):
    rng = random.Random('%s|%s' % (name, seed))
    return ALL[name](rng, int(seed))


def programs(seed, n):
    rng = random.Random(seed)
    out = []
    names = [t.__name__ for t in TEMPLATES]
    base = rng.randrange(10 ** 6)
    for i in range(n):
        out.append((names[i % len(names)], base + i // len(names)))       # consecutive seeds cycle through each template's variants
    return out
