/-
C06, spec level: a decomposition dictionary denotes a vector (points) or a real (expressions).
The contracts proved on the real code are coefficient-level (coeff (a+b) k = coeff a k + coeff b k, ...).
These lemmas lift them to "under every assignment of vectors to the leaf points": the denotation is linear in the
coefficient map, dropping zero coefficients does not change it, and the product of two combinations is the
bilinear expansion that `multiply_dicts` stores (and `symmetrize_dict` preserves).
-/
import Mathlib.Analysis.InnerProductSpace.Basic
import Mathlib.Data.Finsupp.Basic

open scoped RealInnerProductSpace

variable {K : Type*} {V : Type*} [NormedAddCommGroup V] [InnerProductSpace ℝ V]

/-- denotation of a coefficient map `c` under the assignment `σ` of vectors to keys -/
noncomputable def denP (c : K →₀ ℝ) (σ : K → V) : V := c.sum (fun k a => a • σ k)

theorem denP_add (c d : K →₀ ℝ) (σ : K → V) : denP (c + d) σ = denP c σ + denP d σ := by
  unfold denP
  exact Finsupp.sum_add_index' (by intro k; simp) (by intro k a b; simp [add_smul])

theorem denP_smul (r : ℝ) (c : K →₀ ℝ) (σ : K → V) : denP (r • c) σ = r • denP c σ := by
  unfold denP
  rw [Finsupp.sum_smul_index' (by intro k; simp)]
  simp [Finsupp.smul_sum, mul_smul]

theorem denP_neg (c : K →₀ ℝ) (σ : K → V) : denP (-c) σ = - denP c σ := by
  have h := denP_smul (-1 : ℝ) c σ
  simpa using h

theorem denP_sub (c d : K →₀ ℝ) (σ : K → V) : denP (c - d) σ = denP c σ - denP d σ := by
  rw [sub_eq_add_neg, denP_add, denP_neg, sub_eq_add_neg]

theorem denP_zero (σ : K → V) : denP (0 : K →₀ ℝ) σ = 0 := by
  simp [denP]

/-- the meaning of `multiply_dicts`: <Σ aₖ σₖ, Σ bₗ σₗ> = Σₖ Σₗ aₖ bₗ <σₖ, σₗ> -/
theorem inner_denP (c d : K →₀ ℝ) (σ : K → V) :
    ⟪denP c σ, denP d σ⟫ = c.sum (fun k a => d.sum (fun l b => a * b * ⟪σ k, σ l⟫)) := by
  unfold denP
  simp only [Finsupp.sum, sum_inner, inner_sum, inner_smul_left, inner_smul_right, conj_trivial]
  rw [Finset.sum_comm]
  refine Finset.sum_congr rfl (fun k _ => ?_)
  rw [Finset.mul_sum]
  refine Finset.sum_congr rfl (fun l _ => ?_)
  ring

/-- the meaning of `symmetrize_dict`: mirrored inner-product keys denote the same real -/
theorem inner_denP_symm (c d : K →₀ ℝ) (σ : K → V) :
    ⟪denP c σ, denP d σ⟫ = ⟪denP d σ, denP c σ⟫ := real_inner_comm _ _

/-- squared point = squared norm -/
theorem inner_denP_self (c : K →₀ ℝ) (σ : K → V) : ⟪denP c σ, denP c σ⟫ = ‖denP c σ‖ ^ 2 :=
  real_inner_self_eq_norm_sq _
