/-
C01, spec level: weak duality as arithmetic.  If the exposed multipliers reconstruct
    objective - tau = Σ λₖ cₖ - s - Σ zₘ
at a point where every inequality constraint value cₖ ≤ 0 has λₖ ≥ 0, every equality has cₖ = 0, and the pairings
s = <S, G>, zₘ = <Zₘ, Tₘ> of positive semidefinite matrices are non-negative, then objective ≤ tau.
-/
import Mathlib.Algebra.Order.BigOperators.Group.Finset
import Mathlib.Data.Real.Basic
import Mathlib.Tactic.Linarith

open Finset

theorem certificate_bound {ι κ : Type*} (I : Finset ι) (M : Finset κ)
    (lam c : ι → ℝ) (z : κ → ℝ) (s obj tau : ℝ)
    (hid : obj - tau = (∑ k ∈ I, lam k * c k) - s - ∑ m ∈ M, z m)
    (hterm : ∀ k ∈ I, lam k * c k ≤ 0)
    (hs : 0 ≤ s) (hz : ∀ m ∈ M, 0 ≤ z m) : obj ≤ tau := by
  have h1 : (∑ k ∈ I, lam k * c k) ≤ 0 := Finset.sum_nonpos hterm
  have h2 : 0 ≤ ∑ m ∈ M, z m := Finset.sum_nonneg hz
  linarith

/-- an inequality constraint (c ≤ 0) with a non-negative multiplier, or an equality (c = 0) with any multiplier -/
theorem term_nonpos_ineq (lam c : ℝ) (hl : 0 ≤ lam) (hc : c ≤ 0) : lam * c ≤ 0 :=
  mul_nonpos_of_nonneg_of_nonpos hl hc

theorem term_nonpos_eq (lam c : ℝ) (hc : c = 0) : lam * c ≤ 0 := by
  simp [hc]
