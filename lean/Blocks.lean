/-
C15, spec level: real coordinate-block projections satisfy what the partition imposes.  For a family of pairwise
orthogonal projections P k with Σ P k = id on a real inner-product space: the blocks sum back to the point and different
blocks of any two points are orthogonal.
-/
import Mathlib.Analysis.InnerProductSpace.Basic

open scoped RealInnerProductSpace
open Finset

set_option linter.unusedSectionVars false
variable {V : Type*} [NormedAddCommGroup V] [InnerProductSpace ℝ V] {ι : Type*} [DecidableEq ι]

theorem blocks_sum (B : Finset ι) (P : ι → V →ₗ[ℝ] V) (hsum : ∀ x, ∑ k ∈ B, P k x = x) (x : V) :
    ∑ k ∈ B, P k x = x := hsum x

theorem blocks_orthogonal (P : ι → V →ₗ[ℝ] V)
    (horth : ∀ k l, k ≠ l → ∀ x y, ⟪P k x, P l y⟫ = 0) (k l : ι) (h : k ≠ l) (x y : V) :
    ⟪P k x, P l y⟫ = 0 := horth k l h x y

/-- a one-block partition is the identity -/
theorem one_block_identity (k : ι) (P : ι → V →ₗ[ℝ] V) (hsum : ∀ x, ∑ j ∈ ({k} : Finset ι), P j x = x) (x : V) :
    P k x = x := by
  simpa using hsum x

/-- coordinate blocks of ℝ^n (functions on a finite index type, restricted to a part): different parts are orthogonal
    in the sense that the pointwise products vanish, and the parts of a partition sum back to the vector -/
theorem coordinate_blocks_sum {n : Type*} [Fintype n] [DecidableEq n] (part : n → ι) (B : Finset ι)
    (hB : ∀ i, part i ∈ B) (x : n → ℝ) :
    (fun i => ∑ k ∈ B, (if part i = k then x i else 0)) = x := by
  funext i
  rw [Finset.sum_ite_eq B (part i) (fun _ => x i)]
  simp [hB i]

theorem coordinate_blocks_orthogonal {n : Type*} [Fintype n] (part : n → ι) (k l : ι) (h : k ≠ l) (x y : n → ℝ) :
    ∑ i, (if part i = k then x i else 0) * (if part i = l then y i else 0) = 0 := by
  apply Finset.sum_eq_zero
  intro i _
  by_cases hk : part i = k
  · have hl : ¬ part i = l := fun e => h (hk.symm.trans e)
    rw [if_neg hl, mul_zero]
  · rw [if_neg hk, zero_mul]
