/-
Spec-level lemmas about the row-major index functions used in the contracts of the MOSEK LMI encoding (`ridx`) and of the
generic pair helpers (`cnt`): functions DEFINED by the recursion the contracts assume have the expected closed form / bounds.
These are facts about the spec functions, not about code.
-/
import Mathlib

/-- `ridx` (one row per entry, row-major): the recursion `r 0 0 = 0`, `r i (j+1) = r i j + 1` (j < n), `r (i+1) 0 = r i n`
    forces the closed form `r i j = i * n + j`. -/
theorem ridx_closed (n : ℕ) (r : ℕ → ℕ → ℕ) (h0 : r 0 0 = 0)
    (hstep : ∀ i j, j < n → r i (j + 1) = r i j + 1) (hrow : ∀ i, r (i + 1) 0 = r i n) :
    ∀ i j, j ≤ n → r i j = i * n + j := by
  intro i
  induction i with
  | zero =>
    intro j hj
    induction j with
    | zero => simpa using h0
    | succ j ih =>
      have hj' : j < n := Nat.lt_of_succ_le hj
      rw [hstep 0 j hj', ih (Nat.le_of_lt hj')]
      ring
  | succ i ihi =>
    intro j hj
    induction j with
    | zero =>
      rw [hrow i, ihi n (le_refl n)]
      ring
    | succ j ih =>
      have hj' : j < n := Nat.lt_of_succ_le hj
      rw [hstep (i + 1) j hj', ih (Nat.le_of_lt hj')]
      ring

/-- distinct cells get distinct rows: the closed form is injective on `j < n`. -/
theorem ridx_injective (n : ℕ) (i j i' j' : ℕ) (hj : j < n) (hj' : j' < n) (h : i * n + j = i' * n + j') : i = i' ∧ j = j' := by
  have h1 : (i * n + j) / n = (i' * n + j') / n := by rw [h]
  have hn : 0 < n := Nat.lt_of_le_of_lt (Nat.zero_le j) hj
  rw [Nat.mul_comm i n, Nat.mul_comm i' n, Nat.mul_add_div hn, Nat.mul_add_div hn, Nat.div_eq_of_lt hj, Nat.div_eq_of_lt hj'] at h1
  simp at h1
  subst h1
  exact ⟨rfl, by omega⟩

/-- `cnt` (number of emitting cells before a position): a step adds 0 or 1, so the count never exceeds the number of cells visited. -/
theorem cnt_le_visited (n : ℕ) (c : ℕ → ℕ → ℕ) (e : ℕ → ℕ → Bool) (h0 : c 0 0 = 0)
    (hstep : ∀ i j, j < n → c i (j + 1) = c i j + (if e i j then 1 else 0)) (hrow : ∀ i, c (i + 1) 0 = c i n) :
    ∀ i j, j ≤ n → c i j ≤ i * n + j := by
  intro i
  induction i with
  | zero =>
    intro j hj
    induction j with
    | zero => simp [h0]
    | succ j ih =>
      have hj' : j < n := Nat.lt_of_succ_le hj
      rw [hstep 0 j hj']
      have := ih (Nat.le_of_lt hj')
      split <;> omega
  | succ i ihi =>
    intro j hj
    induction j with
    | zero =>
      rw [hrow i]
      have := ihi n (le_refl n)
      nlinarith
    | succ j ih =>
      have hj' : j < n := Nat.lt_of_succ_le hj
      rw [hstep (i + 1) j hj']
      have := ih (Nat.le_of_lt hj')
      split <;> omega
