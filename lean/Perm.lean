/-
C04, spec level: the set of class conditions generated for a finite set of samples does not depend on the order in which
the samples were declared.  The pair helpers are proved / checked to generate exactly { Φ (l i) (l j) | i ≠ j } (ordered
conditions) for a list `l` of distinct samples; this set is invariant under permutation of `l`.
-/
import Mathlib.Data.List.Perm.Basic
import Mathlib.Data.Set.Basic

variable {α β : Type*}

/-- the set of conditions generated from a list of samples: one per ordered pair of different samples -/
def conds (Φ : α → α → β) (l : List α) : Set β := {c | ∃ a ∈ l, ∃ b ∈ l, a ≠ b ∧ c = Φ a b}

theorem conds_perm (Φ : α → α → β) {l l' : List α} (h : l.Perm l') : conds Φ l = conds Φ l' := by
  ext c
  constructor
  · rintro ⟨a, ha, b, hb, hab, rfl⟩
    exact ⟨a, h.mem_iff.mp ha, b, h.mem_iff.mp hb, hab, rfl⟩
  · rintro ⟨a, ha, b, hb, hab, rfl⟩
    exact ⟨a, h.mem_iff.mpr ha, b, h.mem_iff.mpr hb, hab, rfl⟩

/-- for a symmetric condition, keeping one of each mirrored pair describes the same set -/
theorem conds_symm (Φ : α → α → β) (hΦ : ∀ a b, Φ a b = Φ b a) (l : List α) (c : β) :
    c ∈ conds Φ l ↔ ∃ a ∈ l, ∃ b ∈ l, a ≠ b ∧ c = Φ b a := by
  constructor
  · rintro ⟨a, ha, b, hb, hab, rfl⟩
    exact ⟨a, ha, b, hb, hab, hΦ a b⟩
  · rintro ⟨a, ha, b, hb, hab, rfl⟩
    exact ⟨a, ha, b, hb, hab, (hΦ a b).symm⟩
