# Feasibility spike (design phase, throw-away): derive the VCs of merge_dict / prune_dict AUTOMATICALLY from the
# real AST in /repo and discharge them with z3.  Dicts are immutable SSA values here (no heap / aliasing).
import ast, sys, time, z3
SRC = '/repo/PEPit/tools/dict_operations.py'
K = z3.DeclareSort('Key')
class D:                                   # symbolic dict value
    def __init__(s, dom, val): s.dom, s.val = dom, val
    @staticmethod
    def fresh(n): return D(z3.Array(n+'_dom', K, z3.BoolSort()), z3.Array(n+'_val', K, z3.RealSort()))
def has(d, k): return d.dom[k]
def get(d, k): return d.val[k]
def val0(d, k): return z3.If(d.dom[k], d.val[k], z3.RealVal(0))
kq = z3.Const('k', K)
def forall(f): return z3.ForAll([kq], f(kq))
class VC(Exception): pass
class Engine:
    def __init__(s, fn, contract, src=None):
        tree = ast.parse(src or open(SRC).read())
        s.f = [n for n in tree.body if isinstance(n, ast.FunctionDef) and n.name == fn][0]
        s.c = contract; s.obl = []; s.n = 0; s.loop_ord = 0
    def fresh(s, base): s.n += 1; return '%s!%d' % (base, s.n)
    def emit(s, name, pc, goal): s.obl.append((name, list(pc), goal))
    # ---- expressions
    def ev(s, e, env, pc):
        if isinstance(e, ast.Name): return env[e.id]
        if isinstance(e, ast.Constant): return z3.RealVal(e.value) if isinstance(e.value, (int, float)) else e.value
        if isinstance(e, ast.Call) and isinstance(e.func, ast.Attribute) and e.func.attr == 'copy': return s.ev(e.func.value, env, pc)
        if isinstance(e, ast.Call) and isinstance(e.func, ast.Name) and e.func.id == 'dict' and not e.args:
            return D(z3.K(K, False), z3.K(K, z3.RealVal(0)))
        if isinstance(e, ast.Subscript):
            d, k = s.ev(e.value, env, pc), s.ev(e.slice, env, pc)
            s.emit('safe.KeyError@%d' % e.lineno, pc, has(d, k)); return get(d, k)
        if isinstance(e, ast.BinOp) and isinstance(e.op, ast.Add): return s.ev(e.left, env, pc) + s.ev(e.right, env, pc)
        if isinstance(e, ast.Compare) and len(e.ops) == 1:
            l = s.ev(e.left, env, pc); op = e.ops[0]; r = e.comparators[0]
            if isinstance(op, ast.In):
                if isinstance(r, ast.Call) and r.func.attr == 'keys': r = r.func.value
                return has(s.ev(r, env, pc), l)
            if isinstance(op, ast.NotEq): return l != s.ev(r, env, pc)
        raise VC('unsupported expression %s at line %d' % (ast.dump(e)[:60], e.lineno))
    # ---- statements; returns list of (env, pc) normal continuations; returns collected in s.rets
    def run(s, body, env, pc):
        states = [(env, pc)]
        for st in body:
            nxt = []
            for (env, pc) in states: nxt += s.stmt(st, dict(env), list(pc))
            states = nxt
        return states
    def stmt(s, st, env, pc):
        if isinstance(st, ast.Expr) and isinstance(st.value, ast.Constant): return [(env, pc)]          # docstring (dropped)
        if isinstance(st, ast.Assign) and isinstance(st.targets[0], ast.Name):
            env[st.targets[0].id] = s.ev(st.value, env, pc); return [(env, pc)]
        if isinstance(st, ast.Assign) and isinstance(st.targets[0], ast.Subscript):
            t = st.targets[0]; d = env[t.value.id]; k = s.ev(t.slice, env, pc); v = s.ev(st.value, env, pc)
            env[t.value.id] = D(z3.Store(d.dom, k, True), z3.Store(d.val, k, v)); return [(env, pc)]
        if isinstance(st, ast.AugAssign) and isinstance(st.target, ast.Subscript) and isinstance(st.op, ast.Add):
            t = st.target; d = env[t.value.id]; k = s.ev(t.slice, env, pc); v = s.ev(st.value, env, pc)
            s.emit('safe.KeyError@%d' % st.lineno, pc, has(d, k))
            env[t.value.id] = D(d.dom, z3.Store(d.val, k, get(d, k) + v)); return [(env, pc)]
        if isinstance(st, ast.If):
            c = s.ev(st.test, env, pc)
            return s.run(st.body, env, pc + [c]) + s.run(st.orelse, env, pc + [z3.Not(c)])
        if isinstance(st, ast.Return):
            s.rets.append((s.ev(st.value, env, pc), env, pc)); return []
        if isinstance(st, ast.For):
            s.loop_ord += 1; n = s.loop_ord
            it = st.iter
            assert isinstance(it, ast.Call) and it.func.attr == 'keys', 'spike: only dict.keys() loops'
            cont = s.ev(it.func.value, env, pc); tgt = st.target.id
            modified = sorted({t.value.id if isinstance(t, ast.Subscript) else t.id for x in ast.walk(st) for t in
                               ((x.targets if isinstance(x, ast.Assign) else [x.target]) if isinstance(x, (ast.Assign, ast.AugAssign)) else [])} - {tgt})
            inv = s.c['loops'][n]
            roles = lambda e, seen: dict(e, SEEN=seen, CONTAINER=cont, RET=e.get(s.retvar))
            seen0 = z3.K(K, False)
            for i, cl in enumerate(inv(roles(env, seen0))): s.emit('loop%d.init[%d]' % (n, i), pc, cl)
            # arbitrary iteration
            henv = dict(env)
            for m in modified: henv[m] = D.fresh(s.fresh(m))
            seen = z3.Array(s.fresh('seen'), K, z3.BoolSort()); key = z3.Const(s.fresh(tgt), K)
            hpc = pc + inv(roles(henv, seen)) + [forall(lambda k: z3.Implies(seen[k], has(cont, k))), has(cont, key), z3.Not(seen[key])]
            benv = dict(henv); benv[tgt] = key
            for bi, (e2, pc2) in enumerate(s.run(st.body, benv, hpc)):
                for i, cl in enumerate(inv(roles(e2, z3.Store(seen, key, True)))): s.emit('loop%d.preserve[path%d][%d]' % (n, bi, i), pc2, cl)
            # exit
            xenv = dict(env)
            for m in modified: xenv[m] = D.fresh(s.fresh(m))
            seenx = z3.Array(s.fresh('seen'), K, z3.BoolSort())
            xpc = pc + inv(roles(xenv, seenx)) + [forall(lambda k: seenx[k] == has(cont, k))]
            return [(xenv, xpc)]
        raise VC('unsupported statement %s at line %d' % (type(st).__name__, st.lineno))
    def verify(s):
        params = [a.arg for a in s.f.args.args]; env = {p: D.fresh(p) for p in params}
        rets = [n for n in ast.walk(s.f) if isinstance(n, ast.Return)]
        s.retvar = rets[0].value.id if len(rets) == 1 and isinstance(rets[0].value, ast.Name) else None
        s.rets = []
        s.run(s.f.body, env, [])
        for (r, e, pc) in s.rets:
            for i, cl in enumerate(s.c['ensures'](dict(env, result=r))): s.emit('post[%d]' % i, pc, cl)
        out = []
        for name, pc, goal in s.obl:
            sv = z3.Solver(); sv.set('timeout', 10000); sv.add(*pc); sv.add(z3.Not(goal)); t = time.time(); r = sv.check()
            out.append((name, str(r), time.time() - t))
        return out
CONTRACTS = {
 'merge_dict': dict(
    ensures=lambda e: [forall(lambda k: has(e['result'], k) == z3.Or(has(e['dict1'], k), has(e['dict2'], k))),
                       forall(lambda k: val0(e['result'], k) == val0(e['dict1'], k) + val0(e['dict2'], k))],
    loops={1: lambda e: [forall(lambda k: has(e['RET'], k) == z3.Or(has(e['dict1'], k), e['SEEN'][k])),
                         forall(lambda k: z3.Implies(has(e['RET'], k), get(e['RET'], k) == val0(e['dict1'], k) + z3.If(e['SEEN'][k], get(e['dict2'], k), 0)))]}),
 'prune_dict': dict(
    ensures=lambda e: [forall(lambda k: has(e['result'], k) == z3.And(has(e['my_dict'], k), get(e['my_dict'], k) != 0)),
                       forall(lambda k: z3.Implies(has(e['result'], k), get(e['result'], k) == get(e['my_dict'], k)))],
    loops={1: lambda e: [forall(lambda k: has(e['RET'], k) == z3.And(e['SEEN'][k], get(e['my_dict'], k) != 0)),
                         forall(lambda k: z3.Implies(has(e['RET'], k), get(e['RET'], k) == get(e['my_dict'], k)))]}),
}
def report(title, res):
    bad = [r for r in res if r[1] != 'unsat']
    print('%-58s obligations=%2d discharged=%2d  max %.0f ms %s' % (title, len(res), len(res) - len(bad), 1000 * max(r[2] for r in res), ('FAILED: ' + ', '.join('%s=%s' % (r[0], r[1]) for r in bad)) if bad else ''))
src = open(SRC).read()
for fn in ('merge_dict', 'prune_dict'): report(fn + ' (real source)', Engine(fn, CONTRACTS[fn]).verify())
# mutants of the real text (scratch strings, nothing written)
report('merge_dict  MUTANT  "+=" -> "="', Engine('merge_dict', CONTRACTS['merge_dict'], src.replace('merged_dict[key] += dict2[key]', 'merged_dict[key] = dict2[key]')).verify())
report('prune_dict  MUTANT  "!= 0" -> "!= 1"', Engine('prune_dict', CONTRACTS['prune_dict'], src.replace('if my_dict[key] != 0:', 'if my_dict[key] != 1:')).verify())
# benign refactors
report('merge_dict  BENIGN  rename local, keys() dropped on rhs', Engine('merge_dict', CONTRACTS['merge_dict'], src.replace('merged_dict', 'acc')).verify())
