# Throw-away recording stand-in for the subset of the MOSEK Optimizer API used by PEPit's MosekWrapper.
import numpy as np
class Error(Exception): pass
class _E:
    def __init__(s, n): s.n = n
    def __repr__(s): return s.n
class _NS:
    def __init__(s, *names):
        for n in names: setattr(s, n, _E(n))
boundkey = _NS('fr', 'up', 'lo', 'fx', 'ra'); soltype = _NS('itr', 'bas'); objsense = _NS('maximize', 'minimize')
feature = _NS('pton', 'pts'); streamtype = _NS('log', 'msg')
TRACE = []
class Task:
    def __init__(s): s.numbarvar = 0; s.bardim = []; s.numvar = 0; s.numcon = 0; s.symmats = []
    def _r(s, *a): TRACE.append(a)
    def set_Stream(s, *a): pass
    def appendbarvars(s, dims):
        for d in dims: s.bardim.append(int(d)); s.numbarvar += 1
        s._r('appendbarvars', list(dims), 'new index', s.numbarvar - 1)
    def appendvars(s, n): s.numvar += n; s._r('appendvars', n)
    def putvarbound(s, j, bk, l, u): assert 0 <= j < s.numvar
    def getnumcon(s): return s.numcon
    def getmaxnumvar(s): return s.numvar
    def appendcons(s, n): s.numcon += n
    def appendsparsesymmat(s, dim, subi, subj, val):
        subi, subj = list(subi), list(subj)
        assert all(i >= j for i, j in zip(subi, subj)), 'not lower triangular'
        assert len(set(zip(subi, subj))) == len(subi), 'duplicate position'
        s.symmats.append((dim, subi, subj, list(val))); return len(s.symmats) - 1
    def putbaraij(s, i, j, sub, w):
        if not (0 <= j < s.numbarvar): raise Error('putbaraij: bar variable index %d out of range (numbarvar=%d)' % (j, s.numbarvar))
        dim = s.symmats[sub[0]][0]
        if dim != s.bardim[j]: raise Error('putbaraij: matrix of dimension %d put on bar variable %d of dimension %d' % (dim, j, s.bardim[j]))
        s._r('putbaraij', 'row', i, 'barvar', j)
    def putaijlist(s, subi, subj, val): s._r('putaijlist', [int(x) for x in subi], [int(x) for x in subj])
    def putconbound(s, i, bk, l, u): s._r('putconbound', i, bk, l, u)
    def putclist(s, subj, val): s._r('putclist', [int(x) for x in subj], list(val))
    def putobjsense(s, sense): s._r('putobjsense', sense)
    def putbarcj(s, j, sub, w): s._r('putbarcj', j)
    def solutionsummary(s, *a): pass
    def optimize(s, **kw): s._r('optimize')
    def getbarxj(s, st, j): d = s.bardim[j]; return np.zeros(d * (d + 1) // 2)
    def getbarsj(s, st, j): d = s.bardim[j]; return np.zeros(d * (d + 1) // 2)
    def getxx(s, st): return np.arange(s.numvar, dtype=float)      # xx[i] = i, so that the index read by the wrapper is visible
    def gety(s, st): return np.zeros(s.numcon)
    def getprosta(s, st): return 'prosta.unknown'
class Env:
    def Task(s): return Task()
    def checkoutlicense(s, f): pass
    def expirylicenses(s): return 1000
