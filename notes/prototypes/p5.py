# Prototype: contract-level execution — run REAL closures / steps from /repo under CPython with contract stand-ins
import sys, types, importlib, warnings; warnings.filterwarnings("ignore")
sys.path.insert(0, '/repo')
import z3
def R(x): return x.t if isinstance(x, SScalar) else (z3.RealVal(repr(float(x))) if isinstance(x, float) else z3.RealVal(int(x)))
class SScalar(float):
    def __new__(cls, t): o = float.__new__(cls, float('nan')); o.t = t; return o
    def _b(s, o, f):
        if isinstance(o, (SPoint, SExpr)): return NotImplemented
        return SScalar(f(s.t, R(o)))
    __add__ = lambda s,o: s._b(o, lambda a,b: a+b); __radd__ = __add__
    __sub__ = lambda s,o: s._b(o, lambda a,b: a-b); __rsub__ = lambda s,o: s._b(o, lambda a,b: b-a)
    __mul__ = lambda s,o: s._b(o, lambda a,b: a*b); __rmul__ = __mul__
    __truediv__ = lambda s,o: s._b(o, lambda a,b: a/b); __rtruediv__ = lambda s,o: s._b(o, lambda a,b: b/a)
    __neg__ = lambda s: SScalar(-s.t)
    def __pow__(s, n): assert n == 2; return SScalar(s.t*s.t)
    def __eq__(s, o): raise RuntimeError("branch on symbolic scalar")
    __hash__ = float.__hash__
BASE = []; IP = {}
def ip(a, b):
    k = tuple(sorted((a, b)));
    if k not in IP: IP[k] = z3.Real('ip_%s_%s' % k)
    return IP[k]
class SPoint:
    def __init__(s, c=None, name=None):
        if c is None: name = name or 'p%d' % len(BASE); BASE.append(name); c = {name: z3.RealVal(1)}
        s.c = c
    def __add__(s, o): assert isinstance(o, SPoint); return SPoint({k: s.c.get(k, 0) + o.c.get(k, 0) for k in {**s.c, **o.c}})
    def __neg__(s): return SPoint({k: -v for k, v in s.c.items()})
    def __sub__(s, o): return s + (-o)
    def __rmul__(s, o):
        if isinstance(o, SPoint): return SExpr(sum([a*b*ip(k, l) for k, a in s.c.items() for l, b in o.c.items()], z3.RealVal(0)))
        if isinstance(o, (int, float)): return SPoint({k: v*R(o) for k, v in s.c.items()})
        raise TypeError
    __mul__ = __rmul__
    def __truediv__(s, d): return s.__rmul__(1 / d)
    def __pow__(s, n): assert n == 2; return s * s
    def get_name(s): return None
class SExpr:
    n = 0
    def __init__(s, t=None):
        if t is None: t = z3.Real('e%d' % SExpr.n); SExpr.n += 1
        s.t = t
    def _w(s, o):
        if isinstance(o, SExpr): return o.t
        if isinstance(o, (int, float)): return R(o)
        raise TypeError
    def __add__(s, o): return SExpr(s.t + s._w(o)); __radd__ = __add__
    def __sub__(s, o): return SExpr(s.t - s._w(o))
    def __rsub__(s, o): return SExpr(s._w(o) - s.t)
    def __neg__(s): return SExpr(-s.t)
    def __rmul__(s, o): assert isinstance(o, (int, float)) and not isinstance(o, SExpr); return SExpr(s.t * R(o))
    __mul__ = __rmul__
    def __truediv__(s, d): return s.__rmul__(1 / d)
    def __le__(s, o): return SCons(s.t - s._w(o), 'inequality')
    def __ge__(s, o): return SCons(s._w(o) - s.t, 'inequality')
    def __eq__(s, o): return SCons(s.t - s._w(o), 'equality')
    __hash__ = object.__hash__
class SCons:
    def __init__(s, t, sense): s.t, s.sense, s.name = t, sense, None
    def set_name(s, n): s.name = n
def prove(name, hyp, goal):
    sv = z3.Solver(); sv.set('timeout', 20000); sv.add(hyp); sv.add(z3.Not(goal)); r = sv.check()
    print('%-60s %s' % (name, r)); return r
# ---- real closures
from PEPit.functions import SmoothStronglyConvexFunction, SmoothFunction
from PEPit.operators import CocoerciveOperator
mu, L, beta = z3.Reals('mu L beta')
xi, gi, xj, gj = SPoint(name='xi'), SPoint(name='gi'), SPoint(name='xj'), SPoint(name='gj'); fi, fj = SExpr(z3.Real('fi')), SExpr(z3.Real('fj'))
self_ = types.SimpleNamespace(mu=SScalar(mu), L=SScalar(L), beta=SScalar(beta))
c = SmoothStronglyConvexFunction.set_smoothness_strong_convexity_constraint_i_j(self_, xi, gi, fi, xj, gj, fj)
dx, dg = xi - xj, gi - gj
doc = -(fi - fj - gj*dx - SScalar(1/(2*(1-mu/L))) * ( SScalar(1/L)*(dg*dg) + SScalar(mu)*(dx*dx) - SScalar(2*mu/L)*(dg*dx) ))
prove('SmoothStronglyConvex closure == documented (all mu<L)', [L > 0, mu >= 0, mu < L], c.t == doc.t); print('   sense', c.sense)
c2 = SmoothFunction.set_smoothness_i_j(self_, xi, gi, fi, xj, gj, fj)
doc2 = -(fi - fj + SScalar(L/4)*(dx*dx) - 0.5*((gi+gj)*dx) - SScalar(1/(4*L))*(dg*dg))
prove('SmoothFunction closure == documented', [L > 0], c2.t == doc2.t)
c3 = CocoerciveOperator.set_cocoercivity_constraint_i_j(self_, xi, gi, fi, xj, gj, fj)
c3s = CocoerciveOperator.set_cocoercivity_constraint_i_j(self_, xj, gj, fj, xi, gi, fi)
prove('Cocoercive closure symmetric in (i,j)', [], c3.t == c3s.t)
# ---- a real step with substituted module globals
import importlib; ps = importlib.import_module("PEPit.primitive_steps.proximal_step")
class SFunction:
    def __init__(s): s.points = []
    def add_point(s, t): s.points.append(t)
f_real = ps.proximal_step
g = dict(f_real.__globals__); g['Point'] = SPoint; g['Expression'] = SExpr
f_cle = types.FunctionType(f_real.__code__, g, f_real.__name__, f_real.__defaults__, f_real.__closure__)
F = SFunction(); x0 = SPoint(name='x0'); gamma = z3.Real('gamma')
x, gx, fx = f_cle(x0, F, SScalar(gamma))
print('proximal_step: recorded', len(F.points), 'triplet; same objects returned:', F.points[0][0] is x and F.points[0][1] is gx and F.points[0][2] is fx)
exp = {k: v for k, v in x.c.items()}
goal = z3.And(x.c['x0'] == 1, *[x.c[k] == -gamma for k in x.c if k != 'x0'])
prove('proximal_step: x == x0 - gamma*gx', [], goal); print('   gx fresh leaf:', list(gx.c.keys()), ' x base:', list(x.c.keys()))
