# Prototype VCs: CvxpyWrapper._recover_dual_values  (index arithmetic over tracked list)
from z3 import *
import time
def prove(name, hyp, goal, to=20000):
    s = Solver(); s.set('timeout', to); s.add(hyp); s.add(Not(goal))
    t=time.time(); r = s.check(); print('%-28s'%name, r, '%.3fs'%(time.time()-t))
    if r == sat:
        m = s.model(); print('    ', {d.name(): m[d] for d in m.decls() if d.arity()==0})
    return r
n = Int('n')                       # len(tracked)
isP = Function('isPSD', IntSort(), BoolSort())      # tracked[k] is a PSDMatrix (else Constraint)
sh0 = Function('shape0', IntSort(), IntSort()); sh1 = Function('shape1', IntSort(), IntSort())
pos = Function('pos', IntSort(), IntSort())         # spec: index in solver list of head of enc(T[k])
temp = Function('temp', IntSort(), IntSort())       # dual_values_temp[c]  (abstract value id)
k = Int('k')
def w(k): return If(isP(k), 1 + sh0(k)*sh1(k), 1)
spec = [pos(0) == 1, ForAll([k], Implies(And(k>=0, k<n), pos(k+1) == pos(k) + w(k))), n >= 0,
        ForAll([k], And(sh0(k) >= 0, sh1(k) >= 0))]
# loop state: i (iteration), counter, counter2, out (list: len, elems)
i, counter, counter2, olen = Ints('i counter counter2 olen')
out = Array('out', IntSort(), IntSort())
def Inv(i, counter, counter2, olen, out):
    return And(i>=0, i<=n, counter == pos(i), counter2 == 1+i, olen == 1+i, out[0] == temp(0),
               ForAll([k], Implies(And(k>=0, k<i), out[1+k] == temp(pos(k)))))
prove('init', spec, Inv(0, 1, 1, 1, Store(out, 0, temp(0))))
pre = spec + [Inv(i, counter, counter2, olen, out), i < n]
# branch Constraint
outC = Store(out, olen, temp(counter))
prove('preserve[Constraint]', pre + [Not(isP(i))], Inv(i+1, counter+1, counter2+1, olen+1, outC))
# branch PSD: append temp[counter]; counter += 1; counter2 += 1; size = s0*s1; counter += size
prove('preserve[PSD]', pre + [isP(i)], Inv(i+1, counter+1+sh0(i)*sh1(i), counter2+1, olen+1, outC))
# mutant: counter += size - 1
prove('MUT preserve[PSD]', pre + [isP(i)], Inv(i+1, counter+1+sh0(i)*sh1(i)-1, counter2+1, olen+1, outC))
# exit
post = And(olen == 1+n, ForAll([k], Implies(And(k>=0,k<n), out[1+k] == temp(pos(k)))), counter2 == olen)
prove('exit', spec + [Inv(i, counter, counter2, olen, out), Not(i < n)], post)
