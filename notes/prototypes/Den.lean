import Mathlib.Analysis.InnerProductSpace.Basic
import Mathlib.Data.Finsupp.Basic

open scoped RealInnerProductSpace

variable {K : Type*} {V : Type*} [NormedAddCommGroup V] [InnerProductSpace ℝ V]

noncomputable def denP (c : K →₀ ℝ) (σ : K → V) : V := c.sum (fun k a => a • σ k)

theorem denP_add (c d : K →₀ ℝ) (σ : K → V) : denP (c + d) σ = denP c σ + denP d σ := by
  unfold denP
  exact Finsupp.sum_add_index' (by intro k; simp) (by intro k a b; simp [add_smul])

theorem denP_smul (r : ℝ) (c : K →₀ ℝ) (σ : K → V) : denP (r • c) σ = r • denP c σ := by
  unfold denP
  rw [Finsupp.sum_smul_index' (by intro k; simp)]
  simp [Finsupp.smul_sum, mul_smul]

theorem inner_denP (c d : K →₀ ℝ) (σ : K → V) :
    ⟪denP c σ, denP d σ⟫ = c.sum (fun k a => d.sum (fun l b => a * b * ⟪σ k, σ l⟫)) := by
  unfold denP
  simp only [Finsupp.sum, sum_inner, inner_sum, inner_smul_left, inner_smul_right, conj_trivial]
  rw [Finset.sum_comm]
  refine Finset.sum_congr rfl (fun k _ => ?_)
  rw [Finset.mul_sum]
  refine Finset.sum_congr rfl (fun l _ => ?_)
  ring

theorem inner_denP_symm (c d : K →₀ ℝ) (σ : K → V) :
    ⟪denP c σ, denP d σ⟫ = ⟪denP d σ, denP c σ⟫ := real_inner_comm _ _
