# Prototype VCs: expression_to_sparse_matrices, G-part (pair keys only), loop over items with ghost 'seen'
from z3 import *
import time
def prove(name, hyp, goal, to=30000):
    s = Solver(); s.set('timeout', to); s.add(hyp); s.add(Not(goal))
    t=time.time(); r = s.check(); print('%-34s'%name, r, '%.3fs'%(time.time()-t))
    if r == sat: print('    model size', len(s.model().decls()))
    return r
P = DeclareSort('P')                                   # leaf points
c = Function('c', P, IntSort())                        # counter
dom = Function('dom', P, P, BoolSort())                # Pair(p,q) in decomposition_dict
wt  = Function('wt', P, P, RealSort())                 # its weight
seen = Function('seen', P, P, BoolSort())
p,q,r_,s_ = Consts('p q r s', P)
t,u = Ints('t u')
Reg = [ForAll([p,q], Implies(c(p) == c(q), p == q)), ForAll([p], c(p) >= 0)]
def emits(p,q): return Or(Not(dom(q,p)), c(p) >= c(q))
def posi(p,q): return If(c(p) >= c(q), c(p), c(q))
def posj(p,q): return If(c(p) >= c(q), c(q), c(p))
def valu(p,q): return (wt(p,q) + If(dom(q,p), wt(q,p), 0)) / 2
# output lists + ghost source arrays
m = Int('m'); I = Array('I', IntSort(), IntSort()); J = Array('J', IntSort(), IntSort()); V = Array('V', IntSort(), RealSort())
s1 = Function('s1', IntSort(), P); s2 = Function('s2', IntSort(), P)          # ghost: source key of entry t
idx = Function('idx', P, P, IntSort())                                       # ghost: entry of emitting seen key
def Inv(seen, m, I, J, V, s1, s2, idx):
    return And(m >= 0,
      ForAll([p,q], Implies(seen(p,q), dom(p,q))),
      ForAll([t], Implies(And(t>=0, t<m), And(seen(s1(t), s2(t)), emits(s1(t), s2(t)),
                    I[t] == posi(s1(t),s2(t)), J[t] == posj(s1(t),s2(t)), V[t] == valu(s1(t),s2(t)),
                    idx(s1(t), s2(t)) == t))),
      ForAll([p,q], Implies(And(seen(p,q), emits(p,q)), And(idx(p,q) >= 0, idx(p,q) < m, s1(idx(p,q)) == p, s2(idx(p,q)) == q))))
# --- preservation for one arbitrary unseen key (a,b)
a,b = Consts('a b', P)
pre = Reg + [Inv(seen, m, I, J, V, s1, s2, idx), dom(a,b), Not(seen(a,b))]
seen2 = lambda x,y: Or(seen(x,y), And(x==a, y==b))
# code: if (b,a) in dict: if c(a) >= c(b): append((w+wsym)/2 at (c(a), c(b)))   else: append(w/2 at (max,min))
# branch 1: mirrored present and c(a) >= c(b)  -> append
I2, J2, V2 = Store(I, m, c(a)), Store(J, m, c(b)), Store(V, m, (wt(a,b) + wt(b,a))/2)
s1n = lambda x: If(x == m, a, s1(x)); s2n = lambda x: If(x == m, b, s2(x))
idxn = lambda x,y: If(And(x==a, y==b), m, idx(x,y))
prove('preserve[mirror, c1>=c2]', pre + [dom(b,a), c(a) >= c(b)], Inv(seen2, m+1, I2, J2, V2, s1n, s2n, idxn))
# branch 2: mirrored present and c(a) < c(b) -> nothing appended
prove('preserve[mirror, c1<c2]', pre + [dom(b,a), c(a) < c(b)], Inv(seen2, m, I, J, V, s1, s2, idx))
# branch 3: mirrored absent -> append w/2 at (max,min)
I3, J3, V3 = Store(I, m, If(c(a)>=c(b), c(a), c(b))), Store(J, m, If(c(a)>=c(b), c(b), c(a))), Store(V, m, (wt(a,b) + 0)/2)
prove('preserve[no mirror]', pre + [Not(dom(b,a))], Inv(seen2, m+1, I3, J3, V3, s1n, s2n, idxn))
# mutant of branch 3: forget the /2
prove('MUT preserve[no mirror]', pre + [Not(dom(b,a))], Inv(seen2, m+1, I3, J3, Store(V, m, wt(a,b)), s1n, s2n, idxn))
# --- exit: seen == dom  => postconditions
ex = Reg + [Inv(seen, m, I, J, V, s1, s2, idx), ForAll([p,q], seen(p,q) == dom(p,q))]
prove('post lower-triangular', ex, ForAll([t], Implies(And(t>=0,t<m), I[t] >= J[t])))
prove('post no duplicate position', ex, ForAll([t,u], Implies(And(t>=0,t<m,u>=0,u<m, I[t]==I[u], J[t]==J[u]), t==u)))
# entry value: for leaf points p,q with c(p) > c(q): twice the stored value equals coeff(p,q)+coeff(q,p); none stored iff both absent
co = lambda x,y: If(dom(x,y), wt(x,y), 0)
prove('post offdiag value', ex, ForAll([p,q,t], Implies(And(c(p) > c(q), t>=0, t<m, I[t]==c(p), J[t]==c(q)), 2*V[t] == co(p,q)+co(q,p))))
prove('post offdiag presence', ex, ForAll([p,q], Implies(And(c(p) > c(q), Or(dom(p,q), dom(q,p))), Exists([t], And(t>=0,t<m,I[t]==c(p),J[t]==c(q))))))
prove('post diag value', ex, ForAll([p,t], Implies(And(t>=0, t<m, I[t]==c(p), J[t]==c(p)), V[t] == co(p,p))))
