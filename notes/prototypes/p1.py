# Prototype: merge_dict loop VCs with dict = (dom: K->Bool, val: K->Real), ghost seen-set.
from z3 import *
import time
K = DeclareSort('K')
def A(s): return Array(s, K, BoolSort())
def V(s): return Array(s, K, RealSort())
d1d, d1v, d2d, d2v = A('d1d'), V('d1v'), A('d2d'), V('d2v')
md, mv, seen = A('md'), V('mv'), A('seen')
k = Const('k', K)
def val0(dom, val, key): return If(dom[key], val[key], RealVal(0))
def Inv(md, mv, seen):
    return And(
        ForAll([k], Implies(seen[k], d2d[k])),
        ForAll([k], md[k] == Or(d1d[k], seen[k])),
        ForAll([k], Implies(md[k], mv[k] == val0(d1d,d1v,k) + If(seen[k], d2v[k], RealVal(0)))))
def prove(name, hyp, goal):
    s = Solver(); s.set('timeout', 10000)
    s.add(hyp); s.add(Not(goal))
    t=time.time(); r = s.check(); print(name, r, '%.3fs'%(time.time()-t))
    if r == sat: print(s.model())
# init: merged = dict1.copy(); seen = empty
seen0 = A('seen0')
prove('init', [ForAll([k], Not(seen0[k]))], Inv(d1d, d1v, seen0))
# preservation: pick key kk in d2 not seen
kk = Const('kk', K)
pre = [Inv(md, mv, seen), d2d[kk], Not(seen[kk])]
# branch: key in dict1 -> merged[key] += dict2[key]
md_a, mv_a = md, Store(mv, kk, mv[kk] + d2v[kk])
md_b, mv_b = Store(md, kk, True), Store(mv, kk, d2v[kk])
seen2 = Store(seen, kk, True)
prove('pres-then', pre + [d1d[kk]], Inv(md_a, mv_a, seen2))
prove('pres-else', pre + [Not(d1d[kk])], Inv(md_b, mv_b, seen2))
# mutated body: else branch sets merged[key] = 0  -> must be sat
prove('MUT pres-else', pre + [Not(d1d[kk])], Inv(md_b, Store(mv, kk, RealVal(0)), seen2))
# exit: seen == d2d  => post
post = And(ForAll([k], md[k] == Or(d1d[k], d2d[k])), ForAll([k], Implies(md[k], mv[k] == val0(d1d,d1v,k)+val0(d2d,d2v,k))))
prove('exit', [Inv(md, mv, seen), ForAll([k], seen[k] == d2d[k])], post)
# safety: merged[key] += ... requires key in merged
prove('keyerror-free', pre + [d1d[kk]], md[kk])
