from z3 import *
import time
def prove(name, hyp, goal, to=60000):
    s = Solver(); s.set('timeout', to)
    s.add(hyp); s.add(Not(goal))
    t=time.time(); r = s.check(); print(name, r, '%.3fs'%(time.time()-t))
    if r == sat: print('   model', s.model())
    return r
def w(o): return o.t if isinstance(o, S) else (RealVal(o) if isinstance(o,(int,float)) else o)
class S:  # scalar / expression value: wraps z3 real term
    def __init__(s, t): s.t = t
    def __add__(s,o): return S(s.t + w(o))
    __radd__ = __add__
    def __sub__(s,o): return S(s.t - w(o))
    def __rsub__(s,o): return S(w(o) - s.t)
    def __neg__(s): return S(-s.t)
    def __mul__(s,o):
        if isinstance(o, P): return P([s.t*a for a in o.c])
        return S(s.t * w(o))
    __rmul__ = __mul__
    def __truediv__(s,o): return S(s.t / w(o))
    def __rtruediv__(s,o): return S(w(o) / s.t)
    def __pow__(s,n): return S(s.t*s.t)
base = ['xi','gi','xj','gj']
IP = {}
for a in range(4):
    for b in range(a,4):
        IP[(a,b)] = IP[(b,a)] = Real('ip_%s_%s'%(base[a],base[b]))
class P:
    def __init__(s, c): s.c = c
    def __add__(s,o): return P([a+b for a,b in zip(s.c,o.c)])
    def __sub__(s,o): return P([a-b for a,b in zip(s.c,o.c)])
    def __mul__(s,o):
        if isinstance(o,P): return S(sum(s.c[a]*o.c[b]*IP[(a,b)] for a in range(4) for b in range(4)))
        return P([w(o)*a for a in s.c])
    __rmul__ = __mul__
    def __pow__(s,n): return s*s
def e(i): return P([RealVal(1) if k==i else RealVal(0) for k in range(4)])
xi,gi,xj,gj = e(0),e(1),e(2),e(3)
mu_, L_, fi_, fj_ = Reals('mu L fi fj'); mu, L, fi, fj = S(mu_), S(L_), S(fi_), S(fj_)
code = (fi - fj) - ( gj*(xi-xj) + 1/(2*L)*(gi-gj)**2 + mu/(2*(1-mu/L))*(xi-xj-1/L*(gi-gj))**2 )
dx = xi-xj; dg = gi-gj
doc = fi - fj - gj*dx - 1/(2*(1-mu/L))*( 1/L*(dg*dg) + mu*(dx*dx) - 2*mu/L*(dg*dx) )
dom = [L_>0, mu_>=0, mu_<L_]
prove('ssc formula identity', dom, code.t == doc.t)
mut = (fi - fj) - ( gj*(xi-xj) + 1/(L)*(gi-gj)**2 + mu/(2*(1-mu/L))*(xi-xj-1/L*(gi-gj))**2 )
prove('MUT formula identity', dom, mut.t == doc.t)
q, a, b = Reals('q a b')
sub = {(0,0): a*a, (0,1): a*(q*a), (0,2): a*b, (0,3): a*(q*b), (1,1): q*a*q*a, (1,2): q*a*b, (1,3): q*a*q*b,
       (2,2): b*b, (2,3): b*q*b, (3,3): q*b*q*b}
pairs = [(IP[k], v) for k,v in sub.items()] + [(fi_, q*a*a/2), (fj_, q*b*b/2)]
def inst(t): return substitute(t, *pairs)
fam = dom + [q>=mu_, q<=L_]
prove('family quad: code>=0', fam, inst(code.t) >= 0)
prove('family quad: MUT>=0', fam, inst(mut.t) >= 0)
mut2 = (fi - fj) - ( gj*(xi-xj) + 1/(2*L)*(gi-gj)**2 + 1.01*mu/(2*(1-mu/L))*(xi-xj-1/L*(gi-gj))**2 )
prove('family quad: MUT2>=0', fam, inst(mut2.t) >= 0)
