# Exploratory bounded enumeration of oracle-call sequences; checks invariants I1-I3 on the real objects
import warnings; warnings.filterwarnings("ignore")
import itertools, random, collections
from PEPit import PEP, Point, Expression
from PEPit.functions import SmoothConvexFunction, ConvexFunction
from PEPit.tools.dict_operations import prune_dict
def cm(obj): return {k: v for k, v in obj.decomposition_dict.items() if v != 0}
def same(a, b): return cm(a) == cm(b)
def lin(pairs):  # weighted sum of coefficient maps
    out = collections.defaultdict(float)
    for w, m in pairs:
        for k, v in m.items(): out[k] += w * v
    return {k: v for k, v in out.items() if abs(v) > 1e-12}
def close(a, b): return set(a) == set(b) and all(abs(a[k] - b[k]) < 1e-9 for k in a)
def setup(variant):
    pep = PEP()
    f1 = pep.declare_function(SmoothConvexFunction, L=1.); f2 = pep.declare_function(ConvexFunction)
    x = pep.set_initial_point(); y = pep.set_initial_point()
    fs = {'f1': f1, 'f2': f2, 'F': -1 * f1 + 1.5 * f2, 'Z': f1 + f2 - f2, 'N': 2 * (f1 + f2) / 4}
    if variant == 1: fs = {'f1': f1, 'f2': f2, 'F': f1 + f2, 'Z': f2 + f1 - f1, 'N': (f1 - f2) * 0.5 + f2}
    pts = {'x': x, 'y': y, 'x+y': x + y, '0x': x * 0, 'x-x': x - x}
    return fs, pts
ACTIONS = [(op, fn, pt) for op in ('oracle', 'gradient', 'value') for fn in ('f1', 'f2', 'F', 'Z', 'N') for pt in ('x', 'y', 'x+y', '0x', 'x-x')] + [('stationary_point', fn, None) for fn in ('f1', 'f2', 'F', 'Z', 'N')] + [('fixed_point', fn, None) for fn in ('f1', 'F')]
def check(fs):
    problems = []
    for name, F in fs.items():
        # I1
        for (x, g, f) in F.list_of_points:
            for o in (x, g, f):
                if any(v == 0 for v in o.decomposition_dict.values()): problems.append((name, 'I1 unpruned stored sample'))
        stat = [t for t in F.list_of_points if cm(t[1]) == {}]
        if [id(t) for t in stat] != [id(t) for t in F.list_of_stationary_points]: problems.append((name, 'I1 stationary list mismatch'))
        # I2
        for a, b in itertools.combinations(F.list_of_points, 2):
            if same(a[0], b[0]):
                if not close(cm(a[2]), cm(b[2])): problems.append((name, 'I2 two values at one point'))
                if F.reuse_gradient and not close(cm(a[1]), cm(b[1])): problems.append((name, 'I2 two gradients at one point of a differentiable function'))
        # I3
        if not F.get_is_leaf():
            w = {phi: c for phi, c in F.decomposition_dict.items() if c != 0}
            for (x, g, f) in F.list_of_points:
                cands = [[t for t in phi.list_of_points if same(t[0], x)] for phi in w]
                if any(len(c) == 0 for c in cands): problems.append((name, 'I3 term not evaluated at a point of the sum')); continue
                ok = False
                for combo in itertools.product(*cands):
                    if close(lin([(c, cm(t[1])) for c, t in zip(w.values(), combo)]), cm(g)) and close(lin([(c, cm(t[2])) for c, t in zip(w.values(), combo)]), cm(f)): ok = True; break
                if not ok: problems.append((name, 'I3 sample of the sum is not the weighted sum of its terms\' samples'))
    return problems
def run(seq, variant):
    fs, pts = setup(variant)
    for (op, fn, pt) in seq:
        F = fs[fn]
        if op in ('oracle', 'gradient', 'value'): getattr(F, op)(pts[pt])
        elif op == 'stationary_point': F.stationary_point()
        else: F.fixed_point()
    return check(fs)
found = collections.Counter(); examples = {}
total = 0
for variant in (0, 1):
    for L in (1, 2):
        for seq in itertools.product(ACTIONS, repeat=L):
            total += 1
            for p in set(run(seq, variant)):
                found[p] += 1; examples.setdefault(p, (variant, seq))
rnd = random.Random(0)
for _ in range(4000):
    seq = tuple(rnd.choice(ACTIONS) for _ in range(rnd.choice((3, 4)))); variant = rnd.choice((0, 1)); total += 1
    for p in set(run(seq, variant)):
        found[p] += 1; examples.setdefault(p, (variant, seq))
print('sequences', total)
for p, n in found.most_common(): print(n, p, 'e.g.', examples[p])
