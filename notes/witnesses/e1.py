# C16: Constraint.eval before solve
from PEPit import PEP, Point, Expression
from PEPit.functions import SmoothStronglyConvexFunction
pep = PEP()
f = pep.declare_function(SmoothStronglyConvexFunction, mu=.1, L=1.)
x0 = pep.set_initial_point()
c = (f(x0) <= 1)
for name, fn in [("Constraint.eval", c.eval), ("Constraint.eval_dual", c.eval_dual), ("Point.eval", x0.eval), ("derived point", (x0*2).eval), ("expr", f(x0).eval), ("derived expr", (f(x0)+1).eval)]:
    try:
        print(name, "->", fn())
    except Exception as e:
        print(name, "raised", type(e).__name__, e)
from PEPit import PSDMatrix
m = PSDMatrix([[f(x0), 1],[1, f(x0)]])
for name, fn in [("psd eval", m.eval), ("psd dual", m.eval_dual)]:
    try:
        print(name, "->", fn())
    except Exception as e:
        print(name, "raised", type(e).__name__, e)
