import warnings; warnings.filterwarnings("ignore")
import numpy as np, io, contextlib, re
from PEPit import PEP, Point, Expression
from PEPit.functions import *
from PEPit.operators import *
from PEPit.primitive_steps import *
def model(kind):
    pep = PEP()
    if kind == 'gd':
        f = pep.declare_function(SmoothStronglyConvexFunction, mu=.1, L=1.)
        xs = f.stationary_point(); x0 = pep.set_initial_point(); pep.set_initial_condition((x0-xs)**2 <= 1)
        x = x0
        for i in range(3): x = x - f.gradient(x)
        pep.set_performance_metric(f(x)-f(xs))
    elif kind == 'ppa':
        f = pep.declare_function(ConvexFunction); xs = f.stationary_point(); x0 = pep.set_initial_point()
        pep.set_initial_condition((x0-xs)**2 <= 1); x = x0
        for i in range(2): x, _, fx = proximal_step(x, f, 1.)
        pep.set_performance_metric(fx - f(xs))
    elif kind == 'halpern':
        A = pep.declare_function(NonexpansiveOperator); xs, _, _ = A.fixed_point(); x0 = pep.set_initial_point()
        pep.set_initial_condition((x0-xs)**2 <= 1); x = x0
        for i in range(3): lam = 1/(i+2); x = lam*x0 + (1-lam)*A.gradient(x)
        pep.set_performance_metric((x - A.gradient(x))**2)
    elif kind == 'two_metrics':
        f = pep.declare_function(SmoothConvexFunction, L=1.); xs = f.stationary_point(); x0 = pep.set_initial_point()
        pep.set_initial_condition((x0-xs)**2 <= 1); x1 = x0 - f.gradient(x0); x2 = x1 - f.gradient(x1)
        pep.set_performance_metric(f(x1)-f(xs)); pep.set_performance_metric(2*(f(x2)-f(xs)))
    return pep
def check(pep, **kw):
    buf = io.StringIO()
    with contextlib.redirect_stdout(buf):
        tau_d = pep.solve(verbose=1, **kw)
    out = buf.getvalue()
    rem = re.search(r"reconstituted( up to an error of (\S+))?", out); rem = float(rem.group(2)) if rem and rem.group(2) else 0.0
    G = pep.G_value
    leafs = Point.list_of_leaf_points
    Grec = np.array([[a.eval() @ b.eval() for b in leafs] for a in leafs])
    ev, V = np.linalg.eigh(G); Gp = V @ np.diag(np.maximum(ev, 0)) @ V.T
    maxc = max([c.eval() if c.equality_or_inequality == 'inequality' else abs(c.eval()) for c in pep._list_of_constraints_sent_to_wrapper])
    mind = min([c.eval_dual() for c in pep._list_of_constraints_sent_to_wrapper if c.equality_or_inequality == 'inequality'])
    obj = pep.objective.eval(); mets = [m.eval() for m in pep.list_of_performance_metrics]
    return dict(tau_dual=tau_d, obj=obj, min_metric=min(mets), gram_err=np.abs(Grec-Gp).max(), max_constraint=maxc, min_dual=mind,
                remainder=rem, trace=np.trace(G), rank=int((np.linalg.eigvalsh(G) > 1e-4).sum()), res_min_eig=np.linalg.eigvalsh(pep.residual).min())
for kind in ['gd', 'ppa', 'halpern', 'two_metrics']:
    base = check(model(kind))
    print(kind, 'base ', {k: (round(v, 6) if isinstance(v, float) else v) for k, v in base.items()})
    for h in ['trace', 'logdet2']:
        r = check(model(kind), dimension_reduction_heuristic=h)
        print(kind, h.ljust(6), {k: (round(v, 6) if isinstance(v, float) else v) for k, v in r.items()})
        pepp = model(kind)
        with contextlib.redirect_stdout(io.StringIO()):
            tp = pepp.solve(verbose=1, dimension_reduction_heuristic=h, return_primal_or_dual='primal')
        print('      primal return', round(tp, 6), 'dual-of-original', round(r['tau_dual'], 6))
