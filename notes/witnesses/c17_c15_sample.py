import warnings; warnings.filterwarnings("ignore")
import io, contextlib, numpy as np, pandas as pd
from PEPit import PEP, Point, Expression, Constraint
from PEPit.functions import *
from PEPit.operators import *
classes = [(ConvexFunction, {}), (StronglyConvexFunction, dict(mu=.1)), (SmoothFunction, dict(L=1.)), (SmoothConvexFunction, dict(L=1.)),
  (SmoothStronglyConvexFunction, dict(mu=.1, L=1.)), (ConvexLipschitzFunction, dict(M=1.)), (SmoothConvexLipschitzFunction, dict(L=1., M=1.)),
  (ConvexIndicatorFunction, dict(D=1.)), (ConvexSupportFunction, dict(M=1.)), (ConvexQGFunction, dict(L=1.)), (RsiEbFunction, dict(mu=.1, L=1.)),
  (SmoothStronglyConvexQuadraticFunction, dict(mu=.1, L=1.)), (MonotoneOperator, {}), (StronglyMonotoneOperator, dict(mu=.1)), (CocoerciveOperator, dict(beta=1.)),
  (CocoerciveStronglyMonotoneOperator, dict(mu=.1, beta=1.)), (LipschitzOperator, dict(L=1.)), (LipschitzStronglyMonotoneOperator, dict(mu=.1, L=1.)),
  (NegativelyComonotoneOperator, dict(rho=.5)), (NonexpansiveOperator, {}), (LinearOperator, dict(L=1.)), (SymmetricLinearOperator, dict(mu=.1, L=1.)), (SkewSymmetricLinearOperator, dict(L=1.))]
for cls, kw in classes:
    pep = PEP(); F = pep.declare_function(cls, **kw)
    x0 = pep.set_initial_point(); x0.set_name('x0'); x1 = pep.set_initial_point()
    g0 = F.gradient(x0); g1 = F.gradient(x1); xs = F.stationary_point()
    if cls is LinearOperator: F.T.gradient(g0)
    pep.set_initial_condition(x0**2 <= 1); pep.set_initial_condition(x1**2 <= 1); pep.set_initial_condition(xs**2 <= 1)
    pep.set_performance_metric((g0 - g1)**2 if cls not in (ConvexFunction, StronglyConvexFunction, SmoothFunction, ConvexIndicatorFunction, ConvexSupportFunction, ConvexQGFunction, MonotoneOperator, StronglyMonotoneOperator, NegativelyComonotoneOperator, RsiEbFunction, ConvexLipschitzFunction) else (x0-x1)**2)
    with contextlib.redirect_stdout(io.StringIO()):
        tau = pep.solve(verbose=0)
    msgs = []
    cells = {}
    for cond, table in F.tables_of_constraints.items():
        if not isinstance(table, pd.DataFrame): msgs.append('table %s is %s' % (cond, type(table).__name__)); continue
        for i in range(table.shape[0]):
            for j in range(table.shape[1]):
                c = table.iloc[i, j]
                if isinstance(c, Constraint): cells.setdefault(id(c), []).append((cond, i, j))
    missing = [c for c in F.list_of_class_constraints if id(c) not in cells]
    dup = [v for v in cells.values() if len(v) > 1]
    names = [c.get_name() for c in F.list_of_class_constraints]
    if missing: msgs.append('%d class constraints in no table cell' % len(missing))
    if dup: msgs.append('constraint in several cells')
    if len(set(names)) != len(names) or None in names: msgs.append('names not unique / None: %s' % names[:3])
    try:
        duals = F.get_class_constraints_duals()
        for cond, dt in duals.items():
            t = F.tables_of_constraints[cond]
            for i in range(t.shape[0]):
                for j in range(t.shape[1]):
                    c = t.iloc[i, j]
                    exp = c.eval_dual() if isinstance(c, Constraint) else c
                    if abs(dt.iloc[i, j] - exp) > 1e-12: msgs.append('dual cell mismatch')
    except Exception as e: msgs.append('duals raised %s' % type(e).__name__)
    print('%-40s tau=%s constraints=%2d tables=%d %s' % (cls.__name__, None if tau is None else round(tau, 4), len(F.list_of_class_constraints), len(F.tables_of_constraints), '; '.join(msgs) or 'OK'))
# C15
pep = PEP(); part = pep.declare_block_partition(d=3); one = pep.declare_block_partition(d=1)
x = pep.set_initial_point(); y = pep.set_initial_point(); z = x - 2*y
def cm(p): return {k: v for k, v in p.decomposition_dict.items() if v != 0}
for p in (x, z):
    blocks = [part.get_block(p, k) for k in range(3)]
    s = blocks[0] + blocks[1] + blocks[2]
    print('sum of blocks == point:', cm(s) == cm(p), ' same objects on second call:', all(part.get_block(p, k) is blocks[k] for k in range(3)))
print('d=1 identity:', cm(one.get_block(z, 0)) == cm(z))
part.add_partition_constraints()
m = len(part.blocks_dict); print('partition constraints', len(part.list_of_constraints), 'expected m^2*d(d-1)/2 =', m*m*3)
keys = set()
for c in part.list_of_constraints:
    d = {k: v for k, v in c.expression.decomposition_dict.items() if v != 0}
    keys.add(frozenset((frozenset(k), round(v, 12)) for k, v in d.items()))
print('distinct as symmetric bilinear forms:', len(keys))
