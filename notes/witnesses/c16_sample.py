import warnings; warnings.filterwarnings("ignore")
import io, contextlib
from PEPit import PEP, Expression
from PEPit.functions import *
def infeasible():
    pep = PEP(); f = pep.declare_function(SmoothConvexFunction, L=1.); xs = f.stationary_point(); x0 = pep.set_initial_point()
    pep.set_initial_condition((x0-xs)**2 <= -1); pep.set_performance_metric(f(x0)-f(xs)); return pep, x0
def unbounded():
    pep = PEP(); f = pep.declare_function(ConvexFunction); x0 = pep.set_initial_point(); pep.set_performance_metric(f(x0)); return pep, x0
def no_metric():
    pep = PEP(); f = pep.declare_function(SmoothConvexFunction, L=1.); xs = f.stationary_point(); x0 = pep.set_initial_point()
    pep.set_initial_condition((x0-xs)**2 <= 1); return pep, x0
for b in (infeasible, unbounded, no_metric):
    for mode in ('dual', 'primal'):
        pep, x0 = b()
        with contextlib.redirect_stdout(io.StringIO()):
            try: r = pep.solve(verbose=1, return_primal_or_dual=mode)
            except Exception as e: r = 'raised %s: %s' % (type(e).__name__, e)
        try: v = x0.eval()
        except Exception as e: v = 'raised %s' % type(e).__name__
        print(b.__name__, mode, '->', r, '| x0.eval():', v if isinstance(v, str) else 'VALUE')
for bad in (dict(return_primal_or_dual='both'), dict(dimension_reduction_heuristic='foo'), dict(dimension_reduction_heuristic='logdet'), dict(wrapper='foo'), dict(wrapper='numpy')):
    pep = PEP(); f = pep.declare_function(SmoothConvexFunction, L=1.); xs = f.stationary_point(); x0 = pep.set_initial_point()
    pep.set_initial_condition((x0-xs)**2 <= 1); pep.set_performance_metric(f(x0)-f(xs))
    with contextlib.redirect_stdout(io.StringIO()):
        try: r = pep.solve(verbose=0, **bad)
        except Exception as e: r = 'raised %s' % type(e).__name__
    print(bad, '->', r)
