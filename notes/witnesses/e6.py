import warnings; warnings.filterwarnings("ignore")
from PEPit import PEP
from PEPit.operators import SkewSymmetricLinearOperator
pep = PEP()
A = pep.declare_function(SkewSymmetricLinearOperator, L=1.)
x = pep.set_initial_point()
y = A.gradient(x)
pep.set_initial_condition(x**2 <= 1)
pep.set_performance_metric(x*y)   # <x, Ax> = 0 for every skew-symmetric A
print("max <x,Ax> over skew A, |x|<=1:", pep.solve(verbose=0), "(true value 0)")
print([c.get_name() for c in A.list_of_class_constraints])
