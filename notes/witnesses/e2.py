import warnings; warnings.filterwarnings("ignore")
from PEPit import PEP, Point, Expression
from PEPit.functions import SmoothStronglyConvexFunction, ConvexQGFunction, SmoothStronglyConvexQuadraticFunction, BlockSmoothConvexFunction
from PEPit.operators import LinearOperator, SkewSymmetricLinearOperator
import numpy as np

print("=== E2: C13 stale caches after re-solve")
pep = PEP()
f = pep.declare_function(SmoothStronglyConvexFunction, mu=.1, L=1.)
xs = f.stationary_point()
x0 = pep.set_initial_point()
ic = ((x0-xs)**2 <= 1)
pep.set_initial_condition(ic)
x1 = x0 - 1.0*f.gradient(x0)
d = x1 - xs
metric = d**2
pep.set_performance_metric(metric)
t1 = pep.solve(verbose=0)
v1 = metric.eval(); dv1 = d.eval().copy(); icv1=ic.eval(); icd1 = ic.eval_dual()
# edit: replace initial condition by R=2
pep.list_of_constraints = []
ic2 = ((x0-xs)**2 <= 4)
pep.set_initial_condition(ic2)
t2 = pep.solve(verbose=0)
print("tau1", t1, "tau2", t2)
print("metric.eval after solve1", v1, "after solve2", metric.eval(), " fresh:", ((x1-xs)**2).eval())
print("nb F", Expression.counter, "sent", len(pep._list_of_constraints_sent_to_wrapper))
t3 = pep.solve(verbose=0)
print("nb F", Expression.counter, "sent", len(pep._list_of_constraints_sent_to_wrapper))

print("=== E3: C04 declaration order for ConvexQG")
def qg(order):
    pep = PEP()
    f = pep.declare_function(ConvexQGFunction, L=1.)
    if order == "first":
        xs = f.stationary_point()
    x0 = pep.set_initial_point()
    g0, f0 = f.oracle(x0)
    x1 = x0 - 1.0*g0
    g1, f1 = f.oracle(x1)
    if order == "last":
        xs = f.stationary_point()
    fs = f(xs)
    pep.set_initial_condition((x0-xs)**2 <= 1)
    pep.set_performance_metric(f1 - fs)
    t = pep.solve(verbose=0)
    names = [c.get_name() for c in f.list_of_class_constraints]
    return t, names
for o in ("first", "last"):
    t, names = qg(o)
    print(o, t, len(names)); print("   ", [n for n in names if 'qg' in n])
