import warnings; warnings.filterwarnings("ignore")
import io, contextlib, re
from PEPit import PEP, Expression, PSDMatrix
from PEPit.functions import *
from PEPit.operators import *
def run(build):
    buf = io.StringIO()
    with contextlib.redirect_stdout(buf):
        tau = build()
    m = re.search(r"proof is perfectly reconstituted( up to an error of (\S+))?", buf.getvalue())
    return tau, m.group(2) if m else None
def sym():
    pep = PEP(); A = pep.declare_function(SymmetricLinearOperator, mu=.1, L=1.)
    x0 = pep.set_initial_point(); x = x0
    for i in range(3): x = x - 1.2*A.gradient(x)
    pep.set_initial_condition(x0**2 <= 1); pep.set_performance_metric(x**2)
    return pep.solve(verbose=1)
def skew():
    pep = PEP(); A = pep.declare_function(SkewSymmetricLinearOperator, L=1.)
    x0 = pep.set_initial_point(); x = x0
    for i in range(3): x = x - 0.5*A.gradient(x)
    pep.set_initial_condition(x0**2 <= 1); pep.set_performance_metric(x**2)
    return pep.solve(verbose=1)
def lin():
    pep = PEP(); A = pep.declare_function(LinearOperator, L=1.)
    x0 = pep.set_initial_point(); y = A.gradient(x0); z = A.T.gradient(y); w = A.gradient(x0 - 0.5*z)
    pep.set_initial_condition(x0**2 <= 1); pep.set_performance_metric(w**2)
    return pep.solve(verbose=1)
def user_nonsym():
    pep = PEP(); f = pep.declare_function(SmoothStronglyConvexFunction, mu=.1, L=1.)
    xs = f.stationary_point(); x0 = pep.set_initial_point()
    pep.set_initial_condition((x0-xs)**2 <= 1)
    x1 = x0 - f.gradient(x0)
    t = Expression(); s = Expression()
    pep.add_constraint(t == s)   # makes the matrix symmetric in value, not as written
    pep.add_psd_matrix([[(x1-xs)**2, t], [s, 1]])
    pep.set_performance_metric(t)
    return pep.solve(verbose=1)
def user_sym():
    pep = PEP(); f = pep.declare_function(SmoothStronglyConvexFunction, mu=.1, L=1.)
    xs = f.stationary_point(); x0 = pep.set_initial_point()
    pep.set_initial_condition((x0-xs)**2 <= 1)
    x1 = x0 - f.gradient(x0)
    t = Expression()
    pep.add_psd_matrix([[(x1-xs)**2, t], [t, 1]])
    pep.set_performance_metric(t)
    return pep.solve(verbose=1)
for b in (sym, skew, lin, user_nonsym, user_sym):
    print(b.__name__, run(b))
