import warnings; warnings.filterwarnings("ignore")
from PEPit import PEP, Point, Expression
from PEPit.functions import *
from PEPit.operators import *
import numpy as np

print("=== E4: re-solve with class LMI (quadratic) and partitions")
pep = PEP()
f = pep.declare_function(SmoothStronglyConvexQuadraticFunction, mu=.1, L=1.)
xs = f.stationary_point()
x0 = pep.set_initial_point()
pep.set_initial_condition((x0-xs)**2 <= 1)
x1 = x0 - 1.0*f.gradient(x0)
pep.set_performance_metric((x1-xs)**2)
for k in range(3):
    t = pep.solve(verbose=0)
    print("solve", k, t, "constraints", len(pep._list_of_constraints_sent_to_wrapper), "psd", len(pep._list_of_psd_sent_to_wrapper), "class_psd", len(f.list_of_class_psd))

print("=== E5: proof reconstruction with quadratic class (verbose)")
pep = PEP()
f = pep.declare_function(SmoothStronglyConvexQuadraticFunction, mu=.1, L=1.)
xs = f.stationary_point()
x0 = pep.set_initial_point()
pep.set_initial_condition((x0-xs)**2 <= 1)
x = x0
for i in range(3):
    x = x - 1.5*f.gradient(x)
pep.set_performance_metric(f(x)-f(xs))
t = pep.solve(verbose=1)

print("=== E4b: partitions re-solve")
pep = PEP()
part = pep.declare_block_partition(d=2)
f = pep.declare_function(BlockSmoothConvexFunction, L=[1., 2.], partition=part)
xs = f.stationary_point()
x0 = pep.set_initial_point()
pep.set_initial_condition((x0-xs)**2 <= 1)
g0 = f.gradient(x0)
x1 = x0 - 1.0/1.*part.get_block(g0, 0)
pep.set_performance_metric(f(x1)-f(xs))
for k in range(3):
    t = pep.solve(verbose=0)
    print("solve", k, t, "constraints", len(pep._list_of_constraints_sent_to_wrapper), "partition constraints", len(part.list_of_constraints), "blocks_dict", len(part.blocks_dict), "Point.counter", Point.counter)
print("=== E6: C17 duals table block smooth")
try:
    print(f.get_class_constraints_duals())
except Exception as e:
    print("raised", type(e).__name__, e)
print(type(f.tables_of_constraints['smoothness_convexity_block_0']), [len(r) for r in f.tables_of_constraints['smoothness_convexity_block_0']])
