import sys, warnings; warnings.filterwarnings("ignore")
sys.path.insert(0, '/verif/notes/prototypes/fakemosek')
import io, contextlib, mosek
from PEPit import PEP, Expression
from PEPit.functions import *
from PEPit.operators import *
def attempt(title, build):
    mosek.TRACE.clear()
    pep = build()
    try:
        with contextlib.redirect_stdout(io.StringIO()):
            r = pep.solve(wrapper='mosek', verbose=0)
        print(title, '-> returned', r, '| wrapper used:', pep.wrapper_name, '| objective.counter =', pep.objective.counter, ' Expression.counter =', Expression.counter)
    except Exception as e:
        print(title, '-> raised', type(e).__name__, e, '| rows so far:', pep.wrapper.task.numcon)
def many_constraints():   # F14
    pep = PEP(); f = pep.declare_function(SmoothStronglyConvexFunction, mu=.1, L=1.); xs = f.stationary_point(); x = pep.set_initial_point()
    pep.set_initial_condition((x-xs)**2 <= 1)
    for i in range(11): x = x - 0.5 * f.gradient(x)
    pep.set_performance_metric(f(x)-f(xs)); return pep          # 13 samples -> 156 class constraints
def lmi_order():          # F12a
    pep = PEP(); f = pep.declare_function(SmoothStronglyConvexFunction, mu=.1, L=1.); xs = f.stationary_point(); x0 = pep.set_initial_point()
    pep.set_initial_condition((x0-xs)**2 <= 1); x1 = x0 - f.gradient(x0); t = Expression()
    f.add_psd_matrix([[(x1-xs)**2, t, t], [t, 1, 0], [t, 0, 1]])       # created first (counter 0), sent last
    pep.add_psd_matrix([[(x0-xs)**2, t], [t, 1]])                      # created second (counter 1), sent first
    pep.set_performance_metric(t); return pep
def tau_index():          # F12b
    pep = PEP(); f = pep.declare_function(ConvexQGFunction, L=1.); x0 = pep.set_initial_point(); g0 = f.gradient(x0)
    pep.set_initial_condition(x0**2 <= 1); pep.set_performance_metric(g0**2); return pep
attempt('F14  many constraints ', many_constraints)
attempt('F12a LMIs sent out of creation order', lmi_order)
attempt('F12b objective not the last leaf', tau_index)
import traceback
mosek.TRACE.clear(); pep = tau_index()
try:
    with contextlib.redirect_stdout(io.StringIO()): pep.solve(wrapper='mosek', verbose=0)
except AssertionError:
    tb = traceback.extract_tb(sys.exc_info()[2])[-1]; print('assert at', tb.filename.split('/')[-1], tb.lineno, ':', tb.line)
print('objective.counter =', pep.objective.counter, ' Expression.counter =', Expression.counter, ' value read by wrapper: xx[-2] = xx[%d]' % (Expression.counter - 1))
