import warnings; warnings.filterwarnings("ignore")
from PEPit import PEP, Point, Expression
from PEPit.functions import *
from PEPit.operators import *
import numpy as np

print("=== D10: zero-weight composite")
pep = PEP()
f1 = pep.declare_function(SmoothConvexFunction, L=1.)
f2 = pep.declare_function(SmoothConvexFunction, L=1.)
F = f1 + f2 - f2
print("F decomposition weights", list(F.decomposition_dict.values()), "reuse", F.reuse_gradient)
x = pep.set_initial_point()
g1, v1 = f1.oracle(x)
G, V = F.oracle(x)
print("G is leaf?", G.get_is_leaf(), " G decomposition == g1?", G.decomposition_dict == g1.decomposition_dict, "V same as v1?", V.decomposition_dict == v1.decomposition_dict)
print("f2 evaluated at x?", f2._is_already_evaluated_on_point(x) is not None)

print("=== D10b: x*0 points")
pep = PEP()
f = pep.declare_function(SmoothConvexFunction, L=1.)
x = pep.set_initial_point()
p = x*0; q = x*0
ga = f.gradient(p); gb = f.gradient(q)
print("same gradient for x*0 twice?", ga is gb, len(f.list_of_points))
z = x - x
gc = f.gradient(z)
print("same gradient for x-x vs x*0?", gc is ga, len(f.list_of_points))

print("=== D11: objects built after solve")
pep = PEP()
f = pep.declare_function(SmoothStronglyConvexFunction, mu=.1, L=1.)
xs = f.stationary_point()
x0 = pep.set_initial_point()
pep.set_initial_condition((x0-xs)**2 <= 1)
x1 = x0 - 1.0*f.gradient(x0)
pep.set_performance_metric((x1-xs)**2)
pep.solve(verbose=0)
print("x1 eval", x1.eval())
y = x1 - 0.5*f.gradient(x0)
print("derived after solve ok:", y.eval())
z = Point()   # new leaf after solve
w = x1 + x0*2
try:
    print("after new leaf:", w.eval())
except Exception as e:
    print("after new leaf raised", type(e).__name__, e)
try:
    print("new leaf eval:", z.eval())
except Exception as e:
    print("new leaf raised", type(e).__name__, e)
g1 = f.gradient(x1)  # new leaf gradient after solve
try:
    print("f.gradient(x1) after solve:", g1.eval())
except Exception as e:
    print("raised", type(e).__name__, e)
