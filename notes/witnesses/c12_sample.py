import warnings; warnings.filterwarnings("ignore")
import numpy as np, hashlib, io, contextlib
import PEPit
from PEPit import PEP, Point, Expression, null_point
from PEPit.functions import *
from PEPit.operators import *
from PEPit.primitive_steps import *
import PEPit.wrappers.cvxpy_wrapper as cw
rec = []
orig = cw.expression_to_matrices
def spy(e):
    out = orig(e); rec.append((out[0].tobytes(), out[1].tobytes(), float(out[2]).hex())); return out
cw.expression_to_matrices = spy
def B(verbose=0):
    pep = PEP()
    f = pep.declare_function(SmoothStronglyConvexFunction, mu=.1, L=1., name=None)
    h = pep.declare_function(ConvexLipschitzFunction, M=1.)
    F = f + h
    xs = F.stationary_point(); x0 = pep.set_initial_point()
    pep.set_initial_condition((x0-xs)**2 <= 1)
    x = x0
    for i in range(2):
        y = x - 0.5 * f.gradient(x); x, _, _ = proximal_step(y, h, 0.5)
    pep.set_performance_metric(F(x) - F(xs))
    with contextlib.redirect_stdout(io.StringIO()):
        t = pep.solve(verbose=verbose)
    names = [c.get_name() for c in pep._list_of_constraints_sent_to_wrapper]
    return t, names
def A1():
    pep = PEP(); part = pep.declare_block_partition(d=3)
    f = pep.declare_function(BlockSmoothConvexFunction, L=[1., 2., 3.], partition=part)
    xs = f.stationary_point(); x0 = pep.set_initial_point(); pep.set_initial_condition((x0-xs)**2 <= 1)
    g = f.gradient(x0); x1 = x0 - part.get_block(g, 1)
    pep.set_performance_metric(f(x1)-f(xs)); pep.solve(verbose=0); null_point.eval()
def A2():
    pep = PEP(); A = pep.declare_function(LinearOperator, L=1.); q = pep.declare_function(SmoothStronglyConvexQuadraticFunction, mu=.1, L=1.)
    x0 = pep.set_initial_point(); y = A.gradient(x0); A.T.gradient(y); q.gradient(x0)
    pep.set_initial_condition(x0**2 <= 1); pep.add_psd_matrix([[x0**2, 1],[1, x0**2]]); pep.set_performance_metric(y**2)
    pep.solve(verbose=0); pep.solve(verbose=0)
def A3():   # abandoned / failing model
    pep = PEP(); f = pep.declare_function(ConvexFunction); x = pep.set_initial_point(); pep.set_performance_metric(f(x))
    pep.solve(verbose=0)
    try: (f(x) <= 1).eval()
    except Exception: pass
rec.clear(); t0, n0 = B(); r0 = list(rec)
for hist in ([A1], [A2], [A3], [A1, A2, A3, A1]):
    for a in hist: a()
    rec.clear(); t1, n1 = B(verbose=1); r1 = list(rec)
    print([a.__name__ for a in hist], "same data:", r0 == r1, "same names:", n0 == n1, "tau diff:", abs(t0 - t1), len(r0))
