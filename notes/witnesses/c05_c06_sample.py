# Exploratory: random expression trees; compare (a) eval through leaf values, (b) dense translation, (c) sparse translation, (d) independent numeric evaluation
import warnings; warnings.filterwarnings("ignore")
import numpy as np
from PEPit import PEP, Point, Expression
from PEPit.tools.expressions_to_matrices import expression_to_matrices, expression_to_sparse_matrices
rng = np.random.default_rng(1)
def rand_scalar(): return rng.choice([0, 0.0, 1, -1, 2, 0.5, -3.25, 1/3])
bad = 0; total = 0
for trial in range(300):
    pep = PEP()
    P = [Point() for _ in range(rng.integers(1, 5))]; E = [Expression() for _ in range(rng.integers(1, 4))]
    D = len(P)
    # numeric ground truth: vectors and numbers
    pv = {p: rng.normal(size=D) for p in P}; ev = {e: rng.normal() for e in E}
    def rpoint(depth):
        if depth == 0 or rng.random() < 0.3:
            p = P[rng.integers(len(P))]; return p, pv[p]
        op = rng.integers(6); a, av = rpoint(depth-1)
        if op == 0: b, bv = rpoint(depth-1); return a + b, av + bv
        if op == 1: b, bv = rpoint(depth-1); return a - b, av - bv
        if op == 2: return -a, -av
        if op == 3: s = rand_scalar(); return s * a, s * av
        if op == 4: s = rand_scalar(); return a * s, av * s
        s = rng.choice([2, -0.5, 4.0]); return a / s, av / s
    def rexpr(depth):
        r = rng.random()
        if depth == 0 or r < 0.2:
            e = E[rng.integers(len(E))]; return e, ev[e]
        if r < 0.45:
            a, av = rpoint(2); b, bv = rpoint(2); return a * b, av @ bv
        if r < 0.55:
            a, av = rpoint(2); return a ** 2, av @ av
        op = rng.integers(8); a, av = rexpr(depth-1)
        if op == 0: b, bv = rexpr(depth-1); return a + b, av + bv
        if op == 1: b, bv = rexpr(depth-1); return a - b, av - bv
        if op == 2: return -a, -av
        if op == 3: s = rand_scalar(); return s * a, s * av
        if op == 4: s = rand_scalar(); return a + s, av + s
        if op == 5: s = rand_scalar(); return s - a, s - av
        if op == 6: s = rand_scalar(); return s + a, s + av
        s = rng.choice([2, -0.5, 4.0]); return a / s, av / s
    ex, truth = rexpr(3)
    for p in P: p._value = pv[p]
    for e in E: e._value = ev[e]
    G = np.array([[pv[a] @ pv[b] for b in P] for a in P]); F = np.array([ev[e] for e in E])
    v_eval = ex.eval()
    Gw, Fw, c = expression_to_matrices(ex); v_dense = c + F @ Fw + np.sum(G * Gw)
    Ai, Aj, Av, ai, av_, al = expression_to_sparse_matrices(ex)
    A = np.zeros((D, D))
    dup = len(set(zip(Ai.tolist(), Aj.tolist()))) != len(Ai)
    for i, j, v in zip(Ai, Aj, Av):
        assert i >= j
        A[int(i), int(j)] += v
        if i != j: A[int(j), int(i)] += v
    v_sparse = al + sum(F[int(i)] * v for i, v in zip(ai, av_)) + np.sum(A * G)
    total += 1
    if not (np.allclose([v_eval, v_dense, v_sparse], truth, rtol=1e-9, atol=1e-9)) or dup:
        bad += 1; print("MISMATCH", trial, truth, v_eval, v_dense, v_sparse, dup)
print("trials", total, "mismatches", bad)
