import warnings; warnings.filterwarnings("ignore")
from PEPit import PEP, Point, Expression
from PEPit.functions import *
from PEPit.operators import *
import numpy as np
print("=== C17 single-sample table")
pep = PEP()
f = pep.declare_function(SmoothStronglyConvexFunction, mu=.1, L=1.)
h = pep.declare_function(ConvexFunction)
xs = f.stationary_point()
x0 = pep.set_initial_point()
pep.set_initial_condition((x0-xs)**2 <= 1)
x1 = x0 - 1.0*f.gradient(x0)
h.oracle(x1)   # single sample
pep.set_performance_metric((x1-xs)**2)
pep.solve(verbose=0)
for fn in (f, h):
    try:
        d = fn.get_class_constraints_duals()
        for k,v in d.items(): print(k); print(v)
    except Exception as e:
        print("raised", type(e).__name__, e)
print(h.tables_of_constraints)
print("=== C17 LinearOperator names")
pep = PEP()
A = pep.declare_function(LinearOperator, L=1.)
x0 = pep.set_initial_point()
y0 = A.gradient(x0)
u = pep.set_initial_point()
v = A.T.gradient(u)
pep.set_initial_condition(x0**2 <= 1)
pep.set_initial_condition(u**2 <= 1)
pep.set_performance_metric(y0*u)
print(pep.solve(verbose=0))
print([c.get_name() for c in A.list_of_class_constraints], A.tables_of_constraints, A.get_class_constraints_duals())
print("psd dual", A.list_of_class_psd[0].eval_dual())
