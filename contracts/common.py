"""Vocabulary shared by the side-car contracts: abstract views (coeff / has), well-formedness, fresh objects."""
import ast
import z3
from pyvc.sorts import *          # noqa
from pyvc import symex as sx
from pyvc.symex import (TInt, TReal, TBool, TStr, TNone, TKey, TAny, TRef, TDict, TList, TTuple, TOpt,
                        THeapTuple, CDict, Scalar, V)
from pyvc.contract import contract, REG
from pyvc import front

# ------------------------------------------------------------------ class-level (global) state: types
GLOBAL_TYPES = {
    'Point.counter': TInt, 'Point.list_of_leaf_points': TList(TRef('Point')),
    'Expression.counter': TInt, 'Expression.list_of_leaf_expressions': TList(TRef('Expression')),
    'Constraint.counter': TInt, 'PSDMatrix.counter': TInt,
    'Function.counter': TInt, 'Function.list_of_functions': TList(TRef('Function')),
    'BlockPartition.counter': TInt, 'BlockPartition.list_of_partitions': TList(TRef('BlockPartition')),
    'PEP.counter': TInt,
}
REG.global_types.update(GLOBAL_TYPES)

sx.FIELD_TYPES.update({
    'Point._value': TOpt(TRef('ndarray')),
    'PSDMatrix._value': TOpt(TRef('ndarray')),
    'PSDMatrix._dual_variable_value': TOpt(TRef('ndarray')),
})


def load_repo_classes():
    """class hierarchy and the methods each class defines, read from the repo's class statements"""
    files = front.all_repo_py()
    for rp in files:
        src, tree = front.parse_file(rp)
        for n in tree.body:
            if isinstance(n, ast.ClassDef):
                tag(n.name)
                REG.class_methods.setdefault(n.name, set()).update(
                    m.name for m in n.body if isinstance(m, ast.FunctionDef))
    for child, parent in front.class_hierarchy(files):
        if parent != 'object':
            declare_subclass(child, parent)


load_repo_classes()

# ------------------------------------------------------------------ views


def inst(S, v, cname):
    """formula: python value v is an instance of class cname, in heap snapshot S"""
    k = v.ty.k
    if k == 'real':
        return z3.BoolVal(cname in ('int', 'float', 'scalar'))
    if k == 'int':
        return z3.BoolVal(cname in ('int', 'scalar'))
    if k == 'ref':
        scls = v.ty.a[0]
        if cname in ('int', 'float', 'scalar'):
            return z3.BoolVal(False)
        if scls is not None and scls in SUBCLASSES.get(cname, ()):
            return z3.BoolVal(True)
        if scls is not None and cname in SUBCLASSES and cname not in SUBCLASSES.get(scls, ()):
            return z3.BoolVal(False)
        return isinstance_f(S.A('cls'), v.t, cname)
    if k == 'opt':
        return z3.And(z3.Not(v.none), inst(S, V(v.ty.a[0], v.t), cname))
    return z3.BoolVal(False)


def is_scalar(S, v):
    return inst(S, v, 'scalar')


def scalar_term(v):
    return sx.to_real(v.t)


def coeff(S, cls, r, k):
    return S.coeff(cls, r, k)


def hask(S, cls, r, k):
    return S.hask(cls, r, k)


def new_object(S0, S, res, cls, label='res'):
    """res is an object allocated by the call, of exact class cls"""
    return [(label + '.fresh', z3.And(res.t >= S0.alloc, res.t < S.alloc), 'property'),
            (label + '.class', S.cls(res.t) == tag(cls), 'property')]


def no_new_leaf(S0, S):
    """no object allocated by the call is a leaf Point / Expression (so the leaf registries, untouched, stay complete: Reg is preserved)"""
    r = fresh('r', I)
    return z3.ForAll([r], z3.Implies(z3.And(r >= S0.alloc, r < S.alloc), z3.And(
        z3.Not(z3.And(isinstance_f(S.A('cls'), r, 'Point'), S.fld('Point', '_is_leaf', r))),
        z3.Not(z3.And(isinstance_f(S.A('cls'), r, 'Expression'), S.fld('Expression', '_is_leaf', r))))))


def nonleaf_object(S0, S, res, cls):
    """a fresh non-leaf Point/Expression: own fresh dict, no value, no counter"""
    d = S.dd(cls, res.t)
    return new_object(S0, S, res, cls) + [
        ('no_new_leaf', no_new_leaf(S0, S), 'aux'),
        ('res.nonleaf', z3.Not(S.fld(cls, '_is_leaf', res.t)), 'property'),
        ('res.own_dict', z3.And(d >= S0.alloc, d < S.alloc, S.cls(d) == tag('dict')), 'property'),
        ('res.no_value', S.fld_none(cls, '_value', res.t), 'aux'),
        ('res.no_counter', S.fld_none(cls, 'counter', res.t), 'aux'),
    ]


def keys_are_leaf_points(S, d):
    return forall_k(lambda k: z3.Implies(S.has(d, k), z3.And(
        is_Obj(k), oid(k) >= 0, oid(k) < S.alloc, isinstance_f(S.A('cls'), oid(k), 'Point'),
        S.fld('Point', '_is_leaf', oid(k)))))


def wf_point(S, p):
    d = S.dd('Point', p)
    return z3.And(d >= 0, d < S.alloc, S.cls(d) == tag('dict'), keys_are_leaf_points(S, d))


def expr_key_ok(S, k):
    leafp = lambda x: z3.And(is_Obj(x), oid(x) >= 0, oid(x) < S.alloc, isinstance_f(S.A('cls'), oid(x), 'Point'),
                             S.fld('Point', '_is_leaf', oid(x)))
    return z3.Or(
        is_One(k),
        z3.And(is_Obj(k), oid(k) >= 0, oid(k) < S.alloc, S.cls(oid(k)) == tag('Expression'), S.fld('Expression', '_is_leaf', oid(k))),
        z3.And(is_Tup(k), leafp(fst(k)), leafp(snd(k))))


def wf_expr(S, e):
    d = S.dd('Expression', e)
    return z3.And(d >= 0, d < S.alloc, S.cls(d) == tag('dict'),
                  forall_k(lambda k: z3.Implies(S.has(d, k), expr_key_ok(S, k))))


FIELD_ARRAYS_OBJ = ['f:decomposition_dict', 'f:_is_leaf', 'f:counter', 'f:counter?none', 'f:name', 'f:name?none']


def obj_arrays(cls):
    """heap arrays a constructor of cls writes (on the fresh object only)"""
    val = 'f:%s._value' % cls
    return FIELD_ARRAYS_OBJ + [val, val + '?none']


DICT_ARRAYS = ['dom', 'valR', 'cls']


# ------------------------------------------------------------------ leaf registries (history invariant `Reg`)
def Reg(S, cls):
    """the leaf registry of cls is injective: list[i].counter == i, and every allocated leaf sits at its counter"""
    L = S.g('%s.list_of_leaf_%ss' % (cls, cls.lower()))
    N = S.g(cls + '.counter')
    i, r = fresh('i', I), fresh('r', I)
    e = S.elt(L, i)
    a = z3.ForAll([i], z3.Implies(z3.And(i >= 0, i < N), z3.And(
        e >= 0, e < S.alloc, S.cls(e) == tag(cls), S.fld(cls, '_is_leaf', e),
        z3.Not(S.fld_none(cls, 'counter', e)), S.fld(cls, 'counter', e) == i)), patterns=[S.elt(L, i)])
    c = S.fld(cls, 'counter', r)
    b = z3.ForAll([r], z3.Implies(z3.And(r >= 0, r < S.alloc, isinstance_f(S.A('cls'), r, cls), S.fld(cls, '_is_leaf', r)),
                                  z3.And(z3.Not(S.fld_none(cls, 'counter', r)), c >= 0, c < N, S.elt(L, c) == r)),
                  patterns=[S.fld(cls, '_is_leaf', r)])
    return z3.And(S.len(L) == N, N >= 0, a, b)


def leaf_dict(S, cls, e):
    d = S.dd(cls, e)
    return z3.And(forall_k(lambda k: S.has(d, k) == (k == Obj(e))), S.get(d, Obj(e)) == 1)


def leafE(S, i):
    return Obj(S.elt(S.g('Expression.list_of_leaf_expressions'), i))


def leafP(S, i):
    return Obj(S.elt(S.g('Point.list_of_leaf_points'), i))
