"""Contracts of PEPit/point.py (C06 algebra, C16/C02 eval)."""
import z3
from .common import *          # noqa
from . import dict_operations  # noqa  (callee contracts)

PP = 'PEPit/point.py::Point.'
PT = TRef('Point')
ET = TRef('Expression')
OTHER = {'other': [Scalar, ET, TAny]}


def is_pt(v):
    return v.ty.k == 'ref' and v.ty.a[0] == 'Point'


def registry_appended(S0, S, gname, obj):
    L = S0.g(gname)
    return z3.And(S.len(L) == S0.len(L) + 1, S.elt(L, S0.len(L)) == obj,
                  forall_i(lambda i: z3.Implies(z3.And(i >= 0, i < S0.len(L)), S.elt(L, i) == S0.elt(L, i))))


def registry_same(S0, S, gname):
    L = S0.g(gname)
    return z3.And(S.len(L) == S0.len(L), S.A('eltI')[L] == S0.A('eltI')[L])


def no_point_or_expression_allocated(S0, S):
    r = fresh('r', I)
    return z3.ForAll([r], z3.Implies(z3.And(r >= S0.alloc, r < S.alloc), z3.And(
        z3.Not(isinstance_f(S.A('cls'), r, 'Point')), z3.Not(isinstance_f(S.A('cls'), r, 'Expression')))))


def init_contract(cls, path, registry, extra_fields=()):
    """Point.__init__ and Expression.__init__ have the same shape"""
    cnt = cls + '.counter'

    def ens(S0, S, a, res):
        s, leaf = a['self'].t, a['is_leaf'].t
        d = S.dd(cls, s)
        return [
            ('is_leaf', S.fld(cls, '_is_leaf', s) == leaf, 'property'),
            ('no_value', S.fld_none(cls, '_value', s), 'aux'),
            ('name', z3.And(S.fld_none(cls, 'name', s) == a['name'].none,
                            z3.Implies(z3.Not(a['name'].none), S.fld(cls, 'name', s) == a['name'].t)), 'aux'),
            ('leaf.dict', z3.Implies(leaf, z3.And(
                d >= S0.alloc, d < S.alloc, S.cls(d) == tag('dict'),
                forall_k(lambda k: S.has(d, k) == (k == Obj(s))), S.get(d, Obj(s)) == 1)), 'property'),
            ('leaf.counter', z3.Implies(leaf, z3.And(
                z3.Not(S.fld_none(cls, 'counter', s)), S.fld(cls, 'counter', s) == S0.g(cnt),
                S.g(cnt) == S0.g(cnt) + 1)), 'aux'),
            ('leaf.registry', z3.Implies(leaf, registry_appended(S0, S, registry, s)), 'aux'),
            ('no_other_object', no_point_or_expression_allocated(S0, S), 'aux'),
            ('nonleaf.dict', z3.Implies(z3.Not(leaf), d == a['decomposition_dict'].t), 'property'),
            ('nonleaf.counter', z3.Implies(z3.Not(leaf), z3.And(
                S.fld_none(cls, 'counter', s), S.g(cnt) == S0.g(cnt), registry_same(S0, S, registry))), 'aux'),
        ]

    def mods(S0, a):
        s = a['self'].t
        m = {n: (lambda r: r == s) for n in obj_arrays(cls)}
        L = S0.g(registry)
        m['len'] = lambda r: r == L
        m['eltI'] = lambda r: r == L
        return m

    return contract(
        path + '__init__',
        [('self', TRef(cls)), ('is_leaf', TBool), ('decomposition_dict', TOpt(CDict)), ('name', TOpt(TStr))],
        defaults={'is_leaf': lambda: sx.vbool(True), 'decomposition_dict': lambda: sx.VNONE, 'name': lambda: sx.VNONE},
        requires=lambda S, a: [('registry_not_self', S.g(registry) != a['self'].t)],
        ensures=ens, modifies=mods,
        touches=lambda S, a: sorted(set(obj_arrays(cls) + DICT_ARRAYS + ['len', 'eltI'])),
        raises=[('*', lambda S, a: z3.Or(z3.And(a['is_leaf'].t, z3.Not(a['decomposition_dict'].none)),
                                          z3.And(z3.Not(a['is_leaf'].t), a['decomposition_dict'].none)))],
        mod_globals=[cnt])


init_contract('Point', PP, 'Point.list_of_leaf_points')

FRESH_TOUCH = lambda cls: (lambda S, a: sorted(set(obj_arrays(cls) + DICT_ARRAYS)))
FRESH_TOUCH_PE = lambda S, a: sorted(set(obj_arrays('Point') + obj_arrays('Expression') + DICT_ARRAYS))


def wf_preserved(S0, S, a, res, cls='Point'):
    ops = [wf_point(S0, a['self'].t)]
    if 'other' in a and a['other'].ty.k == 'ref':
        ops.append(wf_point(S0, a['other'].t))
    return ('wf', z3.Implies(z3.And(*ops), wf_point(S, res.t) if cls == 'Point' else wf_expr(S, res.t)), 'aux')


# ---------------------------------------------------------------------------------------- __add__
contract(
    PP + '__add__', [('self', PT), ('other', PT)], variants=OTHER, returns=PT,
    raises=[('*', lambda S, a: z3.Not(inst(S, a['other'], 'Point')))],
    ensures=lambda S0, S, a, res: nonleaf_object(S0, S, res, 'Point') + ([] if not is_pt(a['other']) else [
        ('sum', forall_k(lambda k: coeff(S, 'Point', res.t, k) == coeff(S0, 'Point', a['self'].t, k) + coeff(S0, 'Point', a['other'].t, k))),
        ('pruned', forall_k(lambda k: hask(S, 'Point', res.t, k) == (coeff(S, 'Point', res.t, k) != 0)), 'aux'),
        wf_preserved(S0, S, a, res)]),
    touches=FRESH_TOUCH('Point'))

# ---------------------------------------------------------------------------------------- __neg__
contract(
    PP + '__neg__', [('self', PT)], returns=PT,
    ensures=lambda S0, S, a, res: nonleaf_object(S0, S, res, 'Point') + [
        ('neg', forall_k(lambda k: coeff(S, 'Point', res.t, k) == -coeff(S0, 'Point', a['self'].t, k))),
        ('keys', forall_k(lambda k: hask(S, 'Point', res.t, k) == hask(S0, 'Point', a['self'].t, k)), 'aux'),
        wf_preserved(S0, S, a, res)],
    touches=FRESH_TOUCH('Point'))

# ---------------------------------------------------------------------------------------- __sub__
contract(
    PP + '__sub__', [('self', PT), ('other', PT)], variants=OTHER, returns=PT,
    raises=[('*', lambda S, a: z3.Not(inst(S, a['other'], 'Point')))],
    ensures=lambda S0, S, a, res: nonleaf_object(S0, S, res, 'Point') + ([] if not is_pt(a['other']) else [
        ('diff', forall_k(lambda k: coeff(S, 'Point', res.t, k) == coeff(S0, 'Point', a['self'].t, k) - coeff(S0, 'Point', a['other'].t, k))),
        ('pruned', forall_k(lambda k: hask(S, 'Point', res.t, k) == (coeff(S, 'Point', res.t, k) != 0)), 'aux'),
        wf_preserved(S0, S, a, res)]),
    touches=FRESH_TOUCH('Point'))


# ------------------------------------------------------------------------------ __rmul__ / __mul__
def mul_returns(a):
    o = a['other']
    return ET if (o.ty.k == 'ref' and o.ty.a[0] == 'Point') else PT


def mul_ensures(S0, S, a, res):
    o, s = a['other'], a['self'].t
    if o.ty.k == 'ref' and o.ty.a[0] == 'Point':
        return nonleaf_object(S0, S, res, 'Expression') + [
            ('inner.has', forall_k(lambda k: hask(S, 'Expression', res.t, k) == z3.And(
                is_Tup(k), hask(S0, 'Point', s, fst(k)), hask(S0, 'Point', o.t, snd(k))))),
            ('inner.coeff', forall_k(lambda k: z3.Implies(is_Tup(k), coeff(S, 'Expression', res.t, k) ==
                                                          coeff(S0, 'Point', s, fst(k)) * coeff(S0, 'Point', o.t, snd(k))))),
            ('wf', z3.Implies(z3.And(wf_point(S0, s), wf_point(S0, o.t)), wf_expr(S, res.t)), 'aux')]
    if o.ty.k in ('real', 'int'):
        c = scalar_term(o)
        return nonleaf_object(S0, S, res, 'Point') + [
            ('scale', forall_k(lambda k: coeff(S, 'Point', res.t, k) == c * coeff(S0, 'Point', s, k))),
            ('keys', forall_k(lambda k: hask(S, 'Point', res.t, k) == hask(S0, 'Point', s, k)), 'aux'),
            wf_preserved(S0, S, {'self': a['self']}, res)]
    return []


def rmul_loop(L):
    new = L.var('new_decomposition_dict', 0).t
    s, o = L.args['self'].t, L.args['other']
    d = L.H0.dd('Point', s)
    return [
        ('new_local', z3.And(new >= L.H0.alloc, new < L.H.alloc, L.H.cls(new) == tag('dict'))),
        ('has', forall_k(lambda k: L.H.has(new, k) == L.seen[k])),
        ('val', forall_k(lambda k: z3.Implies(L.H.has(new, k), L.H.get(new, k) == L.H0.get(d, k) * scalar_term(o)))),
    ]


for _m in ('__rmul__', '__mul__'):
    contract(
        PP + _m, [('self', PT), ('other', PT)], variants=OTHER, returns=mul_returns,
        raises=[('*', lambda S, a: z3.Not(z3.Or(inst(S, a['other'], 'Point'), is_scalar(S, a['other']))))],
        ensures=mul_ensures, touches=FRESH_TOUCH_PE,
        loops={1: dict(inv=rmul_loop, mods=lambda L: {'dom': lambda r: r == L.var('new_decomposition_dict', 0).t,
                                                       'valR': lambda r: r == L.var('new_decomposition_dict', 0).t})}
        if _m == '__rmul__' else {})

# ------------------------------------------------------------------------------------ __truediv__
contract(
    PP + '__truediv__', [('self', PT), ('denominator', Scalar)], variants={'denominator': [PT, TAny]}, returns=PT,
    raises=[('*', lambda S, a: z3.Or(z3.Not(is_scalar(S, a['denominator'])),
                                      scalar_term(a['denominator']) == 0 if a['denominator'].ty.k in ('real', 'int') else z3.BoolVal(True)))],
    ensures=lambda S0, S, a, res: nonleaf_object(S0, S, res, 'Point') + ([
        ('quot', forall_k(lambda k: coeff(S, 'Point', res.t, k) * scalar_term(a['denominator']) == coeff(S0, 'Point', a['self'].t, k))),
        ('keys', forall_k(lambda k: hask(S, 'Point', res.t, k) == hask(S0, 'Point', a['self'].t, k)), 'aux'),
        wf_preserved(S0, S, {'self': a['self']}, res)] if a['denominator'].ty.k in ('real', 'int') else []),
    touches=FRESH_TOUCH('Point'))

# ---------------------------------------------------------------------------------------- __pow__
contract(
    PP + '__pow__', [('self', PT), ('power', TInt)], variants={'power': [Scalar]}, returns=ET,
    raises=[('*', lambda S, a: sx.to_real(a['power'].t) != 2)],
    ensures=lambda S0, S, a, res: nonleaf_object(S0, S, res, 'Expression') + [
        ('sq.has', forall_k(lambda k: hask(S, 'Expression', res.t, k) == z3.And(
            is_Tup(k), hask(S0, 'Point', a['self'].t, fst(k)), hask(S0, 'Point', a['self'].t, snd(k))))),
        ('sq.coeff', forall_k(lambda k: z3.Implies(is_Tup(k), coeff(S, 'Expression', res.t, k) ==
                                                   coeff(S0, 'Point', a['self'].t, fst(k)) * coeff(S0, 'Point', a['self'].t, snd(k))))),
        ('wf', z3.Implies(wf_point(S0, a['self'].t), wf_expr(S, res.t)), 'aux')],
    touches=FRESH_TOUCH_PE)

# ----------------------------------------------------------------------------- trivial accessors
contract(PP + 'get_is_leaf', [('self', PT)], pure=True, returns=TBool,
         ensures=lambda S0, S, a, res: [('value', res.t == S0.fld('Point', '_is_leaf', a['self'].t))])
contract(PP + 'set_name', [('self', PT), ('name', TOpt(TStr))], returns=TNone, allocates=False,
         ensures=lambda S0, S, a, res: [('stored', z3.And(S.fld_none('Point', 'name', a['self'].t) == a['name'].none,
                                                         z3.Implies(z3.Not(a['name'].none), S.fld('Point', 'name', a['self'].t) == a['name'].t)))],
         modifies=lambda S, a: {'f:name': lambda r: r == a['self'].t, 'f:name?none': lambda r: r == a['self'].t})
contract(PP + 'get_name', [('self', PT)], pure=True, returns=TOpt(TStr),
         ensures=lambda S0, S, a, res: [('value', z3.And(res.none == S0.fld_none('Point', 'name', a['self'].t),
                                                        z3.Implies(z3.Not(res.none), res.t == S0.fld('Point', 'name', a['self'].t))))])
