"""Contracts of PEPit/expression.py and PEPit/constraint.py (C06 algebra and comparisons)."""
import z3
from .common import *          # noqa
from . import dict_operations  # noqa
from .point import init_contract, FRESH_TOUCH, registry_same

EP = 'PEPit/expression.py::Expression.'
CP = 'PEPit/constraint.py::Constraint.'
ET = TRef('Expression')
CT = TRef('Constraint')
PT = TRef('Point')
OTHER = {'other': [Scalar, PT, TAny]}

init_contract('Expression', EP, 'Expression.list_of_leaf_expressions')


def ecoeff(S, r, k):
    return S.coeff('Expression', r, k)


def operand_coeff(S, v, k):
    """coefficient map denoted by an operand: an Expression, or a python scalar c (c at key 1)"""
    if v.ty.k == 'ref':
        return ecoeff(S, v.t, k)
    return z3.If(is_One(k), scalar_term(v), z3.RealVal(0))


def is_expr_or_scalar(S, v):
    return z3.Or(inst(S, v, 'Expression'), is_scalar(S, v))


def ewf(S0, S, a, res):
    ops = [wf_expr(S0, a['self'].t)]
    if 'other' in a and a['other'].ty.k == 'ref':
        ops.append(wf_expr(S0, a['other'].t))
    return ('wf', z3.Implies(z3.And(*ops), wf_expr(S, res.t)), 'aux')


def lin(sign_self, sign_other):
    def ens(S0, S, a, res):
        out = nonleaf_object(S0, S, res, 'Expression')
        if a['other'].ty.k in ('ref', 'real', 'int') and (a['other'].ty.k != 'ref' or a['other'].ty.a[0] == 'Expression'):
            out += [('lin', forall_k(lambda k: ecoeff(S, res.t, k) == sign_self * ecoeff(S0, a['self'].t, k)
                                     + sign_other * operand_coeff(S0, a['other'], k))),
                    ewf(S0, S, a, res)]
        return out
    return ens


_foreign = [('*', lambda S, a: z3.Not(is_expr_or_scalar(S, a['other'])))]
contract(EP + '__add__', [('self', ET), ('other', ET)], variants=OTHER, returns=ET, raises=_foreign,
         ensures=lin(1, 1), touches=FRESH_TOUCH('Expression'))
contract(EP + '__radd__', [('self', ET), ('other', ET)], variants=OTHER, returns=ET, raises=_foreign,
         ensures=lin(1, 1), touches=FRESH_TOUCH('Expression'))
contract(EP + '__sub__', [('self', ET), ('other', ET)], variants=OTHER, returns=ET, raises=_foreign,
         ensures=lin(1, -1), touches=FRESH_TOUCH('Expression'))
contract(EP + '__rsub__', [('self', ET), ('other', ET)], variants=OTHER, returns=ET, raises=_foreign,
         ensures=lin(-1, 1), touches=FRESH_TOUCH('Expression'))

contract(EP + '__neg__', [('self', ET)], returns=ET,
         ensures=lambda S0, S, a, res: nonleaf_object(S0, S, res, 'Expression') + [
             ('neg', forall_k(lambda k: ecoeff(S, res.t, k) == -ecoeff(S0, a['self'].t, k))), ewf(S0, S, a, res)],
         touches=FRESH_TOUCH('Expression'))


def scale_ens(S0, S, a, res):
    out = nonleaf_object(S0, S, res, 'Expression')
    if a['other'].ty.k in ('real', 'int'):
        out += [('scale', forall_k(lambda k: ecoeff(S, res.t, k) == scalar_term(a['other']) * ecoeff(S0, a['self'].t, k))),
                ewf(S0, S, {'self': a['self']}, res)]
    return out


def ermul_loop(L):
    new = L.var('new_decomposition_dict', 0).t
    d = L.H0.dd('Expression', L.args['self'].t)
    return [
        ('new_local', z3.And(new >= L.H0.alloc, new < L.H.alloc, L.H.cls(new) == tag('dict'))),
        ('has', forall_k(lambda k: L.H.has(new, k) == L.seen[k])),
        ('val', forall_k(lambda k: z3.Implies(L.H.has(new, k), L.H.get(new, k) == L.H0.get(d, k) * scalar_term(L.args['other'])))),
    ]


for _m in ('__rmul__', '__mul__'):
    contract(EP + _m, [('self', ET), ('other', Scalar)], variants={'other': [ET, PT, TAny]}, returns=ET,
             raises=[('*', lambda S, a: z3.Not(is_scalar(S, a['other'])))],
             ensures=scale_ens, touches=FRESH_TOUCH('Expression'),
             loops={1: dict(inv=ermul_loop, mods=lambda L: {'dom': lambda r: r == L.var('new_decomposition_dict', 0).t,
                                                            'valR': lambda r: r == L.var('new_decomposition_dict', 0).t})}
             if _m == '__rmul__' else {})

contract(EP + '__truediv__', [('self', ET), ('denominator', Scalar)], variants={'denominator': [ET, TAny]}, returns=ET,
         raises=[('*', lambda S, a: z3.Or(z3.Not(is_scalar(S, a['denominator'])),
                                           scalar_term(a['denominator']) == 0 if a['denominator'].ty.k in ('real', 'int') else z3.BoolVal(True)))],
         ensures=lambda S0, S, a, res: nonleaf_object(S0, S, res, 'Expression') + ([
             ('quot', forall_k(lambda k: ecoeff(S, res.t, k) * scalar_term(a['denominator']) == ecoeff(S0, a['self'].t, k))),
             ewf(S0, S, {'self': a['self']}, res)] if a['denominator'].ty.k in ('real', 'int') else []),
         touches=FRESH_TOUCH('Expression'))

# ------------------------------------------------------------------------------------- Constraint
SENSE = {'inequality': sx.str_code('inequality'), 'equality': sx.str_code('equality')}


def cons_init_ens(S0, S, a, res):
    s = a['self'].t
    return [
        ('expression', S.fld('Constraint', 'expression', s) == a['expression'].t, 'property'),
        ('sense', S.fld('Constraint', 'equality_or_inequality', s) == a['equality_or_inequality'].t, 'property'),
        ('no_value', z3.And(S.fld_none('Constraint', '_value', s), S.fld_none('Constraint', '_dual_variable_value', s)), 'aux'),
        ('no_name', S.fld_none('Constraint', 'name', s), 'aux'),
        ('counter', z3.And(z3.Not(S.fld_none('Constraint', 'counter', s)), S.fld('Constraint', 'counter', s) == S0.g('Constraint.counter'),
                           S.g('Constraint.counter') == S0.g('Constraint.counter') + 1), 'aux'),
    ]


CONS_ARRAYS = ['f:Constraint.expression', 'f:Constraint.equality_or_inequality', 'f:Constraint._value', 'f:Constraint._value?none',
               'f:Constraint._dual_variable_value', 'f:Constraint._dual_variable_value?none', 'f:name', 'f:name?none',
               'f:counter', 'f:counter?none']

contract(CP + '__init__', [('self', CT), ('expression', ET), ('equality_or_inequality', TStr)],
         raises=[('*', lambda S, a: z3.Not(z3.Or(a['equality_or_inequality'].t == SENSE['equality'],
                                                  a['equality_or_inequality'].t == SENSE['inequality'])))],
         ensures=cons_init_ens,
         modifies=lambda S, a: {n: (lambda r: r == a['self'].t) for n in CONS_ARRAYS},
         mod_globals=['Constraint.counter'], allocates=False)

CMP_TOUCH = lambda S, a: sorted(set(obj_arrays('Expression') + DICT_ARRAYS + CONS_ARRAYS))


def cmp_contract(name, sign_self, sign_other, sense):
    def ens(S0, S, a, res):
        out = new_object(S0, S, res, 'Constraint') + [('no_new_leaf', no_new_leaf(S0, S), 'aux'),
                                                      ('registries', z3.And(registry_same(S0, S, 'Point.list_of_leaf_points'),
                                                                            registry_same(S0, S, 'Expression.list_of_leaf_expressions')), 'aux')]
        if not (a['other'].ty.k in ('real', 'int') or (a['other'].ty.k == 'ref' and a['other'].ty.a[0] == 'Expression')):
            return out
        e = S.fld('Constraint', 'expression', res.t)
        return out + [
            ('sense', S.fld('Constraint', 'equality_or_inequality', res.t) == SENSE[sense], 'property'),
            ('expr.fresh', z3.And(e >= S0.alloc, e < S.alloc, S.cls(e) == tag('Expression'), z3.Not(S.fld('Expression', '_is_leaf', e))), 'aux'),
            ('left_minus_right', forall_k(lambda k: ecoeff(S, e, k) == sign_self * ecoeff(S0, a['self'].t, k)
                                          + sign_other * operand_coeff(S0, a['other'], k)), 'property'),
            ('no_dual', z3.And(S.fld_none('Constraint', '_dual_variable_value', res.t), S.fld_none('Constraint', '_value', res.t)), 'aux'),
            ('wf', z3.Implies(z3.And(wf_expr(S0, a['self'].t), wf_expr(S0, a['other'].t) if a['other'].ty.k == 'ref' else z3.BoolVal(True)),
                              wf_expr(S, e)), 'aux'),
        ]
    contract(EP + name, [('self', ET), ('other', ET)], variants=OTHER, returns=CT, raises=_foreign,
             ensures=ens, touches=CMP_TOUCH, mod_globals=['Constraint.counter'])


cmp_contract('__le__', 1, -1, 'inequality')
cmp_contract('__lt__', 1, -1, 'inequality')
cmp_contract('__ge__', -1, 1, 'inequality')
cmp_contract('__gt__', -1, 1, 'inequality')
cmp_contract('__eq__', 1, -1, 'equality')

contract(EP + 'get_is_leaf', [('self', ET)], pure=True, returns=TBool,
         ensures=lambda S0, S, a, res: [('value', res.t == S0.fld('Expression', '_is_leaf', a['self'].t))])
contract(CP + 'set_name', [('self', CT), ('name', TOpt(TStr))], returns=TNone, allocates=False,
         ensures=lambda S0, S, a, res: [('stored', z3.And(S.fld_none('Constraint', 'name', a['self'].t) == a['name'].none,
                                                         z3.Implies(z3.Not(a['name'].none), S.fld('Constraint', 'name', a['self'].t) == a['name'].t)))],
         modifies=lambda S, a: {'f:name': lambda r: r == a['self'].t, 'f:name?none': lambda r: r == a['self'].t})

contract(EP + 'set_name', [('self', ET), ('name', TOpt(TStr))], returns=TNone, allocates=False,
         ensures=lambda S0, S, a, res: [('stored', z3.And(S.fld_none('Expression', 'name', a['self'].t) == a['name'].none,
                                                         z3.Implies(z3.Not(a['name'].none), S.fld('Expression', 'name', a['self'].t) == a['name'].t)))],
         modifies=lambda S, a: {'f:name': lambda r: r == a['self'].t, 'f:name?none': lambda r: r == a['self'].t})
