"""Contracts of PEPit/tools/dict_operations.py (C06: the coefficient-level meaning of + , scalar *, <.,.>, symmetrisation)."""
import z3
from pyvc.sorts import *          # noqa
from pyvc.symex import CDict
from pyvc.contract import contract

P = 'PEPit/tools/dict_operations.py::'


def rev(k):
    return Tup(snd(k), fst(k))


def fresh_dict(S0, S, res):
    return [('fresh', z3.And(res.t >= S0.alloc, res.t < S.alloc), 'property'),
            ('is_dict', S.cls(res.t) == tag('dict'), 'aux'),
            ('only_dicts_allocated', (lambda r: z3.ForAll([r], z3.Implies(z3.And(r >= S0.alloc, r < S.alloc), S.cls(r) == tag('dict'))))(fresh('r', I)), 'aux')]


only_local = lambda L, ret: {'dom': lambda r: r == ret, 'valR': lambda r: r == ret}

# ----------------------------------------------------------------------------------------- merge_dict
contract(
    P + 'merge_dict', [('dict1', CDict), ('dict2', CDict)], returns=CDict,
    ensures=lambda S0, S, a, res: fresh_dict(S0, S, res) + [
        ('has', forall_k(lambda k: S.has(res.t, k) == z3.Or(S0.has(a['dict1'].t, k), S0.has(a['dict2'].t, k)))),
        ('sum', forall_k(lambda k: S.val0(res.t, k) == S0.val0(a['dict1'].t, k) + S0.val0(a['dict2'].t, k))),
    ],
    touches=lambda S, a: ['dom', 'valR', 'cls'],
    loops={1: dict(
        inv=lambda L: (lambda ret, d1, d2: [
            ('ret_local', z3.And(ret >= L.H0.alloc, ret < L.H.alloc, L.H.cls(ret) == tag('dict'))),
            ('has', forall_k(lambda k: L.H.has(ret, k) == z3.Or(L.H0.has(d1, k), L.seen[k]))),
            ('val', forall_k(lambda k: z3.Implies(L.H.has(ret, k), L.H.get(ret, k) ==
                                                   L.H0.val0(d1, k) + z3.If(L.seen[k], L.H0.get(d2, k), 0)))),
        ])(L.ret().t, L.args['dict1'].t, L.args['dict2'].t),
        mods=lambda L: only_local(L, L.ret().t))},
)

# ----------------------------------------------------------------------------------------- prune_dict
contract(
    P + 'prune_dict', [('my_dict', CDict)], returns=CDict,
    ensures=lambda S0, S, a, res: fresh_dict(S0, S, res) + [
        ('has', forall_k(lambda k: S.has(res.t, k) == z3.And(S0.has(a['my_dict'].t, k), S0.get(a['my_dict'].t, k) != 0))),
        ('val', forall_k(lambda k: S.val0(res.t, k) == S0.val0(a['my_dict'].t, k))),
    ],
    touches=lambda S, a: ['dom', 'valR', 'cls'],
    loops={1: dict(
        inv=lambda L: (lambda ret, d: [
            ('ret_local', z3.And(ret >= L.H0.alloc, ret < L.H.alloc, L.H.cls(ret) == tag('dict'))),
            ('has', forall_k(lambda k: L.H.has(ret, k) == z3.And(L.seen[k], L.H0.get(d, k) != 0))),
            ('val', forall_k(lambda k: z3.Implies(L.H.has(ret, k), L.H.get(ret, k) == L.H0.get(d, k)))),
        ])(L.ret().t, L.args['my_dict'].t),
        mods=lambda L: only_local(L, L.ret().t))},
)

# -------------------------------------------------------------------------------------- multiply_dicts
contract(
    P + 'multiply_dicts', [('dict1', CDict), ('dict2', CDict)], returns=CDict,
    ensures=lambda S0, S, a, res: fresh_dict(S0, S, res) + [
        ('has', forall_k(lambda k: S.has(res.t, k) == z3.And(is_Tup(k), S0.has(a['dict1'].t, fst(k)), S0.has(a['dict2'].t, snd(k))))),
        ('prod', forall_k(lambda k: z3.Implies(S.has(res.t, k), S.get(res.t, k) ==
                                               S0.get(a['dict1'].t, fst(k)) * S0.get(a['dict2'].t, snd(k))))),
    ],
    touches=lambda S, a: ['dom', 'valR', 'cls'],
    loops={
        1: dict(
            inv=lambda L: (lambda ret, d1, d2: [
                ('ret_local', z3.And(ret >= L.H0.alloc, ret < L.H.alloc, L.H.cls(ret) == tag('dict'))),
                ('has', forall_k(lambda k: L.H.has(ret, k) == z3.And(is_Tup(k), L.seen[fst(k)], L.H0.has(d2, snd(k))))),
                ('prod', forall_k(lambda k: z3.Implies(L.H.has(ret, k), L.H.get(ret, k) == L.H0.get(d1, fst(k)) * L.H0.get(d2, snd(k))))),
            ])(L.ret().t, L.args['dict1'].t, L.args['dict2'].t),
            mods=lambda L: only_local(L, L.ret().t)),
        2: dict(
            inv=lambda L: (lambda ret, d1, d2, o: [
                ('ret_local', z3.And(ret >= L.H0.alloc, ret < L.H.alloc, L.H.cls(ret) == tag('dict'))),
                ('has', forall_k(lambda k: L.H.has(ret, k) == z3.And(is_Tup(k), z3.Or(
                    z3.And(o['seen'][fst(k)], L.H0.has(d2, snd(k))),
                    z3.And(fst(k) == o['key'], L.seen[snd(k)]))))),
                ('prod', forall_k(lambda k: z3.Implies(L.H.has(ret, k), L.H.get(ret, k) == L.H0.get(d1, fst(k)) * L.H0.get(d2, snd(k))))),
            ])(L.ret().t, L.args['dict1'].t, L.args['dict2'].t, L.outer(1)),
            mods=lambda L: only_local(L, L.ret().t)),
    },
)

# ------------------------------------------------------------------------------------- symmetrize_dict


def _sym_inv(L):
    d = L.args['my_dict'].t
    rv = L.var('reversed_dict', 0).t
    src = lambda k: z3.If(is_Tup(k), rev(k), k)
    return [
        ('rev_local', z3.And(rv >= L.H0.alloc, rv < L.H.alloc, L.H.cls(rv) == tag('dict'))),
        ('has', forall_k(lambda k: L.H.has(rv, k) == L.seen[src(k)])),
        ('val', forall_k(lambda k: z3.Implies(L.H.has(rv, k), L.H.get(rv, k) == L.H0.get(d, src(k))))),
    ]


contract(
    P + 'symmetrize_dict', [('my_dict', CDict)], returns=CDict,
    ensures=lambda S0, S, a, res: fresh_dict(S0, S, res) + [
        ('has', forall_k(lambda k: S.has(res.t, k) == z3.Or(S0.has(a['my_dict'].t, k), z3.And(is_Tup(k), S0.has(a['my_dict'].t, rev(k)))))),
        ('half_sum', forall_k(lambda k: S.val0(res.t, k) == z3.If(
            is_Tup(k), (S0.val0(a['my_dict'].t, k) + S0.val0(a['my_dict'].t, rev(k))) / 2, S0.val0(a['my_dict'].t, k)))),
    ],
    touches=lambda S, a: ['dom', 'valR', 'cls'],
    loops={1: dict(inv=_sym_inv, mods=lambda L: only_local(L, L.var('reversed_dict', 0).t))},
)
