"""Contracts of the solver wrappers (C01: every multiplier goes to the constraint it belongs to; C05 / C11: what is sent).

Tracking structure of a wrapper w (DESIGN.md 3.2, WF(w)):
    T = w._list_of_constraints_sent_to_solver      (PEPit Constraint / PSDMatrix objects, in send order)
    S = w._list_of_solver_constraints               (solver-side objects: [main PSD] ++ concat enc(T[k]))
    enc(Constraint) = [row],  enc(PSDMatrix n x m) = [M >> 0] ++ n*m entry equalities
    pos(0) = 1,  pos(k+1) = pos(k) + |enc(T[k])|     -- position in S of the first solver object of T[k]
"""
import z3
from .common import *          # noqa

for _c in ('CvxCons', 'CvxProb', 'DualVal', 'CvxVar'):
    tag(_c)

sx.FIELD_TYPES.update({
    'CvxpyWrapper._list_of_solver_constraints': TList(TRef('CvxCons')),
    'Wrapper._list_of_constraints_sent_to_solver': TList(TRef(None)),
    'Wrapper.prob': TRef('CvxProb'),
    'CvxProb.constraints': TList(TRef('CvxCons')),
    'CvxCons.dual_value': TRef('DualVal'),
    'Wrapper.dual_values': TList(TRef('DualVal')),
    'Wrapper.residual': TOpt(TRef('DualVal')),
    'Constraint._dual_variable_value': TOpt(TRef('DualVal')),
    'PSDMatrix._dual_variable_value': TOpt(TRef('DualVal')),
})

CW = 'PEPit/wrappers/cvxpy_wrapper.py::CvxpyWrapper.'
WR = 'PEPit/wrapper.py::Wrapper.'
WT = TRef('CvxpyWrapper')

pos = z3.Function('pos', I, I, I)          # pos(T, k)


def is_cons(S, r): return isinstance_f(S.A('cls'), r, 'Constraint')
def is_psd(S, r): return isinstance_f(S.A('cls'), r, 'PSDMatrix')
def sh0(S, r): return S.fld(None, 'shape0', r)
def sh1(S, r): return S.fld(None, 'shape1', r)


def enc_size(S, r):
    return z3.If(is_cons(S, r), z3.IntVal(1), 1 + sh0(S, r) * sh1(S, r))


def pos_defs(S, T):
    k, j = fresh('k', I), fresh('j', I)
    n = S.len(T)
    return [pos(T, 0) == 1,
            z3.ForAll([k], z3.Implies(z3.And(k >= 0, k < n), pos(T, k + 1) == pos(T, k) + enc_size(S, S.elt(T, k))), patterns=[pos(T, k + 1)]),
            # consequence of the definition by induction on k - j (sizes are >= 1): positions are strictly increasing
            z3.ForAll([j, k], z3.Implies(z3.And(j >= 0, j < k, k <= n), pos(T, j) < pos(T, k)), patterns=[z3.MultiPattern(pos(T, j), pos(T, k))])]


def tracked_ok(S, T):
    """every tracked object is a Constraint or a PSDMatrix (with a non-negative shape)"""
    k = fresh('k', I)
    e = S.elt(T, k)
    return z3.ForAll([k], z3.Implies(z3.And(k >= 0, k < S.len(T)), z3.And(
        e >= 0, e < S.alloc, z3.Or(is_cons(S, e), z3.And(is_psd(S, e), sh0(S, e) >= 0, sh1(S, e) >= 0)))), patterns=[S.elt(T, k)])


def recover_requires(S, a):
    w = a['self'].t
    T = S.fld('Wrapper', '_list_of_constraints_sent_to_solver', w)
    Sl = S.fld('CvxpyWrapper', '_list_of_solver_constraints', w)
    P = S.fld('CvxProb', 'constraints', S.fld('Wrapper', 'prob', w))
    k = fresh('k', I)
    dvk = S.fld('CvxCons', 'dual_value', S.elt(P, pos(T, k)))
    return [('tracked', tracked_ok(S, T)),
            ('aligned', z3.And(S.len(Sl) == pos(T, S.len(T)), S.len(P) == S.len(Sl))),
            ('lists_distinct', z3.And(T != Sl, T != P)),
            ('problem_holds_the_solver_constraints', z3.ForAll([k], z3.Implies(z3.And(k >= 0, k < S.len(Sl)), S.elt(Sl, k) == S.elt(P, k)))),
            ('lmi_dual_shapes', z3.ForAll([k], z3.Implies(z3.And(k >= 0, k < S.len(T), is_psd(S, S.elt(T, k))),
                                                        z3.And(sh0(S, dvk) == sh0(S, S.elt(T, k)), sh1(S, dvk) == sh1(S, S.elt(T, k)))))),
            ('residual_shape', z3.And(sh0(S, S.fld('CvxCons', 'dual_value', S.elt(P, 0))) == S.g('Point.counter'),
                                      sh1(S, S.fld('CvxCons', 'dual_value', S.elt(P, 0))) == S.g('Point.counter')))]


def recover_ens(S0, S, a, res):
    w = a['self'].t
    T = S0.fld('Wrapper', '_list_of_constraints_sent_to_solver', w)
    P = S0.fld('CvxProb', 'constraints', S0.fld('Wrapper', 'prob', w))
    out, residual = res.items
    k = fresh('k', I)
    dv = lambda i: S0.fld('CvxCons', 'dual_value', S0.elt(P, i))
    return [('fresh_list', z3.And(out.t >= S0.alloc, out.t < S.alloc), 'aux'),
            ('length', S.len(out.t) == 1 + S0.len(T), 'property'),
            ('residual', z3.And(residual.t == dv(0), S.elt(out.t, 0) == dv(0)), 'property'),
            ('one_dual_per_sent_object', z3.ForAll([k], z3.Implies(z3.And(k >= 0, k < S0.len(T)), S.elt(out.t, 1 + k) == dv(pos(T, k)))), 'property')]


def recover_inv(L):
    w = L.args['self'].t
    S0, H = L.H0, L.H
    T = S0.fld('Wrapper', '_list_of_constraints_sent_to_solver', w)
    P = S0.fld('CvxProb', 'constraints', S0.fld('Wrapper', 'prob', w))
    D = L.var('dual_values_temp', 0).t
    out = L.var('dual_values', 1).t
    counter, counter2 = L.var('counter', 3).t, L.var('counter2', 4).t
    k, i = fresh('k', I), fresh('i', I)
    dv = lambda j: S0.fld('CvxCons', 'dual_value', S0.elt(P, j))
    return [('locals', z3.And(D >= S0.alloc, D < H.alloc, out >= S0.alloc, out < H.alloc, D != out, H.cls(out) == tag('list'))),
            ('temp', z3.And(H.len(D) == S0.len(P), z3.ForAll([i], z3.Implies(z3.And(i >= 0, i < S0.len(P)), H.elt(D, i) == dv(i)), patterns=[H.elt(D, i)]))),
            ('counter', z3.And(counter == pos(T, L.i), counter2 == 1 + L.i)),
            ('length', H.len(out) == 1 + L.i),
            ('filled', z3.And(H.elt(out, 0) == dv(0), z3.ForAll([k], z3.Implies(z3.And(k >= 0, k < L.i), H.elt(out, 1 + k) == dv(pos(T, k))))))]


contract(
    CW + '_recover_dual_values', [('self', WT)], returns=TTuple(TList(TRef('DualVal')), TRef('DualVal')),
    requires=recover_requires, ensures=recover_ens,
    defs=lambda S, a: pos_defs(S, S.fld('Wrapper', '_list_of_constraints_sent_to_solver', a['self'].t)),
    raises=[],
    touches=lambda S, a: ['len', 'eltI', 'cls'],
    loops={1: dict(inv=recover_inv, lemmas=lambda L: (lambda T: [
        pos(T, L.i + 1) == pos(T, L.i) + enc_size(L.H0, L.H0.elt(T, L.i))])(L.H0.fld('Wrapper', '_list_of_constraints_sent_to_solver', L.args['self'].t)),
        mods=lambda L: {'len': lambda r: r == L.var('dual_values', 1).t, 'eltI': lambda r: r == L.var('dual_values', 1).t})},
)


# ------------------------------------------------------------------------------------------------------------------
# abstract contract of Wrapper._recover_dual_values (the base method only raises NotImplementedError): what assign_dual_values
# relies on, and what every override must refine
def abs_recover_ens(S0, S, a, res):
    w = a['self'].t
    T = S0.fld('Wrapper', '_list_of_constraints_sent_to_solver', w)
    out, residual = res.items
    k = fresh('k', I)
    return [('fresh_list', z3.And(out.t >= S0.alloc, out.t < S.alloc), 'aux'),
            ('length', S.len(out.t) == 1 + S0.len(T), 'property'),
            ('residual_first', S.elt(out.t, 0) == residual.t, 'property'),
            ('residual_shape', z3.And(sh0(S, residual.t) == S0.g('Point.counter'), sh1(S, residual.t) == S0.g('Point.counter')), 'aux'),
            ('lmi_dual_shapes', z3.ForAll([k], z3.Implies(z3.And(k >= 0, k < S0.len(T), is_psd(S0, S0.elt(T, k))), z3.And(
                sh0(S, S.elt(out.t, 1 + k)) == sh0(S0, S0.elt(T, k)), sh1(S, S.elt(out.t, 1 + k)) == sh1(S0, S0.elt(T, k))))), 'aux')]


contract(WR + '_recover_dual_values', [('self', TRef('Wrapper'))], returns=TTuple(TList(TRef('DualVal')), TRef('DualVal')),
         ensures=abs_recover_ens, touches=lambda S, a: ['len', 'eltI', 'cls'], assumed=True,
         note='abstract contract of the base-class method; every override carries a `refines` obligation')
REG.by_key[CW + '_recover_dual_values'].refines = WR + '_recover_dual_values'

DUALF = ['f:Constraint._dual_variable_value', 'f:Constraint._dual_variable_value?none', 'f:PSDMatrix._dual_variable_value', 'f:PSDMatrix._dual_variable_value?none']


def dual_of(S, r):
    return z3.If(is_cons(S, r), S.fld('Constraint', '_dual_variable_value', r), S.fld('PSDMatrix', '_dual_variable_value', r))


def dual_set(S, r):
    return z3.If(is_cons(S, r), z3.Not(S.fld_none('Constraint', '_dual_variable_value', r)), z3.Not(S.fld_none('PSDMatrix', '_dual_variable_value', r)))


def in_tracked(S, T, r):
    kk = fresh('kk', I)
    return z3.Exists([kk], z3.And(kk >= 0, kk < S.len(T), r == S.elt(T, kk)))


def distinct_tracked(S, T):
    j, k = fresh('j', I), fresh('k', I)
    return z3.ForAll([j, k], z3.Implies(z3.And(j >= 0, j < k, k < S.len(T)), S.elt(T, j) != S.elt(T, k)))


def assign_ens(S0, S, a, res):
    w = a['self'].t
    T = S0.fld('Wrapper', '_list_of_constraints_sent_to_solver', w)
    D = S.fld('Wrapper', 'dual_values', w)
    k = fresh('k', I)
    return [('stored', z3.And(D >= S0.alloc, S.len(D) == 1 + S0.len(T), z3.Not(S.fld_none('Wrapper', 'residual', w)),
                              S.fld('Wrapper', 'residual', w) == S.elt(D, 0), res.t == S.elt(D, 0)), 'property'),
            ('one_dual_per_sent_object', z3.ForAll([k], z3.Implies(z3.And(k >= 0, k < S0.len(T)), z3.And(
                dual_set(S, S0.elt(T, k)), dual_of(S, S0.elt(T, k)) == S.elt(D, 1 + k)))), 'property')]


def assign_inv(L):
    w = L.args['self'].t
    S0, H = L.H0, L.H
    T = S0.fld('Wrapper', '_list_of_constraints_sent_to_solver', w)
    D = L.var('dual_values', 0).t
    k = fresh('k', I)
    return [('dual_list', z3.And(D >= S0.alloc, D < H.alloc, H.len(D) == 1 + S0.len(T), H.fld('Wrapper', 'dual_values', w) == D,
                                 z3.Not(H.fld_none('Wrapper', 'residual', w)), H.fld('Wrapper', 'residual', w) == H.elt(D, 0))),
            ('assigned', z3.ForAll([k], z3.Implies(z3.And(k >= 0, k < L.i), z3.And(
                dual_set(H, S0.elt(T, k)), dual_of(H, S0.elt(T, k)) == H.elt(D, 1 + k)))))]


contract(
    WR + 'assign_dual_values', [('self', TRef('Wrapper'))], returns=TRef('DualVal'),
    requires=lambda S, a: (lambda T: [('tracked', tracked_ok(S, T)), ('each_object_sent_once', distinct_tracked(S, T)),
                                      ('shapes', z3.BoolVal(True))])(S.fld('Wrapper', '_list_of_constraints_sent_to_solver', a['self'].t)),
    ensures=assign_ens,
    raises=[('*', lambda S, a: z3.BoolVal(False))],
    modifies=lambda S, a: dict({n: (lambda r: in_tracked(S, S.fld('Wrapper', '_list_of_constraints_sent_to_solver', a['self'].t), r)) for n in DUALF},
                               **{n: (lambda r: r == a['self'].t) for n in ['f:Wrapper.dual_values', 'f:Wrapper.residual', 'f:Wrapper.residual?none']}),
    touches=lambda S, a: DUALF + ['f:Wrapper.dual_values', 'f:Wrapper.residual', 'f:Wrapper.residual?none', 'len', 'eltI', 'cls'],
    loops={1: dict(inv=assign_inv, mods=lambda L: {n: (lambda r: in_tracked(L.H0, L.H0.fld('Wrapper', '_list_of_constraints_sent_to_solver', L.args['self'].t), r))
                                                   for n in DUALF})},
)


# ------------------------------------------------------------------------------------------------------------------
# MosekWrapper._get_Gram_from_mosek: inverse of MOSEK's packing of a symmetric matrix (lower triangle, columns stored
# sequentially).  off(n, j) = position of entry (j, j):  off(n, 0) = 0,  off(n, j+1) = off(n, j) + (n - j)
MW = 'PEPit/wrappers/mosek_wrapper.py::MosekWrapper.'
from pyvc.symex import TArr1, TArr2
off = z3.Function('off', I, I, I)


def off_defs(n):
    j, k = fresh('j', I), fresh('k', I)
    return [off(n, 0) == 0,
            z3.ForAll([j], z3.Implies(z3.And(j >= 0, j < n), off(n, j + 1) == off(n, j) + (n - j)), patterns=[off(n, j + 1)]),
            # consequence by induction: offsets are non-decreasing up to n
            z3.ForAll([j, k], z3.Implies(z3.And(j >= 0, j <= k, k <= n), off(n, j) <= off(n, k)), patterns=[z3.MultiPattern(off(n, j), off(n, k))])]


def unpacked(G, tril, n, cols):
    """columns b < cols of the lower triangle (and their mirror images) are filled from tril"""
    a, b = fresh('a', I), fresh('b', I)
    return z3.ForAll([a, b], z3.Implies(z3.And(b >= 0, b < cols, a >= b, a < n),
                                        z3.And(G[a, b] == tril[off(n, b) + a - b], G[b, a] == tril[off(n, b) + a - b])))


def gram_outer(L):
    n, tril = L.args['size'].t, L.args['tril']
    G, counter = L.var('G', 0), L.var('counter', 1)
    return [('shape', z3.And(G.items[0] == n, G.items[1] == n)), ('counter', counter.t == off(n, L.i)), ('filled', unpacked(G.t, tril.t, n, L.i))]


def gram_inner(L):
    n, tril = L.args['size'].t, L.args['tril']
    G, counter = L.var('G', 0), L.var('counter', 1)
    j = L.outer(1)['i']
    a = fresh('a', I)
    return [('shape', z3.And(G.items[0] == n, G.items[1] == n)), ('counter', counter.t == off(n, j) + L.i), ('filled', unpacked(G.t, tril.t, n, j)),
            ('column', z3.ForAll([a], z3.Implies(z3.And(a >= j, a < j + L.i), z3.And(G.t[a, j] == tril.t[off(n, j) + a - j], G.t[j, a] == tril.t[off(n, j) + a - j]))))]


contract(
    MW + '_get_Gram_from_mosek', [('tril', TArr1), ('size', TInt)], returns=TArr2,
    requires=lambda S, a: [('size', a['size'].t >= 0), ('packed_length', a['tril'].items[0] >= off(a['size'].t, a['size'].t))],
    defs=lambda S, a: off_defs(a['size'].t),
    ensures=lambda S0, S, a, res: [('shape', z3.And(res.items[0] == a['size'].t, res.items[1] == a['size'].t), 'property'),
                                   ('unpack', unpacked(res.t, a['tril'].t, a['size'].t, a['size'].t), 'property')],
    loops={1: dict(inv=gram_outer, lemmas=lambda L: [off(L.args['size'].t, L.i + 1) == off(L.args['size'].t, L.i) + (L.args['size'].t - L.i)], mods=lambda L: {}),
           2: dict(inv=gram_inner, lemmas=lambda L: [off(L.args['size'].t, L.outer(1)['i'] + 1) == off(L.args['size'].t, L.outer(1)['i']) + (L.args['size'].t - L.outer(1)['i'])],
                   mods=lambda L: {})},
)


def gen_gram(w, rng):
    import numpy as np
    n = rng.choice([0, 1, 2, 3, 4])
    m = n * (n + 1) // 2 + rng.choice([0, 0, 2])
    return {'tril': np.array([rng.choice([-2, -1, 0.5, 1, 3, 0.25]) for _ in range(m)], dtype=float), 'size': n}


REG.by_key[MW + '_get_Gram_from_mosek'].gen = gen_gram
REG.by_key[CW + '_recover_dual_values'].no_runtime = 'operates on cvxpy solver objects; covered by the bounded solve harness (C01)'
REG.by_key[WR + 'assign_dual_values'].no_runtime = 'calls the solver-specific _recover_dual_values; covered by the bounded solve harness (C01)'
# ground values of the spec function on the concrete argument (closed form j*n - j(j-1)/2), used only by the run-time harness
REG.by_key[MW + '_get_Gram_from_mosek'].runtime_facts = lambda av: [off(av['size'], j) == j * av['size'] - j * (j - 1) // 2 for j in range(av['size'] + 1)]


# ==================================================================================================================
# CvxpyWrapper: what is sent (C05) and the tracking structure WF(w) that dual recovery relies on (C01)
from pyvc import cvxmodel as cm
from pyvc.cvxmodel import TExpr, KIND
from .translations import tr_requires, ecoeff
from . import translations as _tr   # noqa

sx.FIELD_TYPES.update({'CvxpyWrapper.F': TOpt(TRef('CvxVar')), 'CvxpyWrapper.G': TOpt(TRef('CvxVar')), 'Wrapper.verbose': TInt})
ET, CT, MT = TRef('Expression'), TRef('Constraint'), TRef('PSDMatrix')


def cf(S, name, r):
    return S.A('f:CvxCons.' + name)[r]


def denotes(S0, Fw, Gw, c, e):
    """the affine function c + <F, Fw> + <G, Gw> is the one denoted by expression e (same statement as the dense translation)"""
    NE, NP = S0.g('Expression.counter'), S0.g('Point.counter')
    i, j = fresh('i', I), fresh('j', I)
    return z3.And(
        z3.ForAll([i], z3.Implies(z3.And(i >= 0, i < NE), Fw[i] == ecoeff(S0, e, leafE(S0, i)))),
        z3.ForAll([i, j], z3.Implies(z3.And(i >= 0, i < NP, j >= 0, j < NP),
                                     2 * Gw[i, j] == ecoeff(S0, e, Tup(leafP(S0, i), leafP(S0, j))) + ecoeff(S0, e, Tup(leafP(S0, j), leafP(S0, i))))),
        c == ecoeff(S0, e, One))


def main_vars(S, w):
    return z3.And(z3.Not(S.fld_none('CvxpyWrapper', 'F', w)), z3.Not(S.fld_none('CvxpyWrapper', 'G', w)))


contract(
    CW + '_expression_to_solver', [('self', WT), ('expression', ET)], returns=TExpr,
    requires=lambda S, a: tr_requires(S, a) + [('main_variables_set', main_vars(S, a['self'].t))],
    ensures=lambda S0, S, a, res: [
        ('over_main_variables', z3.And(res.items[0] == S0.fld('CvxpyWrapper', 'F', a['self'].t), res.items[1] == S0.fld('CvxpyWrapper', 'G', a['self'].t)), 'property'),
        ('denotes_the_expression', denotes(S0, res.items[2], res.items[3], res.items[4], a['expression'].t), 'property')],
    pure=True,
)

SENSE_EQ, SENSE_INEQ = sx.str_code('equality'), sx.str_code('inequality')


def send_requires(S, a):
    w, c = a['self'].t, a['constraint'].t
    e = S.fld('Constraint', 'expression', c)
    T = S.fld('Wrapper', '_list_of_constraints_sent_to_solver', w)
    Sl = S.fld('CvxpyWrapper', '_list_of_solver_constraints', w)
    return tr_requires(S, {'expression': sx.V(ET, e)}) + [('main_variables_set', main_vars(S, w)), ('lists_distinct', z3.And(
        T != Sl, T != S.g('Point.list_of_leaf_points'), T != S.g('Expression.list_of_leaf_expressions'),
        Sl != S.g('Point.list_of_leaf_points'), Sl != S.g('Expression.list_of_leaf_expressions')))]


def send_ens(S0, S, a, res):
    w, c = a['self'].t, a['constraint'].t
    e = S0.fld('Constraint', 'expression', c)
    T = S0.fld('Wrapper', '_list_of_constraints_sent_to_solver', w)
    Sl = S0.fld('CvxpyWrapper', '_list_of_solver_constraints', w)
    k = S.elt(Sl, S0.len(Sl))
    sense = S0.fld('Constraint', 'equality_or_inequality', c)
    return [('tracked_once', appended_list(S0, S, T, c), 'property'),
            ('one_solver_row', z3.And(appended_list(S0, S, Sl, k), k >= S0.alloc, S.cls(k) == tag('CvxCons')), 'property'),
            ('sense', cf(S, 'ck', k) == z3.If(sense == SENSE_INEQ, KIND['le0'], KIND['eq0']), 'property'),
            ('row_denotes_the_expression', z3.And(cf(S, 'cF', k) == S0.fld('CvxpyWrapper', 'F', w), cf(S, 'cG', k) == S0.fld('CvxpyWrapper', 'G', w),
                                                  denotes(S0, cf(S, 'cFw', k), cf(S, 'cGw', k), cf(S, 'cc', k), e)), 'property')]


def appended_list(S0, S, L, x):
    i = fresh('i', I)
    return z3.And(S.len(L) == S0.len(L) + 1, S.elt(L, S0.len(L)) == x,
                  z3.ForAll([i], z3.Implies(z3.And(i >= 0, i < S0.len(L)), S.elt(L, i) == S0.elt(L, i))))


CONS_FIELDS = ['f:CvxCons.' + n for n in ('ck', 'cvar', 'cF', 'cG', 'cFw', 'cGw', 'cc', 'ci', 'cj', 'crhs')]

contract(
    CW + 'send_constraint_to_solver', [('self', WT), ('constraint', CT)], returns=TNone,
    requires=send_requires, ensures=send_ens,
    raises=[('ValueError', lambda S, a: z3.And(S.fld('Constraint', 'equality_or_inequality', a['constraint'].t) != SENSE_EQ,
                                               S.fld('Constraint', 'equality_or_inequality', a['constraint'].t) != SENSE_INEQ))],
    modifies=lambda S, a: (lambda T, Sl: {'len': lambda r: z3.Or(r == T, r == Sl), 'eltI': lambda r: z3.Or(r == T, r == Sl)})(
        S.fld('Wrapper', '_list_of_constraints_sent_to_solver', a['self'].t), S.fld('CvxpyWrapper', '_list_of_solver_constraints', a['self'].t)),
    touches=lambda S, a: ['len', 'eltI', 'cls'] + CONS_FIELDS,
    array_sorts={'f:CvxCons.cFw': z3.ArraySort(I, IA_R), 'f:CvxCons.cGw': z3.ArraySort(I, cm.A2)},
)
REG.by_key[CW + '_expression_to_solver'].no_runtime = 'returns a cvxpy expression; covered by the bounded solve harness (C05 row.data)'
REG.by_key[CW + 'send_constraint_to_solver'].no_runtime = 'builds cvxpy objects; covered by the bounded solve harness (C05 row.data)'


# ------------------------------------------------------------------------------------------- LMIs
mentry = z3.Function('mentry', I, I, I, I)          # mentry(psd, i, j): the Expression object stored at entry (i, j) of a PSDMatrix
PM = 'PEPit/psd_matrix.py::PSDMatrix.'

contract(PM + '__getitem__', [('self', MT), ('item', TTuple(TInt, TInt))], returns=ET,
         requires=lambda S, a: [('in_range', z3.And(a['item'].items[0].t >= 0, a['item'].items[0].t < sh0(S, a['self'].t),
                                                    a['item'].items[1].t >= 0, a['item'].items[1].t < sh1(S, a['self'].t)))],
         ensures=lambda S0, S, a, res: [('entry', res.t == mentry(a['self'].t, a['item'].items[0].t, a['item'].items[1].t), 'property')],
         assumed=True, pure=True, note='numpy object-array indexing: matrix_of_expressions[i, j] is the stored entry (assumed external contract); '
                            'negative indices are outside the precondition')


def entries_ok(S, m):
    """every entry of the PSDMatrix is an allocated, well-formed Expression (what the translations need)"""
    i, j = fresh('i', I), fresh('j', I)
    e = mentry(m, i, j)
    return z3.ForAll([i, j], z3.Implies(z3.And(i >= 0, i < sh0(S, m), j >= 0, j < sh1(S, m)), z3.And(
        e >= 0, e < S.alloc, S.cls(e) == tag('Expression'), wf_expr(S, e),
        z3.Implies(S.fld('Expression', '_is_leaf', e), leaf_dict(S, 'Expression', e)))), patterns=[mentry(m, i, j)])


def lmi_requires(S, a):
    w, m = a['self'].t, a['psd_matrix'].t
    T = S.fld('Wrapper', '_list_of_constraints_sent_to_solver', w)
    Sl = S.fld('CvxpyWrapper', '_list_of_solver_constraints', w)
    regs = [S.g('Point.list_of_leaf_points'), S.g('Expression.list_of_leaf_expressions')]
    return [('shape', z3.And(sh0(S, m) >= 0, sh1(S, m) >= 0)), ('entries', entries_ok(S, m)), ('reg_expr', Reg(S, 'Expression')), ('reg_point', Reg(S, 'Point')),
            ('main_variables_set', main_vars(S, w)),
            ('lists_distinct', z3.And(T != Sl, *[z3.And(T != r, Sl != r) for r in regs]))]


def lmi_rows(S0, H, L, base, count, m, w, M):
    """rows base+1 .. base+count-1 of list L are the entry couplings  M[ci, cj] == aff(entry(ci, cj)),  stored row-major"""
    t = fresh('t', I)
    k = H.elt(L, base + t)
    n1 = sh1(S0, m)
    return z3.ForAll([t], z3.Implies(z3.And(t >= 1, t < count), z3.And(
        k >= S0.alloc, k < H.alloc, H.cls(k) == tag('CvxCons'), cf(H, 'ck', k) == KIND['entry'], cf(H, 'cvar', k) == M,
        cf(H, 'ci', k) >= 0, cf(H, 'cj', k) >= 0, cf(H, 'cj', k) < n1, t == 1 + cf(H, 'ci', k) * n1 + cf(H, 'cj', k),
        cf(H, 'cF', k) == S0.fld('CvxpyWrapper', 'F', w), cf(H, 'cG', k) == S0.fld('CvxpyWrapper', 'G', w),
        denotes(S0, cf(H, 'cFw', k), cf(H, 'cGw', k), cf(H, 'cc', k), mentry(m, cf(H, 'ci', k), cf(H, 'cj', k))))))


def lmi_head(S0, H, L, base, m):
    k = H.elt(L, base)
    M = cf(H, 'cvar', k)
    return z3.And(k >= S0.alloc, k < H.alloc, H.cls(k) == tag('CvxCons'), cf(H, 'ck', k) == KIND['psd'], M >= S0.alloc, M < H.alloc, H.cls(M) == tag('CvxVar'),
                  sh0(H, M) == sh0(S0, m), sh1(H, M) == sh1(S0, m), H.A('f:CvxVar.symmetric', z3.ArraySort(I, B))[M])


def lmi_ens(S0, S, a, res):
    w, m = a['self'].t, a['psd_matrix'].t
    T = S0.fld('Wrapper', '_list_of_constraints_sent_to_solver', w)
    Sl = S0.fld('CvxpyWrapper', '_list_of_solver_constraints', w)
    n = S0.len(Sl)
    cnt = 1 + sh0(S0, m) * sh1(S0, m)
    i = fresh('i', I)
    M = cf(S, 'cvar', S.elt(Sl, n))
    return [('tracked_once', appended_list(S0, S, T, m), 'property'),
            ('solver_rows', z3.And(S.len(Sl) == n + cnt, z3.ForAll([i], z3.Implies(z3.And(i >= 0, i < n), S.elt(Sl, i) == S0.elt(Sl, i)))), 'property'),
            ('psd_variable', lmi_head(S0, S, Sl, n, m), 'property'),
            ('entry_couplings', lmi_rows(S0, S, Sl, n, cnt, m, w, M), 'property')]


def lmi_outer(L):
    S0, H = L.H0, L.H
    w, m = L.args['self'].t, L.args['psd_matrix'].t
    loc = L.var('cvxpy_constraints_list', 1).t
    M = L.var('M', 0).t
    n1 = sh1(S0, m)
    r = fresh('r', I)
    return [('local', z3.And(loc >= S0.alloc, loc < H.alloc, H.cls(loc) == tag('list'), M >= S0.alloc, M < H.alloc)),
            ('only_solver_objects_allocated', z3.ForAll([r], z3.Implies(z3.And(r >= S0.alloc, r < H.alloc),
                                                                       z3.Or(H.cls(r) == tag('CvxCons'), H.cls(r) == tag('CvxVar'), H.cls(r) == tag('list'))))),
            ('count', z3.And(H.len(loc) == 1 + L.i * n1, L.i * n1 >= 0, n1 >= 0)),
            ('head', z3.And(lmi_head(S0, H, loc, 0, m), cf(H, 'cvar', H.elt(loc, 0)) == M)),
            ('rows', lmi_rows(S0, H, loc, 0, H.len(loc), m, w, M)),
            ('wrapper_untouched', z3.And(H.fld('CvxpyWrapper', 'F', w) == S0.fld('CvxpyWrapper', 'F', w), H.fld('CvxpyWrapper', 'G', w) == S0.fld('CvxpyWrapper', 'G', w),
                                         H.fld_none('CvxpyWrapper', 'F', w) == S0.fld_none('CvxpyWrapper', 'F', w), H.fld_none('CvxpyWrapper', 'G', w) == S0.fld_none('CvxpyWrapper', 'G', w)))]


def lmi_inner(L):
    S0, H = L.H0, L.H
    m = L.args['psd_matrix'].t
    out = lmi_outer(L)
    i = L.outer(1)['i']
    out[2] = ('count', z3.And(H.len(L.var('cvxpy_constraints_list', 1).t) == 1 + i * sh1(S0, m) + L.i, i * sh1(S0, m) >= 0, sh1(S0, m) >= 0))
    return out


LMI_LOCAL = lambda L: {'len': lambda r: r == L.var('cvxpy_constraints_list', 1).t, 'eltI': lambda r: r == L.var('cvxpy_constraints_list', 1).t}

contract(
    CW + 'send_lmi_constraint_to_solver', [('self', WT), ('psd_counter', TInt), ('psd_matrix', MT)], returns=TNone,
    requires=lmi_requires, ensures=lmi_ens,
    modifies=lambda S, a: (lambda T, Sl: {'len': lambda r: z3.Or(r == T, r == Sl), 'eltI': lambda r: z3.Or(r == T, r == Sl)})(
        S.fld('Wrapper', '_list_of_constraints_sent_to_solver', a['self'].t), S.fld('CvxpyWrapper', '_list_of_solver_constraints', a['self'].t)),
    touches=lambda S, a: ['len', 'eltI', 'cls', 'f:shape0', 'f:shape1', 'f:CvxVar.symmetric'] + CONS_FIELDS,
    array_sorts={'f:CvxCons.cFw': z3.ArraySort(I, IA_R), 'f:CvxCons.cGw': z3.ArraySort(I, cm.A2), 'f:CvxVar.symmetric': z3.ArraySort(I, B)},
    loops={1: dict(inv=lmi_outer, mods=LMI_LOCAL), 2: dict(inv=lmi_inner, mods=LMI_LOCAL)},
)
REG.by_key[CW + 'send_lmi_constraint_to_solver'].no_runtime = 'builds cvxpy objects; covered by the bounded solve harness (C05 lmi.entry / lmi.entries)'


# ------------------------------------------------------------------------------------------- main variables, problem, heuristic
sx.FIELD_TYPES.update({'Wrapper.objective': TOpt(TRef('CvxExprObj'))})


def ef(S, name, r):
    return S.A('f:CvxExprObj.' + name)[r]


def smv_ens(S0, S, a, res):
    w = a['self'].t
    Sl = S0.fld('CvxpyWrapper', '_list_of_solver_constraints', w)
    F, G = S.fld('CvxpyWrapper', 'F', w), S.fld('CvxpyWrapper', 'G', w)
    k = S.elt(Sl, S0.len(Sl))
    return [('F', z3.And(z3.Not(S.fld_none('CvxpyWrapper', 'F', w)), F >= S0.alloc, S.cls(F) == tag('CvxVar'), sh0(S, F) == S0.g('Expression.counter')), 'property'),
            ('G', z3.And(z3.Not(S.fld_none('CvxpyWrapper', 'G', w)), G >= S0.alloc, S.cls(G) == tag('CvxVar'), F != G, sh0(S, G) == S0.g('Point.counter'),
                         sh1(S, G) == S0.g('Point.counter'), S.A('f:CvxVar.symmetric', z3.ArraySort(I, B))[G]), 'property'),
            ('gram_is_psd', z3.And(appended_list(S0, S, Sl, k), k >= S0.alloc, S.cls(k) == tag('CvxCons'), cf(S, 'ck', k) == KIND['psd'], cf(S, 'cvar', k) == G), 'property')]


contract(
    CW + 'set_main_variables', [('self', WT)], returns=TNone, ensures=smv_ens,
    requires=lambda S, a: [('counters', z3.And(S.g('Expression.counter') >= 0, S.g('Point.counter') >= 0))],
    modifies=lambda S, a: {'len': lambda r: r == S.fld('CvxpyWrapper', '_list_of_solver_constraints', a['self'].t),
                           'eltI': lambda r: r == S.fld('CvxpyWrapper', '_list_of_solver_constraints', a['self'].t),
                           'f:CvxpyWrapper.F': lambda r: r == a['self'].t, 'f:CvxpyWrapper.F?none': lambda r: r == a['self'].t,
                           'f:CvxpyWrapper.G': lambda r: r == a['self'].t, 'f:CvxpyWrapper.G?none': lambda r: r == a['self'].t},
)


def ph_ens(S0, S, a, res):
    """prepare_heuristic: exactly one more solver constraint,  objective >= wc_value - tol  (ABSOLUTE tolerance), tracked by nobody"""
    w = a['self'].t
    Sl = S0.fld('CvxpyWrapper', '_list_of_solver_constraints', w)
    T = S0.fld('Wrapper', '_list_of_constraints_sent_to_solver', w)
    o = S0.fld('Wrapper', 'objective', w)
    k = S.elt(Sl, S0.len(Sl))
    return [('one_more_row', z3.And(appended_list(S0, S, Sl, k), k >= S0.alloc, S.cls(k) == tag('CvxCons')), 'property'),
            ('objective_not_below_optimum_minus_tolerance', z3.And(
                cf(S, 'ck', k) == KIND['ge'], cf(S, 'crhs', k) == a['wc_value'].t - a['tol_dimension_reduction'].t,
                cf(S, 'cF', k) == ef(S0, 'cF', o), cf(S, 'cG', k) == ef(S0, 'cG', o), cf(S, 'cFw', k) == ef(S0, 'cFw', o),
                cf(S, 'cGw', k) == ef(S0, 'cGw', o), cf(S, 'cc', k) == ef(S0, 'cc', o)), 'property'),
            ('untracked', z3.And(S.len(T) == S0.len(T), S.A('eltI')[T] == S0.A('eltI')[T]), 'property')]


contract(
    CW + 'prepare_heuristic', [('self', WT), ('wc_value', Scalar), ('tol_dimension_reduction', Scalar)], returns=TNone, ensures=ph_ens,
    requires=lambda S, a: [('objective_set', z3.Not(S.fld_none('Wrapper', 'objective', a['self'].t))),
                           ('lists_distinct', S.fld('Wrapper', '_list_of_constraints_sent_to_solver', a['self'].t) != S.fld('CvxpyWrapper', '_list_of_solver_constraints', a['self'].t))],
    modifies=lambda S, a: {'len': lambda r: r == S.fld('CvxpyWrapper', '_list_of_solver_constraints', a['self'].t),
                           'eltI': lambda r: r == S.fld('CvxpyWrapper', '_list_of_solver_constraints', a['self'].t)},
)

from pyvc.symex import TArr2 as _TA2


def prob_ok(S0, S, w, sense):
    p = S.fld('Wrapper', 'prob', w)
    Sl = S0.fld('CvxpyWrapper', '_list_of_solver_constraints', w)
    Pc = S.A('f:CvxProb.constraints', IA_I)[p]
    ob = S.A('f:CvxProb.objective', IA_I)[p]
    i = fresh('i', I)
    return p, ob, z3.And(p >= S0.alloc, S.cls(p) == tag('CvxProb'), S.len(Pc) == S0.len(Sl),
                         z3.ForAll([i], z3.Implies(z3.And(i >= 0, i < S0.len(Sl)), S.elt(Pc, i) == S0.elt(Sl, i))),
                         S.A('f:CvxObjective.sense', IA_I)[ob] == sense)


def heur_ens(S0, S, a, res):
    w = a['self'].t
    p, ob, ok = prob_ok(S0, S, w, -1)
    ex = S.A('f:CvxObjective.expr', IA_I)[ob]
    i, j = fresh('i', I), fresh('j', I)
    return [('same_constraints_minimise', ok, 'property'),
            ('objective_is_weighted_gram', z3.And(ef(S, 'cG', ex) == S0.fld('CvxpyWrapper', 'G', w), ef(S, 'cc', ex) == 0,
                                                  z3.ForAll([i], ef(S, 'cFw', ex)[i] == 0),
                                                  z3.ForAll([i, j], ef(S, 'cGw', ex)[i, j] == a['weight'].t[i, j])), 'property')]


contract(
    CW + 'heuristic', [('self', WT), ('weight', _TA2)], returns=TRef('CvxProb'), ensures=heur_ens,
    requires=lambda S, a: [('main_variables_set', main_vars(S, a['self'].t))],
    modifies=lambda S, a: {'f:Wrapper.prob': lambda r: r == a['self'].t},
)


def gp_ens(S0, S, a, res):
    w = a['self'].t
    p, ob, ok = prob_ok(S0, S, w, 1)
    ex = S.A('f:CvxObjective.expr', IA_I)[ob]
    so = S.fld('Wrapper', 'objective', w)
    return [('same_constraints_maximise', ok, 'property'),
            ('objective_denotes_the_objective_expression', z3.And(
                ef(S, 'cF', ex) == S0.fld('CvxpyWrapper', 'F', w), ef(S, 'cG', ex) == S0.fld('CvxpyWrapper', 'G', w),
                denotes(S0, ef(S, 'cFw', ex), ef(S, 'cGw', ex), ef(S, 'cc', ex), a['objective'].t)), 'property'),
            ('objective_kept_for_the_heuristic', z3.And(z3.Not(S.fld_none('Wrapper', 'objective', w)), ef(S, 'cFw', so) == ef(S, 'cFw', ex),
                                                        ef(S, 'cGw', so) == ef(S, 'cGw', ex), ef(S, 'cc', so) == ef(S, 'cc', ex),
                                                        ef(S, 'cF', so) == ef(S, 'cF', ex), ef(S, 'cG', so) == ef(S, 'cG', ex)), 'aux')]


contract(
    CW + 'generate_problem', [('self', WT), ('objective', ET)], returns=TRef('CvxProb'), ensures=gp_ens,
    requires=lambda S, a: tr_requires(S, {'expression': a['objective']}) + [('main_variables_set', main_vars(S, a['self'].t))],
    modifies=lambda S, a: {'f:Wrapper.prob': lambda r: r == a['self'].t, 'f:Wrapper.objective': lambda r: r == a['self'].t,
                           'f:Wrapper.objective?none': lambda r: r == a['self'].t},
)
for _k in ('set_main_variables', 'prepare_heuristic', 'heuristic', 'generate_problem'):
    REG.by_key[CW + _k].no_runtime = 'builds cvxpy objects; covered by the bounded solve harness'
