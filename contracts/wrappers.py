"""Contracts of the solver wrappers (C01: every multiplier goes to the constraint it belongs to; C05 / C11: what is sent).

Tracking structure of a wrapper w (DESIGN.md 3.2, WF(w)):
    T = w._list_of_constraints_sent_to_solver      (PEPit Constraint / PSDMatrix objects, in send order)
    S = w._list_of_solver_constraints               (solver-side objects: [main PSD] ++ concat enc(T[k]))
    enc(Constraint) = [row],  enc(PSDMatrix n x m) = [M >> 0] ++ n*m entry equalities
    pos(0) = 1,  pos(k+1) = pos(k) + |enc(T[k])|     -- position in S of the first solver object of T[k]
"""
import z3
from .common import *          # noqa

for _c in ('CvxCons', 'CvxProb', 'DualVal', 'CvxVar'):
    tag(_c)

sx.FIELD_TYPES.update({
    'CvxpyWrapper._list_of_solver_constraints': TList(TRef('CvxCons')),
    'Wrapper._list_of_constraints_sent_to_solver': TList(TRef(None)),
    'Wrapper.prob': TRef('CvxProb'),
    'CvxProb.constraints': TList(TRef('CvxCons')),
    'CvxCons.dual_value': TRef('DualVal'),
    'Wrapper.dual_values': TList(TRef('DualVal')),
    'Wrapper.residual': TOpt(TRef('DualVal')),
    'Constraint._dual_variable_value': TOpt(TRef('DualVal')),
    'PSDMatrix._dual_variable_value': TOpt(TRef('DualVal')),
})

CW = 'PEPit/wrappers/cvxpy_wrapper.py::CvxpyWrapper.'
WR = 'PEPit/wrapper.py::Wrapper.'
WT = TRef('CvxpyWrapper')

pos = z3.Function('pos', I, I, I)          # pos(T, k)


def is_cons(S, r): return isinstance_f(S.A('cls'), r, 'Constraint')
def is_psd(S, r): return isinstance_f(S.A('cls'), r, 'PSDMatrix')
def sh0(S, r): return S.fld(None, 'shape0', r)
def sh1(S, r): return S.fld(None, 'shape1', r)


def enc_size(S, r):
    return z3.If(is_cons(S, r), z3.IntVal(1), 1 + sh0(S, r) * sh1(S, r))


def pos_defs(S, T):
    k, j = fresh('k', I), fresh('j', I)
    n = S.len(T)
    return [pos(T, 0) == 1,
            z3.ForAll([k], z3.Implies(z3.And(k >= 0, k < n), pos(T, k + 1) == pos(T, k) + enc_size(S, S.elt(T, k))), patterns=[pos(T, k + 1)]),
            # consequence of the definition by induction on k - j (sizes are >= 1): positions are strictly increasing
            z3.ForAll([j, k], z3.Implies(z3.And(j >= 0, j < k, k <= n), pos(T, j) < pos(T, k)), patterns=[z3.MultiPattern(pos(T, j), pos(T, k))])]


def tracked_ok(S, T):
    """every tracked object is a Constraint or a PSDMatrix (with a non-negative shape)"""
    k = fresh('k', I)
    e = S.elt(T, k)
    return z3.ForAll([k], z3.Implies(z3.And(k >= 0, k < S.len(T)), z3.And(
        e >= 0, e < S.alloc, z3.Or(is_cons(S, e), z3.And(is_psd(S, e), sh0(S, e) >= 0, sh1(S, e) >= 0)))), patterns=[S.elt(T, k)])


def recover_requires(S, a):
    w = a['self'].t
    T = S.fld('Wrapper', '_list_of_constraints_sent_to_solver', w)
    Sl = S.fld('CvxpyWrapper', '_list_of_solver_constraints', w)
    P = S.fld('CvxProb', 'constraints', S.fld('Wrapper', 'prob', w))
    k = fresh('k', I)
    dvk = S.fld('CvxCons', 'dual_value', S.elt(P, pos(T, k)))
    return [('tracked', tracked_ok(S, T)),
            ('aligned', z3.And(S.len(Sl) == pos(T, S.len(T)), S.len(P) == S.len(Sl))),
            ('lists_distinct', z3.And(T != Sl, T != P)),
            ('problem_holds_the_solver_constraints', z3.ForAll([k], z3.Implies(z3.And(k >= 0, k < S.len(Sl)), S.elt(Sl, k) == S.elt(P, k)))),
            ('lmi_dual_shapes', z3.ForAll([k], z3.Implies(z3.And(k >= 0, k < S.len(T), is_psd(S, S.elt(T, k))),
                                                        z3.And(sh0(S, dvk) == sh0(S, S.elt(T, k)), sh1(S, dvk) == sh1(S, S.elt(T, k)))))),
            ('residual_shape', z3.And(sh0(S, S.fld('CvxCons', 'dual_value', S.elt(P, 0))) == S.g('Point.counter'),
                                      sh1(S, S.fld('CvxCons', 'dual_value', S.elt(P, 0))) == S.g('Point.counter')))]


def recover_ens(S0, S, a, res):
    w = a['self'].t
    T = S0.fld('Wrapper', '_list_of_constraints_sent_to_solver', w)
    P = S0.fld('CvxProb', 'constraints', S0.fld('Wrapper', 'prob', w))
    out, residual = res.items
    k = fresh('k', I)
    dv = lambda i: S0.fld('CvxCons', 'dual_value', S0.elt(P, i))
    return [('fresh_list', z3.And(out.t >= S0.alloc, out.t < S.alloc), 'aux'),
            ('length', S.len(out.t) == 1 + S0.len(T), 'property'),
            ('residual', z3.And(residual.t == dv(0), S.elt(out.t, 0) == dv(0)), 'property'),
            ('one_dual_per_sent_object', z3.ForAll([k], z3.Implies(z3.And(k >= 0, k < S0.len(T)), S.elt(out.t, 1 + k) == dv(pos(T, k)))), 'property')]


def recover_inv(L):
    w = L.args['self'].t
    S0, H = L.H0, L.H
    T = S0.fld('Wrapper', '_list_of_constraints_sent_to_solver', w)
    P = S0.fld('CvxProb', 'constraints', S0.fld('Wrapper', 'prob', w))
    D = L.var('dual_values_temp', 0).t
    out = L.var('dual_values', 1).t
    counter, counter2 = L.var('counter', 3).t, L.var('counter2', 4).t
    k, i = fresh('k', I), fresh('i', I)
    dv = lambda j: S0.fld('CvxCons', 'dual_value', S0.elt(P, j))
    return [('locals', z3.And(D >= S0.alloc, D < H.alloc, out >= S0.alloc, out < H.alloc, D != out, H.cls(out) == tag('list'))),
            ('temp', z3.And(H.len(D) == S0.len(P), z3.ForAll([i], z3.Implies(z3.And(i >= 0, i < S0.len(P)), H.elt(D, i) == dv(i)), patterns=[H.elt(D, i)]))),
            ('counter', z3.And(counter == pos(T, L.i), counter2 == 1 + L.i)),
            ('length', H.len(out) == 1 + L.i),
            ('filled', z3.And(H.elt(out, 0) == dv(0), z3.ForAll([k], z3.Implies(z3.And(k >= 0, k < L.i), H.elt(out, 1 + k) == dv(pos(T, k))))))]


contract(
    CW + '_recover_dual_values', [('self', WT)], returns=TTuple(TList(TRef('DualVal')), TRef('DualVal')),
    requires=recover_requires, ensures=recover_ens,
    defs=lambda S, a: pos_defs(S, S.fld('Wrapper', '_list_of_constraints_sent_to_solver', a['self'].t)),
    raises=[],
    touches=lambda S, a: ['len', 'eltI', 'cls'],
    loops={1: dict(inv=recover_inv, lemmas=lambda L: (lambda T: [
        pos(T, L.i + 1) == pos(T, L.i) + enc_size(L.H0, L.H0.elt(T, L.i))])(L.H0.fld('Wrapper', '_list_of_constraints_sent_to_solver', L.args['self'].t)),
        mods=lambda L: {'len': lambda r: r == L.var('dual_values', 1).t, 'eltI': lambda r: r == L.var('dual_values', 1).t})},
)


# ------------------------------------------------------------------------------------------------------------------
# abstract contract of Wrapper._recover_dual_values (the base method only raises NotImplementedError): what assign_dual_values
# relies on, and what every override must refine
def abs_recover_ens(S0, S, a, res):
    w = a['self'].t
    T = S0.fld('Wrapper', '_list_of_constraints_sent_to_solver', w)
    out, residual = res.items
    k = fresh('k', I)
    return [('fresh_list', z3.And(out.t >= S0.alloc, out.t < S.alloc), 'aux'),
            ('length', S.len(out.t) == 1 + S0.len(T), 'property'),
            ('residual_first', S.elt(out.t, 0) == residual.t, 'property'),
            ('residual_shape', z3.And(sh0(S, residual.t) == S0.g('Point.counter'), sh1(S, residual.t) == S0.g('Point.counter')), 'aux'),
            ('lmi_dual_shapes', z3.ForAll([k], z3.Implies(z3.And(k >= 0, k < S0.len(T), is_psd(S0, S0.elt(T, k))), z3.And(
                sh0(S, S.elt(out.t, 1 + k)) == sh0(S0, S0.elt(T, k)), sh1(S, S.elt(out.t, 1 + k)) == sh1(S0, S0.elt(T, k))))), 'aux')]


contract(WR + '_recover_dual_values', [('self', TRef('Wrapper'))], returns=TTuple(TList(TRef('DualVal')), TRef('DualVal')),
         ensures=abs_recover_ens, touches=lambda S, a: ['len', 'eltI', 'cls'], assumed=True,
         note='abstract contract of the base-class method; every override carries a `refines` obligation')
REG.by_key[CW + '_recover_dual_values'].refines = WR + '_recover_dual_values'

DUALF = ['f:Constraint._dual_variable_value', 'f:Constraint._dual_variable_value?none', 'f:PSDMatrix._dual_variable_value', 'f:PSDMatrix._dual_variable_value?none']


def dual_of(S, r):
    return z3.If(is_cons(S, r), S.fld('Constraint', '_dual_variable_value', r), S.fld('PSDMatrix', '_dual_variable_value', r))


def dual_set(S, r):
    return z3.If(is_cons(S, r), z3.Not(S.fld_none('Constraint', '_dual_variable_value', r)), z3.Not(S.fld_none('PSDMatrix', '_dual_variable_value', r)))


def in_tracked(S, T, r):
    kk = fresh('kk', I)
    return z3.Exists([kk], z3.And(kk >= 0, kk < S.len(T), r == S.elt(T, kk)))


def distinct_tracked(S, T):
    j, k = fresh('j', I), fresh('k', I)
    return z3.ForAll([j, k], z3.Implies(z3.And(j >= 0, j < k, k < S.len(T)), S.elt(T, j) != S.elt(T, k)))


def assign_ens(S0, S, a, res):
    w = a['self'].t
    T = S0.fld('Wrapper', '_list_of_constraints_sent_to_solver', w)
    D = S.fld('Wrapper', 'dual_values', w)
    k = fresh('k', I)
    return [('stored', z3.And(D >= S0.alloc, S.len(D) == 1 + S0.len(T), z3.Not(S.fld_none('Wrapper', 'residual', w)),
                              S.fld('Wrapper', 'residual', w) == S.elt(D, 0), res.t == S.elt(D, 0)), 'property'),
            ('one_dual_per_sent_object', z3.ForAll([k], z3.Implies(z3.And(k >= 0, k < S0.len(T)), z3.And(
                dual_set(S, S0.elt(T, k)), dual_of(S, S0.elt(T, k)) == S.elt(D, 1 + k)))), 'property')]


def assign_inv(L):
    w = L.args['self'].t
    S0, H = L.H0, L.H
    T = S0.fld('Wrapper', '_list_of_constraints_sent_to_solver', w)
    D = L.var('dual_values', 0).t
    k = fresh('k', I)
    return [('dual_list', z3.And(D >= S0.alloc, D < H.alloc, H.len(D) == 1 + S0.len(T), H.fld('Wrapper', 'dual_values', w) == D,
                                 z3.Not(H.fld_none('Wrapper', 'residual', w)), H.fld('Wrapper', 'residual', w) == H.elt(D, 0))),
            ('assigned', z3.ForAll([k], z3.Implies(z3.And(k >= 0, k < L.i), z3.And(
                dual_set(H, S0.elt(T, k)), dual_of(H, S0.elt(T, k)) == H.elt(D, 1 + k)))))]


contract(
    WR + 'assign_dual_values', [('self', TRef('Wrapper'))], returns=TRef('DualVal'),
    requires=lambda S, a: (lambda T: [('tracked', tracked_ok(S, T)), ('each_object_sent_once', distinct_tracked(S, T)),
                                      ('shapes', z3.BoolVal(True))])(S.fld('Wrapper', '_list_of_constraints_sent_to_solver', a['self'].t)),
    ensures=assign_ens,
    raises=[('*', lambda S, a: z3.BoolVal(False))],
    modifies=lambda S, a: dict({n: (lambda r: in_tracked(S, S.fld('Wrapper', '_list_of_constraints_sent_to_solver', a['self'].t), r)) for n in DUALF},
                               **{n: (lambda r: r == a['self'].t) for n in ['f:Wrapper.dual_values', 'f:Wrapper.residual', 'f:Wrapper.residual?none']}),
    touches=lambda S, a: DUALF + ['f:Wrapper.dual_values', 'f:Wrapper.residual', 'f:Wrapper.residual?none', 'len', 'eltI', 'cls'],
    loops={1: dict(inv=assign_inv, mods=lambda L: {n: (lambda r: in_tracked(L.H0, L.H0.fld('Wrapper', '_list_of_constraints_sent_to_solver', L.args['self'].t), r))
                                                   for n in DUALF})},
)


# ------------------------------------------------------------------------------------------------------------------
# MosekWrapper._get_Gram_from_mosek: inverse of MOSEK's packing of a symmetric matrix (lower triangle, columns stored
# sequentially).  off(n, j) = position of entry (j, j):  off(n, 0) = 0,  off(n, j+1) = off(n, j) + (n - j)
MW = 'PEPit/wrappers/mosek_wrapper.py::MosekWrapper.'
from pyvc.symex import TArr1, TArr2
off = z3.Function('off', I, I, I)


def off_defs(n):
    j, k = fresh('j', I), fresh('k', I)
    return [off(n, 0) == 0,
            z3.ForAll([j], z3.Implies(z3.And(j >= 0, j < n), off(n, j + 1) == off(n, j) + (n - j)), patterns=[off(n, j + 1)]),
            # consequence by induction: offsets are non-decreasing up to n
            z3.ForAll([j, k], z3.Implies(z3.And(j >= 0, j <= k, k <= n), off(n, j) <= off(n, k)), patterns=[z3.MultiPattern(off(n, j), off(n, k))])]


def unpacked(G, tril, n, cols):
    """columns b < cols of the lower triangle (and their mirror images) are filled from tril"""
    a, b = fresh('a', I), fresh('b', I)
    return z3.ForAll([a, b], z3.Implies(z3.And(b >= 0, b < cols, a >= b, a < n),
                                        z3.And(G[a, b] == tril[off(n, b) + a - b], G[b, a] == tril[off(n, b) + a - b])))


def gram_outer(L):
    n, tril = L.args['size'].t, L.args['tril']
    G, counter = L.var('G', 0), L.var('counter', 1)
    return [('shape', z3.And(G.items[0] == n, G.items[1] == n)), ('counter', counter.t == off(n, L.i)), ('filled', unpacked(G.t, tril.t, n, L.i))]


def gram_inner(L):
    n, tril = L.args['size'].t, L.args['tril']
    G, counter = L.var('G', 0), L.var('counter', 1)
    j = L.outer(1)['i']
    a = fresh('a', I)
    return [('shape', z3.And(G.items[0] == n, G.items[1] == n)), ('counter', counter.t == off(n, j) + L.i), ('filled', unpacked(G.t, tril.t, n, j)),
            ('column', z3.ForAll([a], z3.Implies(z3.And(a >= j, a < j + L.i), z3.And(G.t[a, j] == tril.t[off(n, j) + a - j], G.t[j, a] == tril.t[off(n, j) + a - j]))))]


contract(
    MW + '_get_Gram_from_mosek', [('tril', TArr1), ('size', TInt)], returns=TArr2,
    requires=lambda S, a: [('size', a['size'].t >= 0), ('packed_length', a['tril'].items[0] >= off(a['size'].t, a['size'].t))],
    defs=lambda S, a: off_defs(a['size'].t),
    ensures=lambda S0, S, a, res: [('shape', z3.And(res.items[0] == a['size'].t, res.items[1] == a['size'].t), 'property'),
                                   ('unpack', unpacked(res.t, a['tril'].t, a['size'].t, a['size'].t), 'property')],
    loops={1: dict(inv=gram_outer, lemmas=lambda L: [off(L.args['size'].t, L.i + 1) == off(L.args['size'].t, L.i) + (L.args['size'].t - L.i)], mods=lambda L: {}),
           2: dict(inv=gram_inner, lemmas=lambda L: [off(L.args['size'].t, L.outer(1)['i'] + 1) == off(L.args['size'].t, L.outer(1)['i']) + (L.args['size'].t - L.outer(1)['i'])],
                   mods=lambda L: {})},
)


def gen_gram(w, rng):
    import numpy as np
    n = rng.choice([0, 1, 2, 3, 4])
    m = n * (n + 1) // 2 + rng.choice([0, 0, 2])
    return {'tril': np.array([rng.choice([-2, -1, 0.5, 1, 3, 0.25]) for _ in range(m)], dtype=float), 'size': n}


REG.by_key[MW + '_get_Gram_from_mosek'].gen = gen_gram
REG.by_key[CW + '_recover_dual_values'].no_runtime = 'operates on cvxpy solver objects; covered by the bounded solve harness (C01)'
REG.by_key[WR + 'assign_dual_values'].no_runtime = 'calls the solver-specific _recover_dual_values; covered by the bounded solve harness (C01)'
# ground values of the spec function on the concrete argument (closed form j*n - j(j-1)/2), used only by the run-time harness
REG.by_key[MW + '_get_Gram_from_mosek'].runtime_facts = lambda av: [off(av['size'], j) == j * av['size'] - j * (j - 1) // 2 for j in range(av['size'] + 1)]
