"""Contracts of PEPit/tools/expressions_to_matrices.py (C05: the numeric data denotes the symbolic expression)."""
import z3
from .common import *          # noqa
from pyvc.symex import TArr1, TArr1i, TArr2

TP = 'PEPit/tools/expressions_to_matrices.py::'
ET = TRef('Expression')


def tr_requires(S, a):
    e = a['expression'].t
    return [('wf', wf_expr(S, e)), ('reg_expr', Reg(S, 'Expression')), ('reg_point', Reg(S, 'Point')),
            ('leaf_dict', z3.Implies(S.fld('Expression', '_is_leaf', e), leaf_dict(S, 'Expression', e)))]


def ecoeff(S, e, k):
    return S.coeff('Expression', e, k)


def dense_ens(S0, S, a, res):
    e = a['expression'].t
    G, F, cons = res.items
    NE, NP = S0.g('Expression.counter'), S0.g('Point.counter')
    i, j = fresh('i', I), fresh('j', I)
    return [
        ('shapes', z3.And(F.items[0] == NE, G.items[0] == NP, G.items[1] == NP), 'property'),
        ('F', z3.ForAll([i], z3.Implies(z3.And(i >= 0, i < NE), F.t[i] == ecoeff(S0, e, leafE(S0, i)))), 'property'),
        ('G', z3.ForAll([i, j], z3.Implies(z3.And(i >= 0, i < NP, j >= 0, j < NP),
                                           2 * G.t[i, j] == ecoeff(S0, e, Tup(leafP(S0, i), leafP(S0, j))) + ecoeff(S0, e, Tup(leafP(S0, j), leafP(S0, i))))),
         'property'),
        ('cons', cons.t == ecoeff(S0, e, One), 'property'),
    ]


def dense_inv(L):
    e = L.args['expression'].t
    S0 = L.H0
    d = S0.dd('Expression', e)
    F, G, cons = L.var('Fweights', 1), L.var('Gweights', 2), L.var('cons', 0)
    NE, NP = S0.g('Expression.counter'), S0.g('Point.counter')
    i, j = fresh('i', I), fresh('j', I)
    pick = lambda k: z3.If(L.seen[k], S0.get(d, k), z3.RealVal(0))
    return [
        ('shapes', z3.And(F.items[0] == NE, G.items[0] == NP, G.items[1] == NP)),
        ('F', z3.ForAll([i], z3.Implies(z3.And(i >= 0, i < NE), F.t[i] == pick(leafE(S0, i))))),
        ('G', z3.ForAll([i, j], z3.Implies(z3.And(i >= 0, i < NP, j >= 0, j < NP), G.t[i, j] == pick(Tup(leafP(S0, i), leafP(S0, j)))))),
        ('cons', sx.to_real(cons.t) == pick(One)),
    ]


contract(
    TP + 'expression_to_matrices', [('expression', ET)], returns=TTuple(TArr2, TArr1, TReal), pure=True,
    requires=tr_requires, ensures=dense_ens,
    loops={1: dict(inv=dense_inv, real_vars=['cons', 0], mods=lambda L: {})},
    local_types={'point1': 'Point', 'point2': 'Point', 5: 'Point', 6: 'Point'},
)


# ------------------------------------------------------------------------------------------- sparse
def sparse_names(L):
    return dict(Fi=L.var('Fweights_ind', 1).t, Fv=L.var('Fweights_val', 2).t, Gi=L.var('Gweights_indi', 3).t,
                Gj=L.var('Gweights_indj', 4).t, Gv=L.var('Gweights_val', 5).t)


def pairkey(S, a, b):
    return Tup(leafP(S, a), leafP(S, b))


def emitter(S, d, a, b):
    """for a >= b: the key of the decomposition that emits the matrix entry (a, b)"""
    return z3.If(S.has(d, pairkey(S, a, b)), pairkey(S, a, b), pairkey(S, b, a))


def sparse_facts(S0, e, seen, lenF, Fi, Fv, lenG, Gi, Gj, Gv, cons):
    """the relation between the emitted triplets and the part `seen` of the decomposition (seen = whole domain at exit);
    Fi, Fv, Gi, Gj, Gv are z3 arrays (Int -> Int / Real)"""
    d = S0.dd('Expression', e)
    NE, NP = S0.g('Expression.counter'), S0.g('Point.counter')
    t, u, a, b, i = fresh('t', I), fresh('u', I), fresh('a', I), fresh('b', I), fresh('i', I)
    c = lambda k: S0.val0(d, k)
    return [
        ('F.entries', z3.ForAll([t], z3.Implies(z3.And(t >= 0, t < lenF), z3.And(
            Fi[t] >= 0, Fi[t] < NE, seen[leafE(S0, Fi[t])], S0.has(d, leafE(S0, Fi[t])), Fv[t] == S0.get(d, leafE(S0, Fi[t])))))),
        ('F.nodup', z3.ForAll([t, u], z3.Implies(z3.And(t >= 0, t < lenF, u >= 0, u < lenF, Fi[t] == Fi[u]), t == u))),
        ('F.complete', z3.ForAll([i], z3.Implies(z3.And(i >= 0, i < NE, seen[leafE(S0, i)], S0.has(d, leafE(S0, i))),
                                              z3.Exists([t], z3.And(t >= 0, t < lenF, Fi[t] == i))))),
        ('G.entries', z3.ForAll([t], z3.Implies(z3.And(t >= 0, t < lenG), z3.And(
            Gj[t] >= 0, Gi[t] >= Gj[t], Gi[t] < NP,
            seen[emitter(S0, d, Gi[t], Gj[t])], S0.has(d, emitter(S0, d, Gi[t], Gj[t])),
            2 * Gv[t] == c(pairkey(S0, Gi[t], Gj[t])) + c(pairkey(S0, Gj[t], Gi[t])))))),
        ('G.nodup', z3.ForAll([t, u], z3.Implies(z3.And(t >= 0, t < lenG, u >= 0, u < lenG, Gi[t] == Gi[u], Gj[t] == Gj[u]), t == u))),
        ('G.complete', z3.ForAll([a, b], z3.Implies(
            z3.And(b >= 0, a >= b, a < NP, seen[emitter(S0, d, a, b)], S0.has(d, emitter(S0, d, a, b))),
            z3.Exists([t], z3.And(t >= 0, t < lenG, Gi[t] == a, Gj[t] == b))))),
        ('cons', cons == z3.If(seen[One], S0.get(d, One), z3.RealVal(0))),
    ]


def sparse_inv(L):
    n = sparse_names(L)
    H = L.H
    e = L.args['expression'].t
    cons = L.var('cons_val', 0)
    ids = list(n.values())
    out = [('locals', z3.And(*[z3.And(x >= L.H0.alloc, x < H.alloc, H.cls(x) == tag('list')) for x in ids] + [z3.Distinct(*ids)])),
           ('lens', z3.And(H.len(n['Fi']) == H.len(n['Fv']), H.len(n['Gi']) == H.len(n['Gj']), H.len(n['Gi']) == H.len(n['Gv']),
                           H.len(n['Fi']) >= 0, H.len(n['Gi']) >= 0))]
    out += [(lab, f) for lab, f in sparse_facts(L.H0, e, L.seen, H.len(n['Fi']), H.A('eltI')[n['Fi']], H.A('eltR')[n['Fv']],
                                              H.len(n['Gi']), H.A('eltI')[n['Gi']], H.A('eltI')[n['Gj']], H.A('eltR')[n['Gv']], sx.to_real(cons.t))]
    return out


def sparse_ens(S0, S, a, res):
    e = a['expression'].t
    Gi, Gj, Gv, Fi, Fv, cons = res.items
    d = S0.dd('Expression', e)
    facts = sparse_facts(S0, e, S0.dom(d), Fi.items[0], Fi.t, Fv.t, Gi.items[0], Gi.t, Gj.t, Gv.t, cons.t)
    r = fresh('r', I)
    return [('shapes', z3.And(Fi.items[0] == Fv.items[0], Gi.items[0] == Gj.items[0], Gi.items[0] == Gv.items[0],
                              Fi.items[0] >= 0, Gi.items[0] >= 0), 'property'),
            ('only_lists_allocated', z3.ForAll([r], z3.Implies(z3.And(r >= S0.alloc, r < S.alloc), S.cls(r) == tag('list'))), 'aux')] + \
           [(lab, f, 'property') for lab, f in facts]


def sparse_mods(L):
    n = sparse_names(L)
    ids = list(n.values())
    pred = lambda r: z3.Or(*[r == x for x in ids])
    return {'len': pred, 'eltI': pred, 'eltR': pred}


contract(
    TP + 'expression_to_sparse_matrices', [('expression', ET)], returns=TTuple(TArr1i, TArr1i, TArr1, TArr1i, TArr1, TReal),
    requires=tr_requires, ensures=sparse_ens,
    loops={1: dict(inv=sparse_inv, real_vars=['cons_val', 0], mods=sparse_mods)},
    local_types={'point1': 'Point', 'point2': 'Point', 8: 'Point', 9: 'Point', 1: TList(TInt), 2: TList(TReal), 3: TList(TInt), 4: TList(TInt), 5: TList(TReal),
                 'Fweights_ind': TList(TInt), 'Fweights_val': TList(TReal),
                 'Gweights_indi': TList(TInt), 'Gweights_indj': TList(TInt), 'Gweights_val': TList(TReal)},
)
