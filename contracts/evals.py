"""Contracts of the value accessors (C16: failures are reported; C02: a value is the combination of its operands' values).

`eval` of a derived object is specified with a fold spec function over the decomposition:
    esum(empty) = 0,   esum(seen + {k}) = esum(seen) + weight_k * value(k)      (k not in seen)
which is what "the same linear / bilinear combination of the values of its operands" means; + being commutative and
associative, a function satisfying both equations for every enumeration order exists (the finite sum), so assuming
them is consistent.  They are instantiated as ghost lemmas at each loop iteration."""
import z3
from .common import *          # noqa
from pyvc.symex import TVec

EP = 'PEPit/expression.py::Expression.'
PP = 'PEPit/point.py::Point.'
CP = 'PEPit/constraint.py::Constraint.'
MP = 'PEPit/psd_matrix.py::PSDMatrix.'
ET, PT, CT, MT = TRef('Expression'), TRef('Point'), TRef('Constraint'), TRef('PSDMatrix')

sx.FIELD_TYPES['Point._value'] = TOpt(TVec)

esum = z3.Function('esum', KB, R)
psum = z3.Function('psum', KB, Vec)


def pval_none(S, r): return S.fld_none('Point', '_value', r)
def pval(S, r): return S.fld('Point', '_value', r)
def eval_none(S, r): return S.fld_none('Expression', '_value', r)
def evalue(S, r): return S.fld('Expression', '_value', r)


def missing(S, k):
    """key k of an expression decomposition lacks a leaf value"""
    return z3.Or(z3.And(is_Obj(k), eval_none(S, oid(k))),
                 z3.And(is_Tup(k), z3.Or(pval_none(S, oid(fst(k))), pval_none(S, oid(snd(k))))))


def e_unsolved(S, e):
    """a leaf without a value, or a combination one of whose operands has no value (whatever was cached earlier)"""
    d = S.dd('Expression', e)
    k = fresh('kx', Key)
    leaf = S.fld('Expression', '_is_leaf', e)
    return z3.Or(z3.And(leaf, eval_none(S, e)), z3.And(z3.Not(leaf), z3.Exists([k], z3.And(S.has(d, k), missing(S, k)))))


def p_unsolved(S, p):
    d = S.dd('Point', p)
    k = fresh('kx', Key)
    leaf = S.fld('Point', '_is_leaf', p)
    return z3.Or(z3.And(leaf, pval_none(S, p)), z3.And(z3.Not(leaf), z3.Exists([k], z3.And(S.has(d, k), pval_none(S, oid(k))))))


def unchanged(L, fields):
    """every object allocated before the call keeps the listed optional fields"""
    r = fresh('r', I)
    cl = []
    for cls, attr in fields:
        cl += [L.H.farr(cls, attr)[r] == L.H0.farr(cls, attr)[r], L.H.farr(cls, attr, none=True)[r] == L.H0.farr(cls, attr, none=True)[r]]
    return z3.ForAll([r], z3.Implies(z3.And(r >= 0, r < L.H0.alloc), z3.And(*cl)))


def pair_dims(S, e):
    d = S.dd('Expression', e)
    return forall_k(lambda k: z3.Implies(z3.And(S.has(d, k), is_Tup(k), z3.Not(pval_none(S, oid(fst(k)))), z3.Not(pval_none(S, oid(snd(k))))),
                                         vdim(pval(S, oid(fst(k)))) == vdim(pval(S, oid(snd(k))))))


def term(S, d, k):
    w = S.get(d, k)
    return z3.If(is_One(k), w, z3.If(is_Obj(k), w * evalue(S, oid(k)), w * vdot(pval(S, oid(fst(k))), pval(S, oid(snd(k))))))


def leaves_self_consistent(S, e):
    """a leaf appears in its own decomposition only (wf): a non-leaf is never a key"""
    return z3.BoolVal(True)


# ------------------------------------------------------------------------------------ Expression.eval
def e_eval_ens(S0, S, a, res):
    s = a['self'].t
    d = S0.dd('Expression', s)
    return [
        ('cached', z3.And(z3.Not(eval_none(S, s)), res.t == evalue(S, s)), 'property'),
        ('leaf_value', z3.Implies(S0.fld('Expression', '_is_leaf', s), res.t == evalue(S0, s)), 'property'),
        # the value of a combination is ALWAYS the combination of the current operand values (never a number cached earlier)
        ('combination', z3.Implies(z3.Not(S0.fld('Expression', '_is_leaf', s)), res.t == esum(S0.dom(d))), 'ghost'),
    ]


def e_eval_inv(L):
    s = L.args['self'].t
    d = L.H0.dd('Expression', s)
    value = L.var('value', 0)
    return [
        ('no_missing', forall_k(lambda k: z3.Implies(L.seen[k], z3.Not(missing(L.H0, k))))),
        ('acc', sx.to_real(value.t) == esum(L.seen)),
        ('values_unchanged', unchanged(L, [('Expression', '_value'), ('Point', '_value')])),
    ]


def e_eval_lemmas(L):
    d = L.H0.dd('Expression', L.args['self'].t)
    key = L.pos['key']
    return [esum(z3.Store(L.seen, key, True)) == esum(L.seen) + term(L.H0, d, key)]


VAL_E = ['f:Expression._value', 'f:Expression._value?none']
VAL_P = ['f:Point._value', 'f:Point._value?none']

contract(
    EP + 'eval', [('self', ET)], returns=TReal,
    requires=lambda S, a: [('wf', z3.Or(S.fld('Expression', '_is_leaf', a['self'].t), z3.And(wf_expr(S, a['self'].t), pair_dims(S, a['self'].t))))],
    axioms=lambda: [esum(z3.K(Key, False)) == 0],
    raises=[('ValueError', lambda S, a: e_unsolved(S, a['self'].t))],
    ensures=e_eval_ens,
    modifies=lambda S, a: {n: (lambda r: z3.And(r == a['self'].t, z3.Not(S.fld('Expression', '_is_leaf', a['self'].t)))) for n in VAL_E},
    loops={1: dict(inv=e_eval_inv, lemmas=e_eval_lemmas, real_vars=['value', 0], mods=lambda L: {})},
    local_types={'point1': 'Point', 'point2': 'Point', 3: 'Point', 4: 'Point'},
)


# ----------------------------------------------------------------------------------------- Point.eval
def same_dims(S, p):
    d = S.dd('Point', p)
    return forall_kk(lambda k1, k2: z3.Implies(
        z3.And(S.has(d, k1), S.has(d, k2), z3.Not(pval_none(S, oid(k1))), z3.Not(pval_none(S, oid(k2)))),
        vdim(pval(S, oid(k1))) == vdim(pval(S, oid(k2)))))


def p_eval_inv(L):
    s = L.args['self'].t
    d = L.H0.dd('Point', s)
    value = L.var('value', 0)
    k = fresh('kd', Key)
    return [
        ('no_missing', forall_k(lambda k: z3.Implies(L.seen[k], z3.Not(pval_none(L.H0, oid(k)))))),
        ('start', z3.Implies(L.seen == z3.K(Key, False), value.t == VZ)),
        ('dim', z3.ForAll([k], z3.Implies(z3.And(L.H0.has(d, k), z3.Not(pval_none(L.H0, oid(k))), L.seen != z3.K(Key, False)),
                                          vdim(value.t) == vdim(pval(L.H0, oid(k)))))),
        ('values_unchanged', unchanged(L, [('Point', '_value')])),
    ]


contract(
    PP + 'eval', [('self', PT)], returns=TVec,
    requires=lambda S, a: [('wf', z3.Or(S.fld('Point', '_is_leaf', a['self'].t), z3.And(wf_point(S, a['self'].t), same_dims(S, a['self'].t))))],
    raises=[('ValueError', lambda S, a: p_unsolved(S, a['self'].t))],
    ensures=lambda S0, S, a, res: [
        ('cached', z3.And(z3.Not(pval_none(S, a['self'].t)), res.t == pval(S, a['self'].t)), 'property'),
        ('leaf_value', z3.Implies(S0.fld('Point', '_is_leaf', a['self'].t), res.t == pval(S0, a['self'].t)), 'property')],
    modifies=lambda S, a: {n: (lambda r: z3.And(r == a['self'].t, z3.Not(S.fld('Point', '_is_leaf', a['self'].t)))) for n in VAL_P},
    loops={1: dict(inv=p_eval_inv, vec_vars=['value', 0], mods=lambda L: {})},
    local_types={'point': 'Point', 1: 'Point'},
)

# ------------------------------------------------------------------------------------ Constraint.eval
contract(
    CP + 'eval', [('self', CT)], returns=TReal,
    requires=lambda S, a: [('wf', z3.And(wf_expr(S, S.fld('Constraint', 'expression', a['self'].t)), pair_dims(S, S.fld('Constraint', 'expression', a['self'].t))))],
    axioms=lambda: [esum(z3.K(Key, False)) == 0],
    raises=[('ValueError', lambda S, a: e_unsolved(S, S.fld('Constraint', 'expression', a['self'].t)))],
    ensures=lambda S0, S, a, res: [
        ('cached', z3.And(z3.Not(S.fld_none('Constraint', '_value', a['self'].t)), res.t == S.fld('Constraint', '_value', a['self'].t)), 'property'),
        ('is_expression_value', res.t == evalue(S, S0.fld('Constraint', 'expression', a['self'].t)), 'property')],
    modifies=lambda S, a: dict(
        {n: (lambda r: r == a['self'].t) for n in ['f:Constraint._value', 'f:Constraint._value?none']},
        **{n: (lambda r: z3.And(r == S.fld('Constraint', 'expression', a['self'].t),
                                z3.Not(S.fld('Expression', '_is_leaf', S.fld('Constraint', 'expression', a['self'].t))))) for n in VAL_E}),
)

# a multiplier is an opaque number object handed over by the solver wrapper (class tag DualVal): eval_dual returns THE stored object
tag('DualVal')
sx.FIELD_TYPES['Constraint._dual_variable_value'] = TOpt(TRef('DualVal'))
sx.FIELD_TYPES['PSDMatrix._dual_variable_value'] = TOpt(TRef('DualVal'))

contract(
    CP + 'eval_dual', [('self', CT)], returns=TRef('DualVal'),
    raises=[('ValueError', lambda S, a: S.fld_none('Constraint', '_dual_variable_value', a['self'].t))],
    ensures=lambda S0, S, a, res: [('value', res.t == S0.fld('Constraint', '_dual_variable_value', a['self'].t))],
)

contract(
    MP + 'eval_dual', [('self', MT)], returns=TRef('DualVal'),
    raises=[('ValueError', lambda S, a: S.fld_none('PSDMatrix', '_dual_variable_value', a['self'].t))],
    ensures=lambda S0, S, a, res: [('value', res.t == S0.fld('PSDMatrix', '_dual_variable_value', a['self'].t))],
)


# ============================================================ run-time side (bounded stand-in): generators and oracles
def _solved_world(w, rng, post_solve_leaf=None):
    """give values to (most) leaves, as a solve would; optionally create a leaf after that"""
    import numpy as np
    n = len(w.leaf_points)
    for p in w.leaf_points:
        if rng.random() < 0.85:
            p._value = np.array([rng.choice([-2, -1, 0, 0.5, 1, 2]) for _ in range(n)], dtype=float)
    for e in w.leaf_exprs:
        if rng.random() < 0.85:
            e._value = float(rng.choice([-2, -1, 0, 0.5, 1, 3]))
    if post_solve_leaf is None:
        post_solve_leaf = rng.random() < 0.3
    if post_solve_leaf:
        w.late_leaf = w.Point()          # a leaf created after the values were assigned (Point.counter grows)


def gen_point_eval(w, rng):
    if rng.random() < 0.3:
        p = w.Point(is_leaf=False, decomposition_dict=w.point_dict())
        _targeted_unsolved(w, rng, p)
        return {'self': p}
    _solved_world(w, rng)
    p = w.point()
    _stale(rng, p)
    return {'self': p}


def _stale(rng, obj):
    """a composite object read after an earlier solve still carries the value computed then"""
    import numpy as np
    if not obj._is_leaf and rng.random() < 0.4:
        if hasattr(obj, 'list_of_leaf_points'):
            obj._value = np.full(max(1, type(obj).counter), 7.0)
        else:
            obj._value = 77.0


def _targeted_unsolved(w, rng, e):
    """boundary regime: every leaf has a value except one, which enters the combination with weight 0 (or a tiny weight)"""
    import numpy as np
    n = len(w.leaf_points)
    for p in w.leaf_points:
        p._value = np.array([rng.choice([-1, 0.5, 2]) for _ in range(n)], dtype=float)
    for x in w.leaf_exprs:
        x._value = float(rng.choice([-1, 0.5, 3]))
    keys = list(e.decomposition_dict)
    leafy = [k for k in keys if not (k == 1 and not hasattr(k, 'decomposition_dict'))]
    if not leafy:
        return
    k = rng.choice(leafy)
    e.decomposition_dict[k] = rng.choice([0, 0, 0.0, 1])
    victim = k[rng.randrange(2)] if isinstance(k, tuple) else k
    victim._value = None


def gen_expr_eval(w, rng):
    mode = rng.random()
    if mode < 0.35:
        e = w.Expression(is_leaf=False, decomposition_dict=w.expr_dict())
        _targeted_unsolved(w, rng, e)
        return {'self': e}
    _solved_world(w, rng, post_solve_leaf=False)
    e = w.expression()
    _stale(rng, e)
    return {'self': e}


def gen_cons_eval(w, rng):
    if rng.random() < 0.3:
        e = w.Expression(is_leaf=False, decomposition_dict=w.expr_dict())
        _targeted_unsolved(w, rng, e)
        return {'self': w.Constraint(e, rng.choice(['equality', 'inequality']))}
    _solved_world(w, rng, post_solve_leaf=False)
    c = w.Constraint(w.expression(), rng.choice(['equality', 'inequality']))
    _stale(rng, c.expression)
    if rng.random() < 0.4:
        c._value = 55.0          # value computed after an earlier solve
    if rng.random() < 0.3:
        c._dual_variable_value = float(rng.choice([0, 0.5, 2]))
    return {'self': c}


def _expr_value(e):
    import numpy as np
    tot = 0.0
    for k, wgt in e.decomposition_dict.items():
        if isinstance(k, tuple):
            tot += wgt * float(np.dot(k[0]._value, k[1]._value))
        elif k == 1 and not hasattr(k, 'decomposition_dict'):
            tot += wgt
        else:
            tot += wgt * k._value
    return tot


def oracle_expr_eval(argvals, out, pre):
    try:
        return _oracle_expr_eval(argvals, out, pre)
    except TypeError:
        return []          # an operand has no value: the exceptional clauses of the contract decide this run


def _oracle_expr_eval(argvals, out, pre):
    e = argvals['self']
    if e._is_leaf:
        return []
    want = _expr_value(e)
    if abs(out - want) > 1e-9 * (1 + abs(want)):
        return [('combination', 'eval() returned %r, the combination of the operands\' values is %r' % (out, want))]
    return []


def oracle_point_eval(argvals, out, pre):
    try:
        return _oracle_point_eval(argvals, out, pre)
    except TypeError:
        return []          # an operand has no value: the exceptional clauses of the contract decide this run


def _oracle_point_eval(argvals, out, pre):
    import numpy as np
    p = argvals['self']
    if p._is_leaf:
        return []
    terms = [wgt * k._value for k, wgt in p.decomposition_dict.items()]
    if not terms:
        return [] if not np.any(out) else [('combination', 'empty combination evaluates to a non-zero vector')]
    want = sum(terms[1:], terms[0])
    if out.shape != want.shape or np.max(np.abs(out - want)) > 1e-9:
        return [('combination', 'eval() returned %r, the combination of the operands\' values is %r' % (out, want))]
    return []


def oracle_cons_eval(argvals, out, pre):
    try:
        return _oracle_cons_eval(argvals, out, pre)
    except TypeError:
        return []          # an operand has no value: the exceptional clauses of the contract decide this run


def _oracle_cons_eval(argvals, out, pre):
    c = argvals['self']
    want = _expr_value(c.expression) if not c.expression._is_leaf else c.expression._value
    if abs(out - want) > 1e-9 * (1 + abs(want)):
        return [('is_expression_value', 'Constraint.eval() returned %r, its expression evaluates to %r' % (out, want))]
    return []


REG.by_key[EP + 'eval'].gen, REG.by_key[EP + 'eval'].runtime = gen_expr_eval, oracle_expr_eval
REG.by_key[PP + 'eval'].gen, REG.by_key[PP + 'eval'].runtime = gen_point_eval, oracle_point_eval
REG.by_key[CP + 'eval'].gen, REG.by_key[CP + 'eval'].runtime = gen_cons_eval, oracle_cons_eval
REG.by_key[CP + 'eval_dual'].gen = gen_cons_eval


def gen_psd_dual(w, rng):
    import numpy as np
    from PEPit.psd_matrix import PSDMatrix
    n = rng.choice([1, 2])
    m = PSDMatrix([[w.expression() for _ in range(n)] for _ in range(n)])
    if rng.random() < 0.5:
        m._dual_variable_value = np.eye(n)
    return {'self': m}


REG.by_key[MP + 'eval_dual'].gen = gen_psd_dual
