"""MOSEK Optimizer API as ASSUMED external contracts (class tag MosekTask), and the contracts of MosekWrapper proved against them
(C11: the rows the MOSEK wrapper emits denote the same affine functions as the cvxpy wrapper's; C05: sparse data, senses).

MOSEK is absent: these API contracts are written from the documented meaning of each call as the wrapper uses it, and are the top
assumption of C11.  Ghost state of a task t (arrays indexed by the task id, then by row / variable index):
    numcon, numvar, numbarvar, bardim[j]
    rowA[i]   symmetric matrix (SymMat id, -1 = none) paired with bar-variable 0 in row i        (putbaraij(i, 0, ..))
    rowB[i]   symmetric matrix paired with bar-variable rowBvar[i] != 0 in row i, -1 = none      (putbaraij(i, j, ..), j > 0)
    rowa[i]   linear coefficients of row i (col -> real)                                         (putaijlist)
    bk[i], bl[i], bu[i]  bound key (1 = up, 2 = fx, 3 = fr, 4 = lo) and bounds of row i            (putconbound)
A SymMat is the symmetric matrix given by lower-triangular triplets (subi[t], subj[t], val[t]), t < n (appendsparsesymmat):
documented preconditions  subj[t] <= subi[t] < dim  and  no position given twice.
"""
import z3
from .common import *          # noqa
from pyvc.symex import TArr1, TArr1i, TArr2
from pyvc import cvxmodel as cm      # (array-valued field sorts)
from .translations import tr_requires, sparse_facts
from .wrappers import tracked_ok, appended_list

for _c in ('MosekTask', 'SymMat'):
    tag(_c)
declare_subclass('MosekWrapper', 'Wrapper')

BK = {'up': 1, 'fx': 2, 'fr': 3, 'lo': 4}
TEnum = sx.T('enum')

_old_sort = sx.smt_sort


def _sort(t):
    if t.k == 'arr1i':
        return IA_I
    if t.k == 'enum':
        return I
    return _old_sort(t)


sx.smt_sort = _sort
cm.smt_sort = _sort

sx.FIELD_TYPES.update({
    'MosekWrapper.task': TRef('MosekTask'), 'MosekWrapper._constraint_index_in_mosek': TList(TInt),
    'MosekWrapper._nb_pep_constraints_in_mosek': TInt, 'MosekWrapper._nb_pep_SDPconstraints_in_mosek': TInt,
    'MosekTask.numcon': TInt, 'MosekTask.numvar': TInt, 'MosekTask.numbarvar': TInt,
    'SymMat.dim': TInt, 'SymMat.n': TInt, 'SymMat.subi': TArr1i, 'SymMat.subj': TArr1i, 'SymMat.val': TArr1,
})
AI = z3.ArraySort(I, IA_I)
AR = z3.ArraySort(I, IA_R)
sx.BASE_ARRAYS.update({'mk:rowA': AI, 'mk:rowB': AI, 'mk:rowBvar': AI, 'mk:bk': AI, 'mk:bardim': AI, 'mk:bl': AR, 'mk:bu': AR,
                       'mk:rowa': z3.ArraySort(I, z3.ArraySort(I, IA_R))})
sx.BASE_ARRAYS.update({'mk:vbk': AI, 'mk:c': AR})
sx.FIELD_TYPES.update({'MosekTask.objsense': TInt, 'MosekWrapper.objective': TRef('Expression')})
MK = ['mk:rowA', 'mk:rowB', 'mk:rowBvar', 'mk:bk', 'mk:bardim', 'mk:bl', 'mk:bu', 'mk:rowa']
ROWS = [nm for nm in MK if nm != 'mk:bardim']      # per-row state
OBJ = {'maximize': 11, 'minimize': 12}
MT_ = 'mosek::MosekTask.'
TT = TRef('MosekTask')


def tf(S, name, t): return S.fld('MosekTask', name, t)
def sm(S, name, m): return S.A('f:SymMat.' + name)[m]
def only_task(t): return lambda r: r == t


def seq(S, v):
    """(array, length) of an index / value sequence given as a numpy array or as a python list"""
    if v.ty.k in ('arr1', 'arr1i'):
        return v.t, v.items[0]
    if v.ty.k == 'list':
        return (S.A('eltR')[v.t] if v.ty.a[0].k == 'real' else S.A('eltI')[v.t]), S.len(v.t)
    raise sx.OutOfSubset('sequence argument of type %r' % (v.ty,))


def api(name, params, **kw):
    kw.setdefault('assumed', True)
    return contract(MT_ + name, [('self', TT)] + params, **kw)


api('getnumcon', [], returns=TInt, pure=True, ensures=lambda S0, S, a, res: [('numcon', res.t == tf(S0, 'numcon', a['self'].t))])
api('getmaxnumvar', [], returns=TInt, pure=True, ensures=lambda S0, S, a, res: [('numvar', res.t == tf(S0, 'numvar', a['self'].t))])


def appendcons_ens(S0, S, a, res):
    t, n = a['self'].t, a['num'].t
    r = fresh('r', I)
    old = tf(S0, 'numcon', t)
    return [('numcon', tf(S, 'numcon', t) == old + n),
            ('new_rows_are_empty', z3.ForAll([r], z3.Implies(z3.And(r >= old, r < old + n), z3.And(
                S.A('mk:rowA')[t][r] == -1, S.A('mk:rowB')[t][r] == -1, S.A('mk:rowa')[t][r] == z3.K(I, z3.RealVal(0)), S.A('mk:bk')[t][r] == BK['fr'])))),
            ('old_rows_kept', z3.ForAll([r], z3.Implies(z3.And(r >= 0, r < old), z3.And(*[S.A(nm)[t][r] == S0.A(nm)[t][r] for nm in MK if nm != 'mk:bardim'])))),
            ('bar_variables_kept', S.A('mk:bardim')[t] == S0.A('mk:bardim')[t])]


api('appendcons', [('num', TInt)], returns=TNone, allocates=False, requires=lambda S, a: [('num', a['num'].t >= 0)], ensures=appendcons_ens,
    modifies=lambda S, a: dict({nm: only_task(a['self'].t) for nm in MK}, **{'f:MosekTask.numcon': only_task(a['self'].t)}))


def symmat_requires(S, a):
    si, n = seq(S, a['subi'])
    sj, n2 = seq(S, a['subj'])
    sv, n3 = seq(S, a['valij'])
    t, u = fresh('t', I), fresh('u', I)
    return [('same_lengths', z3.And(n == n2, n == n3)),
            ('lower_triangular', z3.ForAll([t], z3.Implies(z3.And(t >= 0, t < n), z3.And(sj[t] >= 0, sj[t] <= si[t], si[t] < a['dim'].t)))),
            ('no_duplicate_position', z3.ForAll([t, u], z3.Implies(z3.And(t >= 0, t < n, u >= 0, u < n, si[t] == si[u], sj[t] == sj[u]), t == u)))]


def symmat_ens(S0, S, a, res):
    si, n = seq(S0, a['subi'])
    sj, _ = seq(S0, a['subj'])
    sv, _ = seq(S0, a['valij'])
    m = res.t
    t = fresh('t', I)
    return [('fresh', z3.And(m >= S0.alloc, m < S.alloc, S.cls(m) == tag('SymMat'), S.alloc == S0.alloc + 1)),
            # (ghost representation: the triplet arrays as given; positions >= n are never read)
            ('content', z3.And(sm(S, 'dim', m) == a['dim'].t, sm(S, 'n', m) == n, sm(S, 'subi', m) == si, sm(S, 'subj', m) == sj, sm(S, 'val', m) == sv))]


SEQ_I = {'subi': [TList(TInt)], 'subj': [TList(TInt)], 'valij': [TList(TReal)]}
api('appendsparsesymmat', [('dim', TInt), ('subi', TArr1i), ('subj', TArr1i), ('valij', TArr1)], variants=SEQ_I, returns=TInt,
    requires=symmat_requires, ensures=symmat_ens,
    touches=lambda S, a: ['cls', 'f:SymMat.dim', 'f:SymMat.n', 'f:SymMat.subi', 'f:SymMat.subj', 'f:SymMat.val'],
    array_sorts={'f:SymMat.subi': z3.ArraySort(I, IA_I), 'f:SymMat.subj': z3.ArraySort(I, IA_I), 'f:SymMat.val': z3.ArraySort(I, IA_R)})


def putbaraij_requires(S, a):
    t = a['self'].t
    sub, w = a['sub'], a['weights']
    m = S.elt(sub.t, 0)
    return [('row', z3.And(a['i'].t >= 0, a['i'].t < tf(S, 'numcon', t))), ('bar_variable_exists', z3.And(a['j'].t >= 0, a['j'].t < tf(S, 'numbarvar', t))),
            ('one_matrix_weight_one', z3.And(S.len(sub.t) == 1, S.len(w.t) == 1, S.eltr(w.t, 0) == 1)),
            ('dimension_matches', sm(S, 'dim', m) == S.A('mk:bardim')[t][a['j'].t])]


def putbaraij_ens(S0, S, a, res):
    t, i, j = a['self'].t, a['i'].t, a['j'].t
    m = S0.elt(a['sub'].t, 0)
    A0, B0, V0 = S0.A('mk:rowA')[t], S0.A('mk:rowB')[t], S0.A('mk:rowBvar')[t]
    return [('gram_coupling', S.A('mk:rowA')[t] == z3.If(j == 0, z3.Store(A0, i, m), A0)),
            ('other_coupling', z3.And(S.A('mk:rowB')[t] == z3.If(j == 0, B0, z3.Store(B0, i, m)), S.A('mk:rowBvar')[t] == z3.If(j == 0, V0, z3.Store(V0, i, j))))]


api('putbaraij', [('i', TInt), ('j', TInt), ('sub', TList(TInt)), ('weights', TList(TReal))], returns=TNone, allocates=False,
    requires=putbaraij_requires, ensures=putbaraij_ens,
    modifies=lambda S, a: {nm: only_task(a['self'].t) for nm in ('mk:rowA', 'mk:rowB', 'mk:rowBvar')})


def putaijlist_ens(S0, S, a, res):
    tk = a['self'].t
    si, n = seq(S0, a['subi'])
    sj, _ = seq(S0, a['subj'])
    sv, _ = seq(S0, a['valij'])
    t, r, c = fresh('t', I), fresh('r', I), fresh('c', I)
    new, old = S.A('mk:rowa')[tk], S0.A('mk:rowa')[tk]
    return [('entries_set', z3.ForAll([t], z3.Implies(z3.And(t >= 0, t < n), new[si[t]][sj[t]] == sv[t]))),
            ('others_kept', z3.ForAll([r, c], z3.Implies(z3.Not(z3.Exists([t], z3.And(t >= 0, t < n, si[t] == r, sj[t] == c))), new[r][c] == old[r][c])))]


api('putaijlist', [('subi', TArr1i), ('subj', TArr1i), ('valij', TArr1)], returns=TNone, allocates=False,
    requires=lambda S, a: (lambda si, sj, sv, t, u: [('same_lengths', z3.And(si[1] == sj[1], si[1] == sv[1])),
                                                 ('in_range', z3.ForAll([t], z3.Implies(z3.And(t >= 0, t < si[1]), z3.And(
                                                     si[0][t] >= 0, si[0][t] < tf(S, 'numcon', a['self'].t), sj[0][t] >= 0, sj[0][t] < tf(S, 'numvar', a['self'].t))))),
                                                 # MOSEK's behaviour on a position given twice is not relied upon
                                                 ('no_duplicate_position', z3.ForAll([t, u], z3.Implies(z3.And(t >= 0, t < si[1], u >= 0, u < si[1], si[0][t] == si[0][u],
                                                                                                              sj[0][t] == sj[0][u]), t == u)))])(
        seq(S, a['subi']), seq(S, a['subj']), seq(S, a['valij']), fresh('t', I), fresh('u', I)),
    ensures=putaijlist_ens, modifies=lambda S, a: {'mk:rowa': only_task(a['self'].t)})


def putconbound_ens(S0, S, a, res):
    t, i = a['self'].t, a['i'].t
    return [('bound', z3.And(S.A('mk:bk')[t] == z3.Store(S0.A('mk:bk')[t], i, a['bkc'].t), S.A('mk:bl')[t] == z3.Store(S0.A('mk:bl')[t], i, a['blc'].t),
                             S.A('mk:bu')[t] == z3.Store(S0.A('mk:bu')[t], i, a['buc'].t)))]


api('putconbound', [('i', TInt), ('bkc', TEnum), ('blc', Scalar), ('buc', Scalar)], returns=TNone, allocates=False,
    requires=lambda S, a: [('row', z3.And(a['i'].t >= 0, a['i'].t < tf(S, 'numcon', a['self'].t)))], ensures=putconbound_ens,
    modifies=lambda S, a: {nm: only_task(a['self'].t) for nm in ('mk:bk', 'mk:bl', 'mk:bu')})



def appendbarvars_ens(S0, S, a, res):
    t = a['self'].t
    old = tf(S0, 'numbarvar', t)
    return [('one_more_bar_variable', z3.And(tf(S, 'numbarvar', t) == old + 1,
                                            S.A('mk:bardim')[t] == z3.Store(S0.A('mk:bardim')[t], old, S0.elt(a['dim'].t, 0))))]


api('appendbarvars', [('dim', TList(TInt))], returns=TNone, allocates=False,
    requires=lambda S, a: [('one_dimension', z3.And(S.len(a['dim'].t) == 1, S.elt(a['dim'].t, 0) >= 0))], ensures=appendbarvars_ens,
    modifies=lambda S, a: {'mk:bardim': only_task(a['self'].t), 'f:MosekTask.numbarvar': only_task(a['self'].t)})


def appendvars_ens(S0, S, a, res):
    t, n = a['self'].t, a['num'].t
    old = tf(S0, 'numvar', t)
    k = fresh('k', I)
    return [('numvar', tf(S, 'numvar', t) == old + n),
            # documented: appended variables are fixed at zero and have zero objective coefficient
            ('new_variables_fixed', z3.ForAll([k], z3.Implies(z3.And(k >= old, k < old + n), z3.And(S.A('mk:vbk')[t][k] == BK['fx'], S.A('mk:c')[t][k] == 0)))),
            ('old_variables_kept', z3.ForAll([k], z3.Implies(z3.And(k >= 0, k < old), z3.And(S.A('mk:vbk')[t][k] == S0.A('mk:vbk')[t][k], S.A('mk:c')[t][k] == S0.A('mk:c')[t][k]))))]


api('appendvars', [('num', TInt)], returns=TNone, allocates=False, requires=lambda S, a: [('num', a['num'].t >= 0)], ensures=appendvars_ens,
    modifies=lambda S, a: {'mk:vbk': only_task(a['self'].t), 'mk:c': only_task(a['self'].t), 'f:MosekTask.numvar': only_task(a['self'].t)})

api('putvarbound', [('j', TInt), ('bkx', TEnum), ('blx', Scalar), ('bux', Scalar)], returns=TNone, allocates=False,
    requires=lambda S, a: [('variable', z3.And(a['j'].t >= 0, a['j'].t < tf(S, 'numvar', a['self'].t)))],
    ensures=lambda S0, S, a, res: [('bound', S.A('mk:vbk')[a['self'].t] == z3.Store(S0.A('mk:vbk')[a['self'].t], a['j'].t, a['bkx'].t))],
    modifies=lambda S, a: {'mk:vbk': only_task(a['self'].t)})


def putclist_ens(S0, S, a, res):
    tk = a['self'].t
    sj, n = seq(S0, a['subj'])
    sv, _ = seq(S0, a['val'])
    t, c = fresh('t', I), fresh('c', I)
    new, old = S.A('mk:c')[tk], S0.A('mk:c')[tk]
    return [('entries_set', z3.ForAll([t], z3.Implies(z3.And(t >= 0, t < n), new[sj[t]] == sv[t]))),
            ('others_kept', z3.ForAll([c], z3.Implies(z3.Not(z3.Exists([t], z3.And(t >= 0, t < n, sj[t] == c))), new[c] == old[c])))]


api('putclist', [('subj', TArr1i), ('val', TArr1)], variants={'subj': [TList(TInt)], 'val': [TList(TReal)]}, returns=TNone, allocates=False,
    requires=lambda S, a: (lambda sj, sv, t, u: [('same_lengths', sj[1] == sv[1]),
                                                 ('in_range', z3.ForAll([t], z3.Implies(z3.And(t >= 0, t < sj[1]), z3.And(sj[0][t] >= 0, sj[0][t] < tf(S, 'numvar', a['self'].t))))),
                                                 ('no_duplicate_index', z3.ForAll([t, u], z3.Implies(z3.And(t >= 0, t < sj[1], u >= 0, u < sj[1], sj[0][t] == sj[0][u]), t == u)))])(
        seq(S, a['subj']), seq(S, a['val']), fresh('t', I), fresh('u', I)),
    ensures=putclist_ens, modifies=lambda S, a: {'mk:c': only_task(a['self'].t)})

api('putobjsense', [('sense', TEnum)], returns=TNone, allocates=False,
    ensures=lambda S0, S, a, res: [('sense', tf(S, 'objsense', a['self'].t) == a['sense'].t)],
    modifies=lambda S, a: {'f:MosekTask.objsense': only_task(a['self'].t)})
api('solutionsummary', [('whichstream', TEnum)], returns=TNone, pure=True, ensures=lambda S0, S, a, res: [])

# ======================================================================================================================
# MosekWrapper.send_constraint_to_solver
MW = 'PEPit/wrappers/mosek_wrapper.py::MosekWrapper.'
MWT, CT, ET = TRef('MosekWrapper'), TRef('Constraint'), TRef('Expression')
SENSE_EQ, SENSE_INEQ = sx.str_code('equality'), sx.str_code('inequality')


def msend_requires(S, a):
    w, c = a['self'].t, a['constraint'].t
    e = S.fld('Constraint', 'expression', c)
    tk = S.fld('MosekWrapper', 'task', w)
    T = S.fld('Wrapper', '_list_of_constraints_sent_to_solver', w)
    Ix = S.fld('MosekWrapper', '_constraint_index_in_mosek', w)
    regs = [S.g('Point.list_of_leaf_points'), S.g('Expression.list_of_leaf_expressions')]
    return tr_requires(S, {'expression': sx.V(ET, e)}) + [
        ('task', z3.And(tf(S, 'numcon', tk) >= 0, tf(S, 'numbarvar', tk) >= 1, S.A('mk:bardim')[tk][0] == S.g('Point.counter'),
                        tf(S, 'numvar', tk) == S.g('Expression.counter') + 1)),
        ('lists_distinct', z3.And(T != Ix, *[z3.And(T != r, Ix != r) for r in regs]))]


def msend_ens(S0, S, a, res):
    w, c = a['self'].t, a['constraint'].t
    e = S0.fld('Constraint', 'expression', c)
    tk = S0.fld('MosekWrapper', 'task', w)
    T = S0.fld('Wrapper', '_list_of_constraints_sent_to_solver', w)
    Ix = S0.fld('MosekWrapper', '_constraint_index_in_mosek', w)
    r = tf(S0, 'numcon', tk)
    A = S.A('mk:rowA')[tk][r]
    row = S.A('mk:rowa')[tk][r]
    sense = S0.fld('Constraint', 'equality_or_inequality', c)
    d = S0.dd('Expression', e)
    alpha = S0.val0(d, One)
    col, r0 = fresh('col', I), fresh('r0', I)
    NE = S0.g('Expression.counter')
    facts = sparse_facts(S0, e, S0.dom(d), z3.IntVal(0), z3.K(I, z3.IntVal(0)), z3.K(I, z3.RealVal(0)), sm(S, 'n', A), sm(S, 'subi', A), sm(S, 'subj', A), sm(S, 'val', A), alpha)
    gfacts = [(lab, f) for lab, f in facts if lab.startswith('G.')]
    track = a['track'].t
    return [('one_new_row', tf(S, 'numcon', tk) == r + 1, 'property'),
            ('gram_part', z3.And(A >= S0.alloc, S.cls(A) == tag('SymMat'), sm(S, 'dim', A) == S0.g('Point.counter'), sm(S, 'n', A) >= 0, S.A('mk:rowB')[tk][r] == -1,
                                 *[f for _, f in gfacts]), 'property'),
            ('earlier_rows_and_variables_untouched', z3.And(
                z3.ForAll([r0], z3.Implies(z3.And(r0 >= 0, r0 < r), z3.And(*[S.A(nm)[tk][r0] == S0.A(nm)[tk][r0] for nm in ROWS]))),
                S.A('mk:bardim')[tk] == S0.A('mk:bardim')[tk], S.A('mk:vbk')[tk] == S0.A('mk:vbk')[tk], S.A('mk:c')[tk] == S0.A('mk:c')[tk],
                tf(S, 'numvar', tk) == tf(S0, 'numvar', tk), tf(S, 'numbarvar', tk) == tf(S0, 'numbarvar', tk), tf(S, 'objsense', tk) == tf(S0, 'objsense', tk)), 'property'),
            ('linear_part', z3.ForAll([col], z3.Implies(z3.And(col >= 0, col < NE), row[col] == S0.val0(d, leafE(S0, col)))), 'property'),
            ('objective_column_unused', row[NE] == 0, 'aux'),
            ('sense_and_constant', z3.If(sense == SENSE_INEQ,
                                         z3.And(S.A('mk:bk')[tk][r] == BK['up'], S.A('mk:bu')[tk][r] == -alpha),
                                         z3.And(S.A('mk:bk')[tk][r] == BK['fx'], S.A('mk:bl')[tk][r] == -alpha, S.A('mk:bu')[tk][r] == -alpha)), 'property'),
            ('tracked_with_its_row', z3.If(track, z3.And(appended_list(S0, S, T, c), appended_list(S0, S, Ix, r),
                                                         S.fld('MosekWrapper', '_nb_pep_constraints_in_mosek', w) == S0.fld('MosekWrapper', '_nb_pep_constraints_in_mosek', w) + 1),
                                           z3.And(S.len(T) == S0.len(T), S.len(Ix) == S0.len(Ix), S.A('eltI')[T] == S0.A('eltI')[T], S.A('eltI')[Ix] == S0.A('eltI')[Ix],
                                                  S.fld('MosekWrapper', '_nb_pep_constraints_in_mosek', w) == S0.fld('MosekWrapper', '_nb_pep_constraints_in_mosek', w))), 'property')]


contract(
    MW + 'send_constraint_to_solver', [('self', MWT), ('constraint', CT), ('track', TBool)], returns=TNone,
    defaults={'track': lambda: sx.vbool(True)},
    requires=msend_requires, ensures=msend_ens,
    raises=[('ValueError', lambda S, a: z3.And(S.fld('Constraint', 'equality_or_inequality', a['constraint'].t) != SENSE_EQ,
                                               S.fld('Constraint', 'equality_or_inequality', a['constraint'].t) != SENSE_INEQ))],
    modifies=lambda S, a: (lambda T, Ix, tk: dict({'len': lambda r: z3.Or(r == T, r == Ix), 'eltI': lambda r: z3.Or(r == T, r == Ix),
                                                   'f:MosekWrapper._nb_pep_constraints_in_mosek': lambda r: r == a['self'].t,
                                                   'f:MosekTask.numcon': lambda r: r == tk}, **{nm: (lambda r: r == tk) for nm in MK}))(
        S.fld('Wrapper', '_list_of_constraints_sent_to_solver', a['self'].t), S.fld('MosekWrapper', '_constraint_index_in_mosek', a['self'].t),
        S.fld('MosekWrapper', 'task', a['self'].t)),
    touches=lambda S, a: ['len', 'eltI', 'cls', 'f:MosekWrapper._nb_pep_constraints_in_mosek', 'f:MosekTask.numcon', 'f:SymMat.dim', 'f:SymMat.n',
                          'f:SymMat.subi', 'f:SymMat.subj', 'f:SymMat.val'] + MK,
    array_sorts={'f:SymMat.subi': z3.ArraySort(I, IA_I), 'f:SymMat.subj': z3.ArraySort(I, IA_I), 'f:SymMat.val': z3.ArraySort(I, IA_R)},
)
REG.by_key[MW + 'send_constraint_to_solver'].no_runtime = 'needs MOSEK; covered by the bounded differential check on the MOSEK stand-in (C11)'


# ======================================================================================================================
# MosekWrapper.set_main_variables: on a fresh task, establishes the `task` precondition of send_constraint_to_solver
def task_ready(S, tk):
    """bar-variable 0 is the Gram matrix (dimension Point.counter); one scalar variable per leaf expression plus one spare"""
    return z3.And(tf(S, 'numbarvar', tk) >= 1, S.A('mk:bardim')[tk][0] == S.g('Point.counter'), tf(S, 'numvar', tk) == S.g('Expression.counter') + 1)


def mvars_ens(S0, S, a, res):
    w = a['self'].t
    tk = S0.fld('MosekWrapper', 'task', w)
    k = fresh('k', I)
    NE = S0.g('Expression.counter')
    return [('gram_and_function_value_variables', z3.And(tf(S, 'numbarvar', tk) == 1, task_ready(S, tk)), 'property'),
            ('function_values_are_free', z3.ForAll([k], z3.Implies(z3.And(k >= 0, k < NE), S.A('mk:vbk')[tk][k] == BK['fr'])), 'property'),
            ('no_objective_yet', z3.ForAll([k], z3.Implies(z3.And(k >= 0, k <= NE), S.A('mk:c')[tk][k] == 0)), 'aux'),
            ('psd_count', S.fld('MosekWrapper', '_nb_pep_SDPconstraints_in_mosek', w) == S0.fld('MosekWrapper', '_nb_pep_SDPconstraints_in_mosek', w) + 1, 'aux'),
            ('no_rows', tf(S, 'numcon', tk) == tf(S0, 'numcon', tk), 'aux')]


def mvars_inv(L):
    tk = L.H0.fld('MosekWrapper', 'task', L.args['self'].t)
    k = fresh('k', I)
    NE = L.H0.g('Expression.counter')
    return [('vars', z3.And(tf(L.H, 'numvar', tk) == NE + 1, tf(L.H, 'numbarvar', tk) == 1, L.H.A('mk:bardim')[tk][0] == L.H0.g('Point.counter'))),
            ('free', z3.ForAll([k], z3.Implies(z3.And(k >= 0, k < L.i), L.H.A('mk:vbk')[tk][k] == BK['fr']))),
            ('c', z3.ForAll([k], z3.Implies(z3.And(k >= 0, k <= NE), L.H.A('mk:c')[tk][k] == 0)))]


contract(
    MW + 'set_main_variables', [('self', MWT)], returns=TNone,
    requires=lambda S, a: (lambda tk: [('fresh_task', z3.And(tf(S, 'numvar', tk) == 0, tf(S, 'numbarvar', tk) == 0, tf(S, 'numcon', tk) >= 0)),
                                       ('counters', z3.And(S.g('Point.counter') >= 0, S.g('Expression.counter') >= 0))])(S.fld('MosekWrapper', 'task', a['self'].t)),
    ensures=mvars_ens, raises=[],
    modifies=lambda S, a: (lambda tk: {'mk:bardim': only_task(tk), 'mk:vbk': only_task(tk), 'mk:c': only_task(tk), 'f:MosekTask.numvar': only_task(tk),
                                       'f:MosekTask.numbarvar': only_task(tk), 'f:MosekWrapper._nb_pep_SDPconstraints_in_mosek': lambda r: r == a['self'].t})(
        S.fld('MosekWrapper', 'task', a['self'].t)),
    loops={1: dict(inv=mvars_inv, mods=lambda L: {'mk:vbk': only_task(L.H0.fld('MosekWrapper', 'task', L.args['self'].t))})},
)
REG.by_key[MW + 'set_main_variables'].no_runtime = 'needs MOSEK; covered by the bounded differential check on the MOSEK stand-in (C11)'


# ======================================================================================================================
# MosekWrapper.generate_problem: maximise the objective expression's linear part (the PEP objective is the leaf tau)
def mgen_ens(S0, S, a, res):
    w, e = a['self'].t, a['objective'].t
    tk = S0.fld('MosekWrapper', 'task', w)
    d = S0.dd('Expression', e)
    col = fresh('col', I)
    NE = S0.g('Expression.counter')
    return [('maximise', tf(S, 'objsense', tk) == OBJ['maximize'], 'property'),
            ('objective_coefficients', z3.ForAll([col], z3.Implies(z3.And(col >= 0, col < NE), S.A('mk:c')[tk][col] == z3.If(
                S0.has(d, leafE(S0, col)), S0.get(d, leafE(S0, col)), S0.A('mk:c')[tk][col]))), 'property'),
            ('spare_column_kept', S.A('mk:c')[tk][NE] == S0.A('mk:c')[tk][NE], 'aux'),
            ('remembered', z3.And(S.fld('MosekWrapper', 'objective', w) == e, res.t == tk), 'property')]


contract(
    MW + 'generate_problem', [('self', MWT), ('objective', ET)], returns=TT,
    requires=lambda S, a: tr_requires(S, {'expression': a['objective']}),
    ensures=mgen_ens,
    raises=[('AssertionError', lambda S, a: tf(S, 'numvar', S.fld('MosekWrapper', 'task', a['self'].t)) != S.g('Expression.counter') + 1)],
    modifies=lambda S, a: (lambda tk: {'mk:c': only_task(tk), 'f:MosekTask.objsense': only_task(tk), 'f:MosekWrapper.objective': lambda r: r == a['self'].t})(
        S.fld('MosekWrapper', 'task', a['self'].t)),
)
REG.by_key[MW + 'generate_problem'].no_runtime = 'needs MOSEK; covered by the bounded differential check on the MOSEK stand-in (C11)'


# ======================================================================================================================
# MosekWrapper.prepare_heuristic: minimise (objective cleared), one untracked row  objective >= wc_value - tol  (absolute tolerance)
def mph_requires(S, a):
    w = a['self'].t
    o = S.fld('MosekWrapper', 'objective', w)
    tk = S.fld('MosekWrapper', 'task', w)
    T = S.fld('Wrapper', '_list_of_constraints_sent_to_solver', w)
    Ix = S.fld('MosekWrapper', '_constraint_index_in_mosek', w)
    regs = [S.g('Point.list_of_leaf_points'), S.g('Expression.list_of_leaf_expressions')]
    return tr_requires(S, {'expression': sx.V(ET, o)}) + [
        ('objective_is_a_leaf', z3.And(o >= 0, o < S.alloc, S.cls(o) == tag('Expression'), S.fld('Expression', '_is_leaf', o), z3.Not(S.fld_none('Expression', 'counter', o)),
                                       S.fld('Expression', 'counter', o) >= 0, S.fld('Expression', 'counter', o) < S.g('Expression.counter'))),
        ('task', z3.And(tf(S, 'numcon', tk) >= 0, task_ready(S, tk))),
        ('lists_distinct', z3.And(T != Ix, *[z3.And(T != r, Ix != r) for r in regs]))]


def mph_ens(S0, S, a, res):
    w = a['self'].t
    o = S0.fld('MosekWrapper', 'objective', w)
    tk = S0.fld('MosekWrapper', 'task', w)
    T = S0.fld('Wrapper', '_list_of_constraints_sent_to_solver', w)
    Ix = S0.fld('MosekWrapper', '_constraint_index_in_mosek', w)
    r = tf(S0, 'numcon', tk)
    oc = S0.fld('Expression', 'counter', o)
    col, r0 = fresh('col', I), fresh('r0', I)
    NE = S0.g('Expression.counter')
    A = S.A('mk:rowA')[tk][r]
    bound = scalar_term(a['wc_value']) - scalar_term(a['tol_dimension_reduction'])
    return [('minimise_nothing_yet', z3.And(tf(S, 'objsense', tk) == OBJ['minimize'],
                                            z3.ForAll([col], S.A('mk:c')[tk][col] == z3.If(col == oc, z3.RealVal(0), S0.A('mk:c')[tk][col]))), 'property'),
            ('one_new_row', tf(S, 'numcon', tk) == r + 1, 'property'),
            # row:  -objective + (wc - tol) <= 0
            ('row.linear_part_is_minus_objective', z3.ForAll([col], z3.Implies(z3.And(col >= 0, col < NE), S.A('mk:rowa')[tk][r][col] == z3.If(col == oc, z3.RealVal(-1), z3.RealVal(0)))),
             'property'),
            ('row.upper_bound_is_tolerance_minus_optimum', z3.And(S.A('mk:bk')[tk][r] == BK['up'], S.A('mk:bu')[tk][r] == -bound), 'property'),
            # (the comparison's contract fixes coefficients, not which zero entries are stored: the Gram part is a zero matrix)
            ('row.zero_gram_part', z3.And(A >= S0.alloc, S.cls(A) == tag('SymMat'), S.A('mk:rowB')[tk][r] == -1,
                                          z3.ForAll([col], z3.Implies(z3.And(col >= 0, col < sm(S, 'n', A)), sm(S, 'val', A)[col] == 0))), 'property'),
            ('untracked', z3.And(S.len(T) == S0.len(T), S.A('eltI')[T] == S0.A('eltI')[T], S.len(Ix) == S0.len(Ix), S.A('eltI')[Ix] == S0.A('eltI')[Ix]), 'property'),
            ('earlier_rows_untouched', z3.ForAll([r0], z3.Implies(z3.And(r0 >= 0, r0 < r), z3.And(*[S.A(nm)[tk][r0] == S0.A(nm)[tk][r0] for nm in ROWS]))), 'property')]


contract(
    MW + 'prepare_heuristic', [('self', MWT), ('wc_value', Scalar), ('tol_dimension_reduction', Scalar)], returns=TNone,
    requires=mph_requires, ensures=mph_ens, raises=[],
    modifies=lambda S, a: (lambda tk: dict({'mk:c': only_task(tk), 'f:MosekTask.objsense': only_task(tk), 'f:MosekTask.numcon': only_task(tk)},
                                           **{nm: only_task(tk) for nm in MK}))(S.fld('MosekWrapper', 'task', a['self'].t)),
    touches=lambda S, a: sorted(set(['len', 'eltI', 'cls', 'dom', 'valR', 'f:MosekTask.numcon', 'f:MosekTask.objsense', 'mk:c', 'f:SymMat.dim', 'f:SymMat.n',
                                     'f:SymMat.subi', 'f:SymMat.subj', 'f:SymMat.val', 'f:Constraint.expression', 'f:Constraint.equality_or_inequality'] + MK)),
    mod_globals=['Constraint.counter'],
    array_sorts={'f:SymMat.subi': z3.ArraySort(I, IA_I), 'f:SymMat.subj': z3.ArraySort(I, IA_I), 'f:SymMat.val': z3.ArraySort(I, IA_R)},
)
REG.by_key[MW + 'prepare_heuristic'].no_runtime = 'needs MOSEK; covered by the bounded differential check on the MOSEK stand-in (C11)'


# ======================================================================================================================
# MosekWrapper.send_lmi_constraint_to_solver: one new bar-variable Z (size n), and for each entry (i, j) one equality row
#     <A(e_ij), G> + a(e_ij) . F - <E_ij, Z> = -alpha(e_ij)          E_ij = unit matrix at (max, min), weight -1 on the diagonal, -1/2 off it
# ridx(n1, i, j): index of cell (i, j) in row-major order (spec function defined by recursion; its closed form i*n1 + j is not needed)
from .wrappers import mentry, sh0, sh1, entries_ok
ridx = z3.Function('ridx', I, I, I, I)
MT = TRef('PSDMatrix')


def ridx_defs(n1, n0):
    i, j = fresh('i', I), fresh('j', I)
    return [ridx(n1, 0, 0) == 0,
            z3.ForAll([i, j], z3.Implies(z3.And(i >= 0, i < n0, j >= 0, j < n1), ridx(n1, i, j + 1) == ridx(n1, i, j) + 1), patterns=[ridx(n1, i, j + 1)]),
            z3.ForAll([i], z3.Implies(z3.And(i >= 0, i < n0), ridx(n1, i + 1, 0) == ridx(n1, i, n1)), patterns=[ridx(n1, i + 1, 0)])]


def lmi_row_parts(S0, H, tk, r, e, i, j, zvar, size):
    """row r of the task couples entry (i, j) of the new bar-variable with the expression e (as separately provable parts)"""
    A, Bm = H.A('mk:rowA')[tk][r], H.A('mk:rowB')[tk][r]
    row = H.A('mk:rowa')[tk][r]
    d = S0.dd('Expression', e)
    alpha = S0.val0(d, One)
    col = fresh('col', I)
    NE = S0.g('Expression.counter')
    facts = sparse_facts(S0, e, S0.dom(d), z3.IntVal(0), z3.K(I, z3.IntVal(0)), z3.K(I, z3.RealVal(0)), sm(H, 'n', A), sm(H, 'subi', A), sm(H, 'subj', A), sm(H, 'val', A), alpha)
    g = {lab: f for lab, f in facts if lab.startswith('G.')}
    return {
        'gram.matrix': z3.And(A >= S0.alloc, A < H.alloc, H.cls(A) == tag('SymMat'), sm(H, 'dim', A) == S0.g('Point.counter'), sm(H, 'n', A) >= 0),
        'gram.entries': g['G.entries'], 'gram.nodup': g['G.nodup'], 'gram.complete': g['G.complete'],
        'psd_entry': z3.And(Bm >= S0.alloc, Bm < H.alloc, H.cls(Bm) == tag('SymMat'), sm(H, 'dim', Bm) == size, sm(H, 'n', Bm) == 1,
                            sm(H, 'subi', Bm)[0] == z3.If(i >= j, i, j), sm(H, 'subj', Bm)[0] == z3.If(i >= j, j, i),
                            sm(H, 'val', Bm)[0] == z3.If(i == j, z3.RealVal(-1), z3.RealVal(-1) / 2), H.A('mk:rowBvar')[tk][r] == zvar),
        'linear': z3.And(z3.ForAll([col], z3.Implies(z3.And(col >= 0, col < NE), row[col] == S0.val0(d, leafE(S0, col)))), row[NE] == 0),
        'bound': z3.And(H.A('mk:bk')[tk][r] == BK['fx'], H.A('mk:bl')[tk][r] == -alpha, H.A('mk:bu')[tk][r] == -alpha)}


def lmi_row(S0, H, tk, r, e, i, j, zvar, size):
    return z3.And(*lmi_row_parts(S0, H, tk, r, e, i, j, zvar, size).values())


def mlmi_requires(S, a):
    w, m = a['self'].t, a['psd_matrix'].t
    tk = S.fld('MosekWrapper', 'task', w)
    T = S.fld('Wrapper', '_list_of_constraints_sent_to_solver', w)
    regs = [S.g('Point.list_of_leaf_points'), S.g('Expression.list_of_leaf_expressions')]
    return [('square', z3.And(sh0(S, m) >= 0, sh1(S, m) == sh0(S, m))), ('entries', entries_ok(S, m)), ('reg_expr', Reg(S, 'Expression')), ('reg_point', Reg(S, 'Point')),
            ('task', z3.And(tf(S, 'numcon', tk) >= 0, task_ready(S, tk))),
            # the wrapper's count of PSD variables is the task's (established by set_main_variables, kept by this function)
            ('psd_count_is_numbarvar', S.fld('MosekWrapper', '_nb_pep_SDPconstraints_in_mosek', w) == tf(S, 'numbarvar', tk)),
            ('lists_distinct', z3.And(*[T != r for r in regs]))]


def mlmi_ens(S0, S, a, res):
    w, m = a['self'].t, a['psd_matrix'].t
    tk = S0.fld('MosekWrapper', 'task', w)
    T = S0.fld('Wrapper', '_list_of_constraints_sent_to_solver', w)
    r0, z0 = tf(S0, 'numcon', tk), tf(S0, 'numbarvar', tk)
    n0, n1 = sh0(S0, m), sh1(S0, m)
    i, j, q = fresh('i', I), fresh('j', I), fresh('q', I)
    return [('tracked_once', appended_list(S0, S, T, m), 'property'),
            ('one_new_psd_variable', z3.And(tf(S, 'numbarvar', tk) == z0 + 1, S.A('mk:bardim')[tk][z0] == n0,
                                            z3.ForAll([q], z3.Implies(z3.And(q >= 0, q < z0), S.A('mk:bardim')[tk][q] == S0.A('mk:bardim')[tk][q])),
                                            S.fld('MosekWrapper', '_nb_pep_SDPconstraints_in_mosek', w) == z0 + 1), 'property'),
            ('one_row_per_entry', z3.And(tf(S, 'numcon', tk) == r0 + ridx(n1, n0, 0), z3.ForAll([i, j], z3.Implies(z3.And(i >= 0, i < n0, j >= 0, j < n1), z3.And(
                ridx(n1, i, j) >= 0, ridx(n1, i, j) < ridx(n1, n0, 0), lmi_row(S0, S, tk, r0 + ridx(n1, i, j), mentry(m, i, j), i, j, z0, n0))))), 'property'),
            ('earlier_rows_and_variables_untouched', z3.And(
                z3.ForAll([q], z3.Implies(z3.And(q >= 0, q < r0), z3.And(*[S.A(nm)[tk][q] == S0.A(nm)[tk][q] for nm in ROWS]))),
                S.A('mk:vbk')[tk] == S0.A('mk:vbk')[tk], S.A('mk:c')[tk] == S0.A('mk:c')[tk], tf(S, 'numvar', tk) == tf(S0, 'numvar', tk),
                tf(S, 'objsense', tk) == tf(S0, 'objsense', tk)), 'property')]


def mlmi_common(L_, i_now, j_now):
    S0, H, a = L_.H0, L_.H, L_.args
    w, m = a['self'].t, a['psd_matrix'].t
    tk = S0.fld('MosekWrapper', 'task', w)
    r0, z0 = tf(S0, 'numcon', tk), tf(S0, 'numbarvar', tk)
    n0, n1 = sh0(S0, m), sh1(S0, m)
    i, j, q = fresh('i', I), fresh('j', I), fresh('q', I)
    before = lambda i_, j_: z3.Or(i_ < i_now, z3.And(i_ == i_now, j_ < j_now))
    cur = ridx(n1, i_now, j_now)
    return [('count', z3.And(tf(H, 'numcon', tk) == r0 + cur, cur >= 0)),
            ('bar_variable', z3.And(tf(H, 'numbarvar', tk) == z0 + 1, H.A('mk:bardim')[tk][z0] == n0, H.A('mk:bardim')[tk][0] == S0.g('Point.counter'),
                                    z3.ForAll([q], z3.Implies(z3.And(q >= 0, q < z0), H.A('mk:bardim')[tk][q] == S0.A('mk:bardim')[tk][q])),
                                    H.fld('MosekWrapper', '_nb_pep_SDPconstraints_in_mosek', w) == z0 + 1, H.fld('MosekWrapper', 'task', w) == tk,
                                    tf(H, 'numvar', tk) == tf(S0, 'numvar', tk))),
            ('rows.index', z3.ForAll([i, j], z3.Implies(z3.And(i >= 0, i < n0, j >= 0, j < n1, before(i, j)), z3.And(ridx(n1, i, j) >= 0, ridx(n1, i, j) < cur))))] + [
            ('rows.' + lab, z3.ForAll([i, j], z3.Implies(z3.And(i >= 0, i < n0, j >= 0, j < n1, before(i, j)), f)),
             ['cut.old_rows.' + lab, 'cut.new_row.' + lab, 'inv.rows.index'])
            for lab, f in lmi_row_parts(S0, H, tk, r0 + ridx(n1, i, j), mentry(m, i, j), i, j, z0, n0).items()] + [

            ('earlier_rows_untouched', z3.ForAll([q], z3.Implies(z3.And(q >= 0, q < r0), z3.And(*[H.A(nm)[tk][q] == S0.A(nm)[tk][q] for nm in ROWS])))),
            ('objective_untouched', z3.And(H.A('mk:vbk')[tk] == S0.A('mk:vbk')[tk], H.A('mk:c')[tk] == S0.A('mk:c')[tk], tf(H, 'objsense', tk) == tf(S0, 'objsense', tk))),
            ('no_new_leaf', no_new_leaf(S0, H), ['inv.no_new_leaf', 'ens.expression_to_sparse_matrices.only_lists_allocated', 'frame.expression_to_sparse_matrices.cls',
                                                 'frame.MosekTask.appendsparsesymmat.cls']),
            ('registries_same', z3.And(*[z3.And(H.A('eltI')[S0.g(gn)] == S0.A('eltI')[S0.g(gn)], H.len(S0.g(gn)) == S0.len(S0.g(gn)))
                                        for gn in ('Point.list_of_leaf_points', 'Expression.list_of_leaf_expressions')]))]


def mlmi_outer(L_):
    return mlmi_common(L_, L_.i, z3.IntVal(0))


def mlmi_inner(L_):
    return mlmi_common(L_, L_.outer(1)['i'], L_.i)


def mlmi_lemmas_inner(L_):
    n1 = sh1(L_.H0, L_.args['psd_matrix'].t)
    return [ridx(n1, L_.outer(1)['i'], L_.i + 1) == ridx(n1, L_.outer(1)['i'], L_.i) + 1]


def mlmi_lemmas_outer(L_):
    n1 = sh1(L_.H0, L_.args['psd_matrix'].t)
    return [ridx(n1, L_.i + 1, 0) == ridx(n1, L_.i, n1)]


def mlmi_cuts(L_):
    """the row just written, stated for that one row (no quantifier over rows)"""
    S0, H, a = L_.H0, L_.H, L_.args
    w, m = a['self'].t, a['psd_matrix'].t
    tk = S0.fld('MosekWrapper', 'task', w)
    r0, z0 = tf(S0, 'numcon', tk), tf(S0, 'numbarvar', tk)
    n0, n1 = sh0(S0, m), sh1(S0, m)
    i_now, j_now = L_.outer(1)['i'], L_.i
    parts = lmi_row_parts(S0, H, tk, r0 + ridx(n1, i_now, j_now), mentry(m, i_now, j_now), i_now, j_now, z0, n0)
    A = H.A('mk:rowA')[tk][r0 + ridx(n1, i_now, j_now)]
    Ai, Aj, Av = L_.var('A_i', 3), L_.var('A_j', 4), L_.var('A_val', 5)
    Hs = L_.H_start
    q = fresh('q', I)
    cur = ridx(n1, i_now, j_now)
    kept = [('older_rows_kept', z3.ForAll([q], z3.Implies(z3.And(q >= 0, q < r0 + cur), z3.And(*[H.A(nm)[tk][q] == Hs.A(nm)[tk][q] for nm in ROWS])))),
            ('older_matrices_kept', z3.ForAll([q], z3.Implies(z3.And(q >= 0, q < Hs.alloc), z3.And(
                H.cls(q) == Hs.cls(q), *[sm(H, fl, q) == sm(Hs, fl, q) for fl in ('dim', 'n', 'subi', 'subj', 'val')])))),
            ('allocation_grows', H.alloc >= Hs.alloc)]
    first = kept + [('new_row.matrix_is_the_translation', z3.And(sm(H, 'subi', A) == Ai.t, sm(H, 'subj', A) == Aj.t, sm(H, 'val', A) == Av.t, sm(H, 'n', A) == Ai.items[0]))]
    i, j = fresh('i', I), fresh('j', I)
    before = lambda i_, j_: z3.Or(i_ < i_now, z3.And(i_ == i_now, j_ < j_now))
    old_rows = [('old_rows.' + lab, z3.ForAll([i, j], z3.Implies(z3.And(i >= 0, i < n0, j >= 0, j < n1, before(i, j)), f)),
                 ['inv.rows.' + lab, 'inv.rows.index', 'cut.older_rows_kept', 'cut.older_matrices_kept', 'inv.registries_same'])
                for lab, f in lmi_row_parts(S0, H, tk, r0 + ridx(n1, i, j), mentry(m, i, j), i, j, z0, n0).items()]
    return first + [('new_row.' + lab, f) for lab, f in parts.items()] + old_rows


MLMI_MODS = lambda L_: (lambda tk: dict({nm: only_task(tk) for nm in MK}, **{'f:MosekTask.numcon': only_task(tk)}))(L_.H0.fld('MosekWrapper', 'task', L_.args['self'].t))

contract(
    MW + 'send_lmi_constraint_to_solver', [('self', MWT), ('psd_counter', TInt), ('psd_matrix', MT)], returns=TNone,
    requires=mlmi_requires, ensures=mlmi_ens,
    defs=lambda S, a: ridx_defs(sh1(S, a['psd_matrix'].t), sh0(S, a['psd_matrix'].t)),
    modifies=lambda S, a: (lambda T, tk: dict({'len': lambda r: r == T, 'eltI': lambda r: r == T, 'f:MosekWrapper._nb_pep_SDPconstraints_in_mosek': lambda r: r == a['self'].t,
                                               'f:MosekTask.numcon': only_task(tk), 'f:MosekTask.numbarvar': only_task(tk)}, **{nm: only_task(tk) for nm in MK}))(
        S.fld('Wrapper', '_list_of_constraints_sent_to_solver', a['self'].t), S.fld('MosekWrapper', 'task', a['self'].t)),
    touches=lambda S, a: ['len', 'eltI', 'eltR', 'cls', 'f:MosekWrapper._nb_pep_SDPconstraints_in_mosek', 'f:MosekTask.numcon', 'f:MosekTask.numbarvar', 'f:SymMat.dim', 'f:SymMat.n',
                          'f:SymMat.subi', 'f:SymMat.subj', 'f:SymMat.val'] + MK,
    array_sorts={'f:SymMat.subi': z3.ArraySort(I, IA_I), 'f:SymMat.subj': z3.ArraySort(I, IA_I), 'f:SymMat.val': z3.ArraySort(I, IA_R)},
    loops={1: dict(inv=mlmi_outer, lemmas=mlmi_lemmas_outer, mods=MLMI_MODS), 2: dict(inv=mlmi_inner, lemmas=mlmi_lemmas_inner, mods=MLMI_MODS, cuts=mlmi_cuts)},
)
REG.by_key[MW + 'send_lmi_constraint_to_solver'].no_runtime = 'needs MOSEK; covered by the bounded differential check on the MOSEK stand-in (C11)'
