"""Contract of PEP._eval_points_and_function_values (C02): after a solve, EVERY leaf point gets column `counter` of one factor of the (projected)
Gram matrix and EVERY leaf expression gets entry `counter` of F - each at its own index, none left without a value, nothing else written.

numpy linear algebra is assumed and modelled by uninterpreted functions of the arguments (eigh, min, maximum, sqrt, v * M, qr(.., mode='r'));
what `R^T R = projection of G` means numerically is part of the bounded instance checks, not of this contract."""
import z3
from .common import *          # noqa
from pyvc.symex import TArr1, TArr2, TVec, A2
from .wrappers import mentry, sh0, sh1
from .evals import pval, pval_none, evalue, eval_none

PP_ = 'PEPit/pep.py::PEP.'
PEPT, MT = TRef('PEP'), TRef('PSDMatrix')
EIGVAL = z3.Function('np_eigh_values', A2, I, IA_R)
EIGVEC = z3.Function('np_eigh_vectors', A2, I, A2)
NPMIN = z3.Function('np_min', IA_R, I, R)
MAX0 = z3.Function('np_maximum0', IA_R, IA_R)
SQRTV = z3.Function('np_sqrt', IA_R, IA_R)
ROWSCALE = z3.Function('np_rowscale', IA_R, A2, A2)
QRR = z3.Function('np_qr_r', A2, I, A2)
TRANSP = None
COLUMN = z3.Function('np_column', A2, I, sx.Vec)
sx.NP_ROWSCALE, sx.NP_COLUMN = ROWSCALE, COLUMN


def _np(name):
    return ('attr', ('module', 'np'), name)


def _linalg(name):
    return ('attr', ('attr', ('module', 'np'), 'linalg'), name)


def _eigh(eng, st, args, kw, e):
    g = args[0]
    if g.ty.k != 'arr2':
        raise sx.OutOfSubset('np.linalg.eigh of %r' % (g.ty,))
    eng.emit('safe.square@%d' % e.lineno, st, g.items[0] == g.items[1], e.lineno, tag='aux')
    n = g.items[0]
    return sx.V(TTuple(TArr1, TArr2), items=[sx.V(TArr1, EIGVAL(g.t, n), items=[n], py='fresh'), sx.V(TArr2, EIGVEC(g.t, n), items=[n, n], py='fresh')])


def _min(eng, st, args, kw, e):
    v = args[0]
    if v.ty.k != 'arr1':
        raise sx.OutOfSubset('np.min of %r' % (v.ty,))
    return sx.vreal(NPMIN(v.t, v.items[0]))


def _maximum(eng, st, args, kw, e):
    v, z = args
    if v.ty.k != 'arr1' or not (z.ty.k == 'int' and z3.is_int_value(z.t) and z.t.as_long() == 0):
        raise sx.OutOfSubset('np.maximum shape at line %d' % e.lineno)
    return sx.V(TArr1, MAX0(v.t), items=v.items, py='fresh')


def _sqrt(eng, st, args, kw, e):
    v = args[0]
    if v.ty.k != 'arr1':
        raise sx.OutOfSubset('np.sqrt of %r' % (v.ty,))
    return sx.V(TArr1, SQRTV(v.t), items=v.items, py='fresh')


def _qr(eng, st, args, kw, e):
    m = args[0]
    mode = kw.get('mode')
    if m.ty.k != 'arr2' or mode is None or mode.ty.k != 'str' or mode.py != 'r':
        raise sx.OutOfSubset("np.linalg.qr other than (matrix, mode='r') at line %d" % e.lineno)
    # R of a (k x n) matrix with k == n here: n x n
    return sx.V(TArr2, QRR(m.t, m.items[0]), items=[m.items[0], m.items[1]], py='fresh')


REG.externals[_linalg('eigh')] = _eigh
REG.externals[_np('min')] = _min
REG.externals[_np('maximum')] = _maximum
REG.externals[_np('sqrt')] = _sqrt
REG.externals[_linalg('qr')] = _qr


def factor(G, n):
    """the matrix whose columns become the points' values, as computed by the numpy pipeline of the function"""
    ev = EIGVAL(G, n)
    ev2 = z3.If(NPMIN(ev, n) < 0, MAX0(ev), ev)
    i, j = fresh('i', I), fresh('j', I)
    scaled = ROWSCALE(SQRTV(ev2), EIGVEC(G, n))
    return QRR(z3.Lambda([i, j], scaled[j, i]), n)


def lmis_ok(S, pep):
    """the problem's LMIs are square PSDMatrix objects, and every PSDMatrix of the heap holds well-formed expressions (keys are leaves): the defensive
    assertions of the last loop nest never fire"""
    Lm = S.fld('PEP', 'list_of_psd', pep)
    k, i, j, m = fresh('k', I), fresh('i', I), fresh('j', I), fresh('m', I)
    mk_ = S.elt(Lm, k)
    e = mentry(m, i, j)
    return z3.And(
        z3.ForAll([k], z3.Implies(z3.And(k >= 0, k < S.len(Lm)), z3.And(mk_ >= 0, mk_ < S.alloc, S.cls(mk_) == tag('PSDMatrix'), sh0(S, mk_) >= 0, sh1(S, mk_) == sh0(S, mk_))),
                  patterns=[S.elt(Lm, k)]),
        z3.ForAll([m, i, j], z3.Implies(z3.And(m >= 0, m < S.alloc, S.cls(m) == tag('PSDMatrix'), i >= 0, i < sh0(S, m), j >= 0, j < sh1(S, m)), z3.And(
            e >= 0, e < S.alloc, S.cls(e) == tag('Expression'), wf_expr(S, e),
            z3.Implies(S.fld('Expression', '_is_leaf', e), z3.And(z3.Not(S.fld_none('Expression', 'counter', e)), S.fld('Expression', 'counter', e) >= 0,
                                                                  S.fld('Expression', 'counter', e) < S.g('Expression.counter'))))),
                  patterns=[mentry(m, i, j)]))


def values_assigned(S0, H, PV, F, upto_p, upto_e):
    """leaf points number < upto_p and leaf expressions number < upto_e carry the value at their own index"""
    i = fresh('i', I)
    p = S0.elt(S0.g('Point.list_of_leaf_points'), i)
    x = S0.elt(S0.g('Expression.list_of_leaf_expressions'), i)
    return z3.And(z3.ForAll([i], z3.Implies(z3.And(i >= 0, i < upto_p), z3.And(z3.Not(pval_none(H, p)), pval(H, p) == COLUMN(PV, i)))),
                  z3.ForAll([i], z3.Implies(z3.And(i >= 0, i < upto_e), z3.And(z3.Not(eval_none(H, x)), evalue(H, x) == F[i]))))


def epv_requires(S, a):
    G, F = a['G_value'], a['F_value']
    return [('shapes', z3.And(G.items[0] == S.g('Point.counter'), G.items[1] == S.g('Point.counter'), F.items[0] >= S.g('Expression.counter'))),
            ('reg_point', Reg(S, 'Point')), ('reg_expr', Reg(S, 'Expression')), ('lmis', lmis_ok(S, a['self'].t))]


def epv_ens(S0, S, a, res):
    G, F = a['G_value'], a['F_value']
    PV = factor(G.t, G.items[0])
    return [('every_leaf_has_the_value_at_its_own_index', values_assigned(S0, S, PV, F.t, S0.g('Point.counter'), S0.g('Expression.counter')), 'property')]


def leaf_only(S, cls):
    return lambda r: z3.And(isinstance_f(S.A('cls'), r, cls), S.fld(cls, '_is_leaf', r))


VALS = {'f:Point._value': 'Point', 'f:Point._value?none': 'Point', 'f:Expression._value': 'Expression', 'f:Expression._value?none': 'Expression'}


def epv_inv(np_, ne_):
    def inv(L_):
        S0, H, a = L_.H0, L_.H, L_.args
        PV = L_.var('points_values', 2)
        NPc, NEc = S0.g('Point.counter'), S0.g('Expression.counter')
        return [('factor', z3.And(PV.t == factor(a['G_value'].t, a['G_value'].items[0]), PV.items[0] == NPc, PV.items[1] == NPc)),
                ('assigned', values_assigned(S0, H, PV.t, a['F_value'].t, np_(L_, NPc), ne_(L_, NEc)))]
    return inv


EPV_MODS = lambda L_: {n: leaf_only(L_.H0, cls) for n, cls in VALS.items()}
ALL = lambda L_, n: n
contract(
    PP_ + '_eval_points_and_function_values', [('self', PEPT), ('F_value', TArr1), ('G_value', TArr2), ('verbose', TInt)], returns=TNone,
    defaults={'verbose': lambda: sx.vint(1)},
    requires=epv_requires, ensures=epv_ens, raises=[],
    modifies=lambda S, a: {n: leaf_only(S, cls) for n, cls in VALS.items()},
    loops={1: dict(inv=epv_inv(lambda L_, n: L_.i, lambda L_, n: z3.IntVal(0)), mods=EPV_MODS),
           2: dict(inv=epv_inv(ALL, lambda L_, n: L_.i), mods=EPV_MODS),
           3: dict(inv=epv_inv(ALL, ALL), mods=EPV_MODS), 4: dict(inv=epv_inv(ALL, ALL), mods=EPV_MODS), 5: dict(inv=epv_inv(ALL, ALL), mods=EPV_MODS),
           6: dict(inv=epv_inv(ALL, ALL), mods=EPV_MODS)},
    local_types={'point1': 'Point', 'point2': 'Point', 10: 'Point', 11: 'Point'},
)
REG.by_key[PP_ + '_eval_points_and_function_values'].no_runtime = 'numpy linear algebra; the bounded instance checks after real solves (C02 gram / combination) are the run-time counterpart'
