"""Contracts of PEPit/pep.py (C12: reset of the class-level state; C05: declared objects are stored exactly once)."""
import z3
from .common import *          # noqa

PEPP = 'PEPit/pep.py::PEP.'
COUNTERS = [g for g, t in GLOBAL_TYPES.items() if t.k == 'int']
LISTS = [g for g, t in GLOBAL_TYPES.items() if t.k == 'list']


def reset_ens(S0, S, a, res):
    out = [('counter[%s]' % g, S.g(g) == 0, 'property') for g in COUNTERS]
    for g in LISTS:
        L = S.g(g)
        out.append(('fresh_empty[%s]' % g, z3.And(L >= S0.alloc, L < S.alloc, S.cls(L) == tag('list'), S.len(L) == 0), 'property'))
    out.append(('distinct_lists', z3.Distinct(*[S.g(g) for g in LISTS]), 'property'))
    return out


contract(PEPP + '_reset_classes', [], returns=TNone, ensures=reset_ens,
         touches=lambda S, a: ['len', 'cls'], mod_globals=list(GLOBAL_TYPES))


def gen_reset(w, rng):
    """states reachable without any PEP(): objects created directly from the classes, PEP.counter still 0"""
    from PEPit.pep import PEP
    from PEPit.block_partition import BlockPartition
    from PEPit.functions import ConvexFunction
    if rng.random() < 0.6:
        ConvexFunction()
        BlockPartition(d=2)
    if rng.random() < 0.5:
        PEP.counter = 0
    return {}


REG.by_key[PEPP + '_reset_classes'].gen = gen_reset


# =====================================================================================================================
# declared objects are stored exactly once (C05), class constraints are regenerated from fresh lists at each solve (C13)
CT, ET, MT, FT, BT, PEPT = TRef('Constraint'), TRef('Expression'), TRef('PSDMatrix'), TRef('Function'), TRef('BlockPartition'), TRef('PEP')
sx.FIELD_TYPES.update({
    'PEP.list_of_constraints': TList(CT), 'PEP.list_of_psd': TList(MT), 'PEP.list_of_performance_metrics': TList(ET),
    'Function.list_of_constraints': TList(CT), 'Function.list_of_psd': TList(MT),
    'Function.list_of_class_constraints': TList(CT), 'Function.list_of_class_psd': TList(MT),
    'BlockPartition.list_of_constraints': TList(CT),
})


def appended(S0, S, L, x):
    """list object L (same object) has exactly one more element, x, at the end"""
    i = fresh('i', I)
    return z3.And(S.len(L) == S0.len(L) + 1, S.elt(L, S0.len(L)) == x,
                  z3.ForAll([i], z3.Implies(z3.And(i >= 0, i < S0.len(L)), S.elt(L, i) == S0.elt(L, i))))


def name_effect(S0, S, cls, obj, name):
    return z3.And(z3.Implies(name.none, z3.And(S.fld_none(cls, 'name', obj) == S0.fld_none(cls, 'name', obj),
                                                z3.Implies(z3.Not(S0.fld_none(cls, 'name', obj)), S.fld(cls, 'name', obj) == S0.fld(cls, 'name', obj)))),
                  z3.Implies(z3.Not(name.none), z3.And(z3.Not(S.fld_none(cls, 'name', obj)), S.fld(cls, 'name', obj) == name.t)))


def adder(key, owner_cls, list_attr, pname, ptype, named=True, variants=None):
    lst = lambda S, a: S.fld(owner_cls, list_attr, a['self'].t)
    params = [('self', TRef(owner_cls)), (pname, ptype)] + ([('name', TOpt(TStr))] if named else [])

    def ens(S0, S, a, res):
        out = [('stored_once', appended(S0, S, lst(S0, a), a[pname].t), 'property'),
               ('same_list', lst(S, a) == lst(S0, a), 'aux')]
        if named and ptype.a[0] in ('Constraint', 'Expression'):
            out.append(('name', name_effect(S0, S, ptype.a[0], a[pname].t, a['name']), 'aux'))
        return out

    def mods(S, a):
        m = {'len': lambda r: r == lst(S, a), 'eltI': lambda r: r == lst(S, a)}
        if named:
            m.update({'f:name': lambda r: r == a[pname].t, 'f:name?none': lambda r: r == a[pname].t})
        return m
    return contract(key, params, returns=TNone, variants={pname: variants or []},
                    defaults={'name': lambda: sx.VNONE} if named else {},
                    raises=[('*', lambda S, a: z3.Not(inst(S, a[pname], ptype.a[0])))],
                    requires=lambda S, a: [('list_is_not_the_object', lst(S, a) != a[pname].t)] if a[pname].ty.k == 'ref' else [],
                    ensures=ens, modifies=mods)


adder(PEPP + 'add_constraint', 'PEP', 'list_of_constraints', 'constraint', CT, variants=[ET, TAny])
adder(PEPP + 'set_performance_metric', 'PEP', 'list_of_performance_metrics', 'expression', ET, variants=[CT, TAny, Scalar])
adder('PEPit/function.py::Function.add_constraint', 'Function', 'list_of_constraints', 'constraint', CT, variants=[ET, TAny])
adder('PEPit/block_partition.py::BlockPartition.add_constraint', 'BlockPartition', 'list_of_constraints', 'constraint', CT, named=False, variants=[ET, TAny])

# set_initial_condition(condition, name=None): names the condition, then stores it through add_constraint
contract(PEPP + 'set_initial_condition', [('self', PEPT), ('condition', CT), ('name', TOpt(TStr))], returns=TNone,
         defaults={'name': lambda: sx.VNONE},
         requires=lambda S, a: [('list_is_not_the_object', S.fld('PEP', 'list_of_constraints', a['self'].t) != a['condition'].t)],
         ensures=lambda S0, S, a, res: [('stored_once', appended(S0, S, S0.fld('PEP', 'list_of_constraints', a['self'].t), a['condition'].t), 'property'),
                                        ('name', name_effect(S0, S, 'Constraint', a['condition'].t, a['name']), 'aux')],
         modifies=lambda S, a: {'len': lambda r: r == S.fld('PEP', 'list_of_constraints', a['self'].t),
                                'eltI': lambda r: r == S.fld('PEP', 'list_of_constraints', a['self'].t),
                                'f:name': lambda r: r == a['condition'].t, 'f:name?none': lambda r: r == a['condition'].t})

# ---- abstract contract of add_class_constraints (overridden by the 24 classes; their bodies are checked by contract-level
# execution under C03 / C04): it only EXTENDS the two class lists and may allocate
FCLS = ['f:Function.list_of_class_constraints', 'f:Function.list_of_class_psd']


def acc_ens(S0, S, a, res):
    f = a['self'].t
    Lc, Lp = S0.fld('Function', 'list_of_class_constraints', f), S0.fld('Function', 'list_of_class_psd', f)
    i = fresh('i', I)
    keep = lambda L: z3.And(S.len(L) >= S0.len(L), z3.ForAll([i], z3.Implies(z3.And(i >= 0, i < S0.len(L)), S.elt(L, i) == S0.elt(L, i))))
    return [('same_lists', z3.And(S.fld('Function', 'list_of_class_constraints', f) == Lc, S.fld('Function', 'list_of_class_psd', f) == Lp), 'aux'),
            ('extends_only', z3.And(keep(Lc), keep(Lp)), 'aux')]


contract('PEPit/function.py::Function.add_class_constraints', [('self', FT)], returns=TNone, ensures=acc_ens, assumed=True,
         modifies=lambda S, a: {'len': lambda r: z3.Or(r == S.fld('Function', 'list_of_class_constraints', a['self'].t), r == S.fld('Function', 'list_of_class_psd', a['self'].t)),
                                'eltI': lambda r: z3.Or(r == S.fld('Function', 'list_of_class_constraints', a['self'].t), r == S.fld('Function', 'list_of_class_psd', a['self'].t))},
         touches=lambda S, a: sorted(set(['len', 'eltI', 'cls', 'dom', 'valR'] + obj_arrays('Expression') + obj_arrays('Point'))),
         mod_globals=['Constraint.counter', 'PSDMatrix.counter', 'Point.counter', 'Expression.counter'],
         note='abstract contract of the overridable method; the 24 overrides are executed at contract level (sym/classcheck.py)')


def scc_ens(S0, S, a, res):
    f = a['self'].t
    Lc, Lp = S.fld('Function', 'list_of_class_constraints', f), S.fld('Function', 'list_of_class_psd', f)
    return [('fresh_constraint_list', z3.And(Lc >= S0.alloc, Lc < S.alloc), 'property'),       # nothing of an earlier solve survives (F4 / C13)
            ('fresh_lmi_list', z3.And(Lp >= S0.alloc, Lp < S.alloc), 'property'),
            ('distinct', Lc != Lp, 'aux')]


contract('PEPit/function.py::Function.set_class_constraints', [('self', FT)], returns=TNone, ensures=scc_ens,
         modifies=lambda S, a: {n: (lambda r: r == a['self'].t) for n in FCLS},
         touches=lambda S, a: sorted(set(FCLS + ['len', 'eltI', 'cls', 'dom', 'valR'] + obj_arrays('Expression') + obj_arrays('Point'))),
         mod_globals=['Constraint.counter', 'PSDMatrix.counter', 'Point.counter', 'Expression.counter'])
