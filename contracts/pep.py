"""Contracts of PEPit/pep.py (C12: reset of the class-level state; C05: declared objects are stored exactly once)."""
import z3
from .common import *          # noqa

PEPP = 'PEPit/pep.py::PEP.'
COUNTERS = [g for g, t in GLOBAL_TYPES.items() if t.k == 'int']
LISTS = [g for g, t in GLOBAL_TYPES.items() if t.k == 'list']


def reset_ens(S0, S, a, res):
    out = [('counter[%s]' % g, S.g(g) == 0, 'property') for g in COUNTERS]
    for g in LISTS:
        L = S.g(g)
        out.append(('fresh_empty[%s]' % g, z3.And(L >= S0.alloc, L < S.alloc, S.cls(L) == tag('list'), S.len(L) == 0), 'property'))
    out.append(('distinct_lists', z3.Distinct(*[S.g(g) for g in LISTS]), 'property'))
    return out


contract(PEPP + '_reset_classes', [], returns=TNone, ensures=reset_ens,
         touches=lambda S, a: ['len', 'cls'], mod_globals=list(GLOBAL_TYPES))


def gen_reset(w, rng):
    """states reachable without any PEP(): objects created directly from the classes, PEP.counter still 0"""
    from PEPit.pep import PEP
    from PEPit.block_partition import BlockPartition
    from PEPit.functions import ConvexFunction
    if rng.random() < 0.6:
        ConvexFunction()
        BlockPartition(d=2)
    if rng.random() < 0.5:
        PEP.counter = 0
    return {}


REG.by_key[PEPP + '_reset_classes'].gen = gen_reset
