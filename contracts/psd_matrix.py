"""Contract of PSDMatrix.eval (C02 / C13 / C16): the value of an LMI is recomputed from its entries at every call.

`np.array([[expression.eval() for expression in line] for line in self.matrix_of_expressions])` is desugared by the engine into the two
loops it abbreviates (pyvc.symex.DesugarComprehension); the numpy object array is the spec function mentry(psd, i, j) also used by
PSDMatrix.__getitem__."""
import z3
from .common import *          # noqa
from pyvc.symex import TArr2
from .evals import e_unsolved, evalue, eval_none, pval, pval_none, pair_dims, VAL_E
from .wrappers import mentry, sh0, sh1

sx.OBJMAT_ENTRY = mentry
sx.FIELD_TYPES['PSDMatrix._value'] = TOpt(TArr2)
MP = 'PEPit/psd_matrix.py::PSDMatrix.'
MT = TRef('PSDMatrix')
VALM = ['f:PSDMatrix._value', 'f:PSDMatrix._value?none', 'f:PSDMatrix._value#0', 'f:PSDMatrix._value#1']


def in_range(S, m, i, j):
    return z3.And(i >= 0, i < sh0(S, m), j >= 0, j < sh1(S, m))


def entries_evaluable(S, m):
    """every entry is an allocated Expression on which Expression.eval's precondition holds"""
    i, j = fresh('i', I), fresh('j', I)
    e = mentry(m, i, j)
    return z3.ForAll([i, j], z3.Implies(in_range(S, m, i, j), z3.And(
        e >= 0, e < S.alloc, S.cls(e) == tag('Expression'),
        z3.Or(S.fld('Expression', '_is_leaf', e), z3.And(wf_expr(S, e), pair_dims(S, e))))), patterns=[mentry(m, i, j)])


def some_entry_unsolved(S, m):
    i, j = fresh('i', I), fresh('j', I)
    return z3.Exists([i, j], z3.And(in_range(S, m, i, j), e_unsolved(S, mentry(m, i, j))))


def occurs_once(S, m, i, j):
    k, l = fresh('k', I), fresh('l', I)
    return z3.ForAll([k, l], z3.Implies(z3.And(in_range(S, m, k, l), z3.Or(k != i, l != j)), mentry(m, k, l) != mentry(m, i, j)))


def value_clause(S0, H, m, i, j, v):
    """v is the value computed for entry (i, j): a leaf's stored value; for a combination (held at one position only) the value Expression.eval
    has just recomputed and stored on it"""
    e = mentry(m, i, j)
    leaf = S0.fld('Expression', '_is_leaf', e)
    return z3.And(z3.Implies(leaf, v == evalue(S0, e)),
                  z3.Implies(z3.And(z3.Not(leaf), occurs_once(S0, m, i, j)), z3.And(z3.Not(eval_none(H, e)), v == evalue(H, e))))


def leaves_unchanged(S0, H):
    """leaf values, decompositions and leaf flags of everything allocated before the call are what they were"""
    r = fresh('r', I)
    return z3.ForAll([r], z3.Implies(z3.And(r >= 0, r < S0.alloc), z3.And(
        H.farr('Point', '_value')[r] == S0.farr('Point', '_value')[r], H.farr('Point', '_value', none=True)[r] == S0.farr('Point', '_value', none=True)[r],
        z3.Implies(S0.fld('Expression', '_is_leaf', r), z3.And(
            H.farr('Expression', '_value')[r] == S0.farr('Expression', '_value')[r],
            H.farr('Expression', '_value', none=True)[r] == S0.farr('Expression', '_value', none=True)[r])))))


def meval_ens(S0, S, a, res):
    m = a['self'].t
    i, j = fresh('i', I), fresh('j', I)
    stored = S.farr('PSDMatrix', '_value')[m]
    return [('stored', z3.And(z3.Not(res.none), z3.Not(S.fld_none('PSDMatrix', '_value', m)), res.t == stored), 'property'),
            ('shape', z3.And(res.items[0] == sh0(S0, m), res.items[1] == sh1(S0, m)), 'property'),
            ('entries_recomputed', z3.ForAll([i, j], z3.Implies(in_range(S0, m, i, j), value_clause(S0, S, m, i, j, res.t[i, j]))), 'property')]


def rows_done(S0, H, m, out, upto):
    """rows 0 .. upto-1 of the list of lists `out` are complete"""
    i, j, i2 = fresh('i', I), fresh('j', I), fresh('i2', I)
    row = lambda k: H.elt(out, k)
    return z3.And(
        z3.ForAll([i], z3.Implies(z3.And(i >= 0, i < upto), z3.And(row(i) >= S0.alloc, row(i) < H.alloc, row(i) != out, H.cls(row(i)) == tag('list'),
                                                                   H.len(row(i)) == sh1(S0, m))), patterns=[H.elt(out, i)]),
        z3.ForAll([i, i2], z3.Implies(z3.And(i >= 0, i < i2, i2 < upto), row(i) != row(i2))),
        z3.ForAll([i, j], z3.Implies(z3.And(i >= 0, i < upto, j >= 0, j < sh1(S0, m)), value_clause(S0, H, m, i, j, H.eltr(row(i), j)))))


def solved_before(S0, m, i_, j_):
    """no entry strictly before position (i_, j_) (row-major) lacks a value"""
    i, j = fresh('i', I), fresh('j', I)
    return z3.ForAll([i, j], z3.Implies(z3.And(in_range(S0, m, i, j), z3.Or(i < i_, z3.And(i == i_, j < j_))), z3.Not(e_unsolved(S0, mentry(m, i, j)))))


def meval_outer(L):
    S0, H = L.H0, L.H
    m = L.args['self'].t
    out = L.var('__comp0', 0).t
    return [('out', z3.And(out >= S0.alloc, out < H.alloc, H.cls(out) == tag('list'), H.len(out) == L.i)),
            ('rows', rows_done(S0, H, m, out, L.i)),
            ('solved_so_far', solved_before(S0, m, L.i, z3.IntVal(0))),
            ('leaves_unchanged', leaves_unchanged(S0, H))]


def meval_inner(L):
    S0, H = L.H0, L.H
    m = L.args['self'].t
    out = L.var('__comp0', 0).t
    cur = L.var('__comp1', 2).t
    i = L.outer(1)['i']
    j = fresh('j', I)
    return [('out', z3.And(out >= S0.alloc, out < H.alloc, H.cls(out) == tag('list'), H.len(out) == i)),
            ('rows', rows_done(S0, H, m, out, i)),
            ('row', z3.And(cur >= S0.alloc, cur < H.alloc, cur != out, H.cls(cur) == tag('list'), H.len(cur) == L.i,
                           (lambda k: z3.ForAll([k], z3.Implies(z3.And(k >= 0, k < i), H.elt(out, k) != cur)))(fresh('k', I)),
                           z3.ForAll([j], z3.Implies(z3.And(j >= 0, j < L.i), value_clause(S0, H, m, i, j, H.eltr(cur, j)))))),
            ('solved_so_far', solved_before(S0, m, i, L.i)),
            ('leaves_unchanged', leaves_unchanged(S0, H))]


def entry_pred(S, m):
    def pred(r):
        i, j = fresh('i', I), fresh('j', I)
        return z3.Exists([i, j], z3.And(in_range(S, m, i, j), r == mentry(m, i, j), z3.Not(S.fld('Expression', '_is_leaf', r))))
    return pred


contract(
    MP + 'eval', [('self', MT)], returns=TOpt(TArr2),
    requires=lambda S, a: [('shape', z3.And(sh0(S, a['self'].t) >= 1, sh1(S, a['self'].t) >= 1)), ('entries', entries_evaluable(S, a['self'].t))],
    raises=[('ValueError', lambda S, a: some_entry_unsolved(S, a['self'].t))],
    ensures=meval_ens,
    modifies=lambda S, a: dict({n: (lambda r: r == a['self'].t) for n in VALM}, **{n: entry_pred(S, a['self'].t) for n in VAL_E}),
    touches=lambda S, a: VALM + VAL_E + ['len', 'eltI', 'eltR', 'cls'],
    array_sorts={'f:PSDMatrix._value#0': z3.ArraySort(I, I), 'f:PSDMatrix._value#1': z3.ArraySort(I, I)},
    loops={1: dict(inv=meval_outer, mods=lambda L: dict({n: entry_pred(L.H0, L.args['self'].t) for n in VAL_E},
                                                        **{n: (lambda r: r == L.var('__comp0', 0).t) for n in ('len', 'eltI')})),
           2: dict(inv=meval_inner, mods=lambda L: dict({n: entry_pred(L.H0, L.args['self'].t) for n in VAL_E},
                                                        **{n: (lambda r: r == L.var('__comp1', 2).t) for n in ('len', 'eltR')}))},
)


# ============================================================ run-time side (bounded stand-in): the same clauses decided natively on real objects
def gen_psd(w, rng):
    """a real PSDMatrix over seeded expressions: leaves and combinations, the same object possibly at several positions, some leaf without value,
    values left on combinations and on the matrix by an earlier solve"""
    import numpy as np
    from PEPit.psd_matrix import PSDMatrix
    from .evals import _solved_world, _targeted_unsolved, _stale
    n = rng.choice([1, 2, 2, 3])
    mode = rng.random()
    pool = [w.expression() for _ in range(rng.choice([2, 3, 4]))]
    if mode < 0.3:
        e = w.Expression(is_leaf=False, decomposition_dict=w.expr_dict())
        _targeted_unsolved(w, rng, e)
        pool.append(e)
    else:
        _solved_world(w, rng, post_solve_leaf=False)
    for e in pool:
        _stale(rng, e)
    mat = [[rng.choice(pool) for _ in range(n)] for _ in range(n)]
    if rng.random() < 0.5:
        for i in range(n):
            for j in range(i):
                mat[i][j] = mat[j][i]
    m = PSDMatrix(matrix_of_expressions=mat)
    if rng.random() < 0.5:
        m._value = np.full((n, n), 33.0)          # computed after an earlier solve
    return {'self': m}


def _unsolved(e):
    if e._is_leaf:
        return e._value is None
    for k in e.decomposition_dict:
        if isinstance(k, tuple):
            if k[0]._value is None or k[1]._value is None:
                return True
        elif hasattr(k, 'decomposition_dict') and k._value is None:
            return True
    return False


def direct_psd_eval(fn, args):
    import numpy as np
    from pyvc.concrete import RunResult
    from .evals import _expr_value
    rr = RunResult()
    m = args['self']
    n0, n1 = m.shape
    entries = [[m.matrix_of_expressions[i, j] for j in range(n1)] for i in range(n0)]
    rr.accepted = n0 >= 1 and n1 >= 1
    must_raise = any(_unsolved(e) for row in entries for e in row)
    want = None if must_raise else np.array([[(e._value if e._is_leaf else _expr_value(e)) for e in row] for row in entries], dtype=float)
    try:
        out = fn(m)
        rr.outcome = 'return'
    except Exception as ex:       # noqa
        rr.outcome = type(ex).__name__
        if not (isinstance(ex, ValueError) and must_raise):
            rr.failed.append(('raises.only[%s]' % rr.outcome, 'property'))
        return rr
    if must_raise:
        rr.failed.append(('raises.must[ValueError]', 'property'))
        return rr
    out = np.asarray(out, dtype=float)
    if out.shape != (n0, n1):
        rr.failed.append(('post[shape]', 'property'))
    elif np.max(np.abs(out - want)) > 1e-9 * (1 + np.max(np.abs(want))):
        rr.failed.append(('post[entries_recomputed]', 'property'))
    if m._value is None or np.asarray(m._value).shape != out.shape or np.any(np.asarray(m._value, dtype=float) != out):
        rr.failed.append(('post[stored]', 'property'))
    return rr


REG.by_key[MP + 'eval'].gen = gen_psd
REG.by_key[MP + 'eval'].runtime_direct = direct_psd_eval
