"""Contracts of the two generic class-constraint helpers of Function (C04-a, C17):

    add_constraints_from_one_list_of_points(list, name, closure)           one constraint per sample
    add_constraints_from_two_lists_of_points(l1, l2, name, closure, sym)   one constraint per ordered pair of DISTINCT samples
                                                                           (pairs i > j skipped when `symmetry`)

What is stated (for every list length, every pattern of repeated samples, named or unnamed points and functions):
  * exactly the required constraints are created, each by ONE call of the class closure on that sample / ordered pair (ghost fields gen0..gen5 of the
    fresh Constraint hold the arguments of the call), appended to list_of_class_constraints in row-major order, nothing else appended;
  * the name of each one is  IC_<function id>_<condition>(<label_i>[, <label_j>])  with label = the point's name or Point_<index>;
  * the table stored under the condition name has the cell (i, j) = that constraint (python 0 where none), columns / index = the labels.

Assumed (external): the class closure allocates one Constraint plus non-leaf expressions / points / dicts and changes nothing that existed;
pandas / numpy by denotation (DataFrame(cells, columns, index) keeps what it is given; np.array of a list of rows has shape (0,) iff there is no row);
str.format by congruence only."""
import z3
from .common import *          # noqa
from pyvc.symex import T, FMT, ZERO_CELL, str_code
from .point import registry_same
from .expression import CONS_ARRAYS, CMP_TOUCH
from . import function as _f       # noqa  (field types of Function)

FP = 'PEPit/function.py::Function.'
FT, PT, ET, CT = TRef('Function'), TRef('Point'), TRef('Expression'), TRef('Constraint')
TRIP = THeapTuple(PT, PT, ET)
tag('DataFrame')
GEN = ['gen%d' % k for k in range(6)]
sx.FIELD_TYPES.update({'DataFrame.cells': TInt, 'DataFrame.layout': TInt, 'DataFrame.columns': TList(TStr), 'DataFrame.index': TOpt(TList(TStr)),
                       'DataFrame.colname': TOpt(TStr)})
sx.FIELD_TYPES.update({'Constraint.' + g: TInt for g in GEN})
DF_ARRAYS = ['f:DataFrame.cells', 'f:DataFrame.layout', 'f:DataFrame.columns', 'f:DataFrame.index', 'f:DataFrame.index?none', 'f:DataFrame.colname',
             'f:DataFrame.colname?none']
GEN_ARRAYS = ['f:Constraint.' + g for g in GEN]
code = lambda s_: z3.IntVal(str_code(s_))


# ------------------------------------------------------------------------------------------------ pandas by denotation
def _dataframe(eng, st, args, kw, e):
    if len(args) != 1 or args[0].ty.k != 'objarr' or 'columns' not in kw or set(kw) - {'columns', 'index'}:
        raise sx.OutOfSubset('pd.DataFrame call shape at line %d' % e.lineno)
    src = args[0]
    r = eng.alloc(st, 'DataFrame')
    eng.write_field(st, 'DataFrame', 'cells', r, sx.vint(src.t), e.lineno)
    eng.write_field(st, 'DataFrame', 'layout', r, sx.vint({'row': 1, 'rows': 2, 'flat': 0}[src.items[0]]), e.lineno)
    eng.write_field(st, 'DataFrame', 'columns', r, kw['columns'], e.lineno)
    eng.write_field(st, 'DataFrame', 'index', r, kw.get('index', sx.VNONE), e.lineno)
    eng.write_field(st, 'DataFrame', 'colname', r, sx.VNONE, e.lineno)
    return sx.V(TRef('DataFrame'), r)


REG.externals[('attr', ('module', 'pd'), 'DataFrame')] = _dataframe

contract(FP + 'get_name', [('self', FT)], pure=True, returns=TOpt(TStr),
         ensures=lambda S0, S, a, res: [('value', z3.And(res.none == S0.fld_none('Function', 'name', a['self'].t),
                                                        z3.Implies(z3.Not(res.none), res.t == S0.fld('Function', 'name', a['self'].t))))])


# ------------------------------------------------------------------------------------------------ the class closures (assumed, abstract)
def closure_ens(n):
    def ens(S0, S, a, res):
        names = ['xi', 'gi', 'fi', 'xj', 'gj', 'fj'][:n]
        r = fresh('r', I)
        return [('fresh_constraint', z3.And(res.t >= S0.alloc, res.t < S.alloc, S.cls(res.t) == tag('Constraint')), 'property'),
                ('generated_from_its_arguments', z3.And(*[S.fld('Constraint', GEN[k], res.t) == a[nm].t for k, nm in enumerate(names)]), 'property'),
                ('no_new_leaf', no_new_leaf(S0, S), 'aux'),
                ('allocates_no_table_or_list', z3.ForAll([r], z3.Implies(z3.And(r >= S0.alloc, r < S.alloc),
                                                                        z3.And(S.cls(r) != tag('list'), S.cls(r) != tag('DataFrame'), S.cls(r) != tag('tuple')))), 'aux'),
                ('registries', z3.And(registry_same(S0, S, 'Point.list_of_leaf_points'), registry_same(S0, S, 'Expression.list_of_leaf_expressions')), 'aux')]
    return ens


CLOSURE_TOUCH = lambda S, a: sorted(set(CMP_TOUCH(S, a) + obj_arrays('Point') + GEN_ARRAYS))
contract('callable::class_constraint_1', [('xi', PT), ('gi', PT), ('fi', ET)], returns=CT, assumed=True, ensures=closure_ens(3),
         touches=CLOSURE_TOUCH, mod_globals=['Constraint.counter'], note='abstract contract of a class closure of one sample')
contract('callable::class_constraint_2', [('xi', PT), ('gi', PT), ('fi', ET), ('xj', PT), ('gj', PT), ('fj', ET)], returns=CT, assumed=True, ensures=closure_ens(6),
         touches=CLOSURE_TOUCH, mod_globals=['Constraint.counter'], note='abstract contract of a class closure of two samples')


# ------------------------------------------------------------------------------------------------ common vocabulary
def fid(S, f):
    """function id used in names: the function's name, or Function_<counter>"""
    cnt = z3.If(S.fld_none('Function', 'counter', f), code('None'), S.fld('Function', 'counter', f))
    return z3.If(S.fld_none('Function', 'name', f), FMT[1](code('Function_{}'), cnt), S.fld('Function', 'name', f))


def xof(S, lst, i): return S.fld(None, 't0', S.elt(lst, i))
def gof(S, lst, i): return S.fld(None, 't1', S.elt(lst, i))
def fof(S, lst, i): return S.fld(None, 't2', S.elt(lst, i))


def label(S, lst, i):
    """label used in the NAME of a constraint: get_name() or Point_<i>"""
    x = xof(S, lst, i)
    return z3.If(S.fld_none('Point', 'name', x), FMT[1](code('Point_{}'), i), S.fld('Point', 'name', x))


def col_label(S, lst, i):
    """label used for the table's row / column: `name or Point_<i>` (an empty name also falls back)"""
    x = xof(S, lst, i)
    nm = S.fld('Point', 'name', x)
    return z3.If(z3.And(z3.Not(S.fld_none('Point', 'name', x)), nm != str_code('')), nm, FMT[1](code('Point_{}'), i))


def samples_ok(S, lst):
    i = fresh('i', I)
    t = S.elt(lst, i)
    return z3.ForAll([i], z3.Implies(z3.And(i >= 0, i < S.len(lst)), z3.And(
        t >= 0, t < S.alloc, S.cls(t) == tag('tuple'),
        xof(S, lst, i) >= 0, xof(S, lst, i) < S.alloc, isinstance_f(S.A('cls'), xof(S, lst, i), 'Point'),
        gof(S, lst, i) >= 0, gof(S, lst, i) < S.alloc, isinstance_f(S.A('cls'), gof(S, lst, i), 'Point'),
        fof(S, lst, i) >= 0, fof(S, lst, i) < S.alloc, isinstance_f(S.A('cls'), fof(S, lst, i), 'Expression'))), patterns=[S.elt(lst, i)])


def helper_requires(lists):
    def req(S, a):
        f = a['self'].t
        L = S.fld('Function', 'list_of_class_constraints', f)
        regs = [S.g('Point.list_of_leaf_points'), S.g('Expression.list_of_leaf_expressions')]
        out = [('samples[%s]' % n, samples_ok(S, a[n].t)) for n in lists]
        out.append(('lists_distinct', z3.And(*[L != a[n].t for n in lists] + [L != r for r in regs])))
        return out
    return req


def old_prefix_kept(S0, S, L):
    k = fresh('k', I)
    return z3.ForAll([k], z3.Implies(z3.And(k >= 0, k < S0.len(L)), S.elt(L, k) == S0.elt(L, k)))


# ------------------------------------------------------------------------------------------------ one list
IC1, IC2, ICF = 'IC_{}_{}({})', 'IC_{}_{}({}, {})', 'IC_{}'


def one_made(S0, H, lst, c, i, f, cname):
    """c is the constraint generated for sample i of lst: by one closure call on that sample, named after it"""
    return z3.And(c >= S0.alloc, c < H.alloc, H.cls(c) == tag('Constraint'),
                  H.fld('Constraint', 'gen0', c) == xof(S0, lst, i), H.fld('Constraint', 'gen1', c) == gof(S0, lst, i), H.fld('Constraint', 'gen2', c) == fof(S0, lst, i),
                  z3.Not(H.fld_none('Constraint', 'name', c)),
                  H.fld('Constraint', 'name', c) == FMT[3](code(IC1), fid(S0, f), cname, label(S0, lst, i)))


def one_ens(S0, S, a, res):
    f, lst, cname = a['self'].t, a['list_of_points'].t, a['constraint_name'].t
    L = S0.fld('Function', 'list_of_class_constraints', f)
    n, n0 = S0.len(lst), S0.len(L)
    i = fresh('i', I)
    tabs = S0.fld('Function', 'tables_of_constraints', f)
    key = Tup(One, Obj(cname))
    df = S.geti(tabs, key)
    cells, cols = S.fld('DataFrame', 'cells', df), S.fld('DataFrame', 'columns', df)
    return [('one_constraint_per_sample', z3.And(S.len(L) == n0 + n, old_prefix_kept(S0, S, L),
                                                 z3.ForAll([i], z3.Implies(z3.And(i >= 0, i < n), one_made(S0, S, lst, S.elt(L, n0 + i), i, f, cname)))), 'property'),
            ('table_registered', z3.And(S.has(tabs, key), df >= S0.alloc, df < S.alloc, S.cls(df) == tag('DataFrame'), S.fld('DataFrame', 'layout', df) == 1,
                                        S.fld_none('DataFrame', 'index', df), z3.Not(S.fld_none('DataFrame', 'colname', df)),
                                        S.fld('DataFrame', 'colname', df) == FMT[1](code(ICF), fid(S0, f))), 'property'),
            ('table_cells', z3.And(cells >= S0.alloc, S.len(cells) == n,
                                   z3.ForAll([i], z3.Implies(z3.And(i >= 0, i < n), S.elt(cells, i) == S.elt(L, n0 + i)))), 'property'),
            ('table_labels', z3.And(cols >= S0.alloc, S.len(cols) == n,
                                    z3.ForAll([i], z3.Implies(z3.And(i >= 0, i < n), S.elt(cols, i) == col_label(S0, lst, i)))), 'property')]


def one_inv(L_):
    S0, H = L_.H0, L_.H
    f, lst, cname = L_.args['self'].t, L_.args['list_of_points'].t, L_.args['constraint_name'].t
    L = S0.fld('Function', 'list_of_class_constraints', f)
    n0 = S0.len(L)
    tab = L_.var('table_of_constraints', 1).t
    k, r = fresh('k', I), fresh('r', I)
    return [('table', z3.And(tab >= S0.alloc, tab < H.alloc, H.cls(tab) == tag('list'), tab != L, tab != lst, H.len(tab) == L_.i)),
            ('appended', z3.And(H.len(L) == n0 + L_.i, old_prefix_kept(S0, H, L))),
            ('made', z3.ForAll([k], z3.Implies(z3.And(k >= 0, k < L_.i), z3.And(one_made(S0, H, lst, H.elt(L, n0 + k), k, f, cname),
                                                                               H.elt(tab, k) == H.elt(L, n0 + k))))),
            ('function_untouched', z3.And(H.fld('Function', 'list_of_class_constraints', f) == L,
                                          H.fld('Function', 'tables_of_constraints', f) == S0.fld('Function', 'tables_of_constraints', f))),
            ('no_new_leaf', no_new_leaf(S0, H)),
            ('only_table_list', z3.ForAll([r], z3.Implies(z3.And(r >= S0.alloc, r < H.alloc, r != tab), z3.And(H.cls(r) != tag('list'), H.cls(r) != tag('DataFrame')))))]


HELPER_TOUCH = lambda S, a: sorted(set(CLOSURE_TOUCH(S, a) + DF_ARRAYS + ['len', 'eltI', 'dom', 'valI', 'cls', 'f:name', 'f:name?none']))


def helper_modifies(S, a):
    f = a['self'].t
    L = S.fld('Function', 'list_of_class_constraints', f)
    tabs = S.fld('Function', 'tables_of_constraints', f)
    return {'len': lambda r: r == L, 'eltI': lambda r: r == L, 'dom': lambda r: r == tabs, 'valI': lambda r: r == tabs}


LOOP_MODS = lambda L_: {n: (lambda r: z3.Or(r == L_.H0.fld('Function', 'list_of_class_constraints', L_.args['self'].t), r == L_.var('table_of_constraints', 1).t))
                        for n in ('len', 'eltI')}

contract(
    FP + 'add_constraints_from_one_list_of_points',
    [('self', FT), ('list_of_points', TList(TRIP)), ('constraint_name', TStr), ('set_class_constraint_i', T('callable', 'callable::class_constraint_1'))],
    returns=TNone, requires=helper_requires(['list_of_points']), ensures=one_ens,
    modifies=helper_modifies, touches=HELPER_TOUCH, mod_globals=['Constraint.counter'],
    loops={1: dict(inv=one_inv, mods=LOOP_MODS)},
    local_types={'table_of_constraints': TList(CT), 1: TList(CT)},
)
REG.by_key[FP + 'add_constraints_from_one_list_of_points'].no_runtime = 'pandas objects; the bounded pair-helper harness (harness/pairs.py) is the run-time counterpart'


# ------------------------------------------------------------------------------------------------ two lists
# cnt(l1, l2, sym, i, j): number of cells strictly before (i, j), row-major over len(l1) x len(l2), that hold a constraint (spec function defined by recursion)
cnt = z3.Function('cnt', I, I, B, I, I, I)


def emits(S0, l1, l2, sym, i, j):
    """the ordered pair (i, j) gets a constraint: distinct samples, and not below the diagonal when the condition is declared symmetric"""
    return z3.And(S0.elt(l1, i) != S0.elt(l2, j), z3.Not(z3.And(i > j, sym)))


def cnt_defs(S0, l1, l2, sym):
    i, j = fresh('i', I), fresh('j', I)
    n1, n2 = S0.len(l1), S0.len(l2)
    c = lambda a_, b_: cnt(l1, l2, sym, a_, b_)
    return [c(0, 0) == 0,
            z3.ForAll([i, j], z3.Implies(z3.And(i >= 0, i < n1, j >= 0, j < n2), c(i, j + 1) == c(i, j) + z3.If(emits(S0, l1, l2, sym, i, j), 1, 0)), patterns=[c(i, j + 1)]),
            z3.ForAll([i], z3.Implies(z3.And(i >= 0, i < n1), c(i + 1, 0) == c(i, n2)), patterns=[c(i + 1, 0)])]


def two_made(S0, H, l1, l2, c, i, j, f, cname):
    return z3.And(c >= S0.alloc, c < H.alloc, H.cls(c) == tag('Constraint'),
                  H.fld('Constraint', 'gen0', c) == xof(S0, l1, i), H.fld('Constraint', 'gen1', c) == gof(S0, l1, i), H.fld('Constraint', 'gen2', c) == fof(S0, l1, i),
                  H.fld('Constraint', 'gen3', c) == xof(S0, l2, j), H.fld('Constraint', 'gen4', c) == gof(S0, l2, j), H.fld('Constraint', 'gen5', c) == fof(S0, l2, j),
                  z3.Not(H.fld_none('Constraint', 'name', c)),
                  H.fld('Constraint', 'name', c) == FMT[4](code(IC2), fid(S0, f), cname, label(S0, l1, i), label(S0, l2, j)))


def cell_ok(S0, H, a, L, n0, cell, i, j):
    """cell is what belongs at (i, j): the constraint of that ordered pair, which is also element n0 + cnt(i, j) of the class-constraint list; or the python 0"""
    f, l1, l2, cname, sym = a['self'].t, a['list_of_points_1'].t, a['list_of_points_2'].t, a['constraint_name'].t, a['symmetry'].t
    return z3.If(emits(S0, l1, l2, sym, i, j),
                 z3.And(cell == H.elt(L, n0 + cnt(l1, l2, sym, i, j)), cnt(l1, l2, sym, i, j) >= 0, two_made(S0, H, l1, l2, cell, i, j, f, cname)),
                 cell == ZERO_CELL)


def two_ens(S0, S, a, res):
    f, l1, l2, cname, sym = a['self'].t, a['list_of_points_1'].t, a['list_of_points_2'].t, a['constraint_name'].t, a['symmetry'].t
    L = S0.fld('Function', 'list_of_class_constraints', f)
    n1, n2, n0 = S0.len(l1), S0.len(l2), S0.len(L)
    i, j = fresh('i', I), fresh('j', I)
    tabs = S0.fld('Function', 'tables_of_constraints', f)
    key = Tup(One, Obj(cname))
    df = S.geti(tabs, key)
    cells, cols = S.fld('DataFrame', 'cells', df), S.fld('DataFrame', 'columns', df)
    idx = S.fld('DataFrame', 'index', df)
    return [('one_constraint_per_required_pair', z3.And(
                S.len(L) == n0 + cnt(l1, l2, sym, n1, 0), old_prefix_kept(S0, S, L),
                z3.ForAll([i, j], z3.Implies(z3.And(i >= 0, i < n1, j >= 0, j < n2, emits(S0, l1, l2, sym, i, j)), z3.And(
                    cnt(l1, l2, sym, i, j) >= 0, cnt(l1, l2, sym, i, j) < cnt(l1, l2, sym, n1, 0),
                    two_made(S0, S, l1, l2, S.elt(L, n0 + cnt(l1, l2, sym, i, j)), i, j, f, cname))))), 'property'),
            ('table_registered', z3.If(n1 >= 1, z3.And(
                S.has(tabs, key), df >= S0.alloc, df < S.alloc, S.cls(df) == tag('DataFrame'), S.fld('DataFrame', 'layout', df) == 2,
                z3.Not(S.fld_none('DataFrame', 'colname', df)), S.fld('DataFrame', 'colname', df) == FMT[1](code(ICF), fid(S0, f))),
                                       z3.And(S.dom(tabs) == S0.dom(tabs), S.A('valI')[tabs] == S0.A('valI')[tabs])), 'property'),
            ('table_cells', z3.Implies(n1 >= 1, z3.And(cells >= S0.alloc, S.len(cells) == n1, z3.ForAll([i, j], z3.Implies(z3.And(i >= 0, i < n1, j >= 0, j < n2), z3.And(
                S.len(S.elt(cells, i)) == n2, cell_ok(S0, S, a, L, n0, S.elt(S.elt(cells, i), j), i, j)))))), 'property'),
            ('table_labels', z3.Implies(n1 >= 1, z3.And(
                cols >= S0.alloc, S.len(cols) == n2, z3.ForAll([j], z3.Implies(z3.And(j >= 0, j < n2), S.elt(cols, j) == col_label(S0, l2, j))),
                z3.Not(S.fld_none('DataFrame', 'index', df)), idx >= S0.alloc, S.len(idx) == n1,
                z3.ForAll([i], z3.Implies(z3.And(i >= 0, i < n1), S.elt(idx, i) == col_label(S0, l1, i))))), 'property')]


def two_common(L_, i_now, j_now, inner):
    """facts shared by the invariants of the two loops; (i_now, j_now) is the next cell to be visited"""
    S0, H, a = L_.H0, L_.H, L_.args
    f, l1, l2, sym = a['self'].t, a['list_of_points_1'].t, a['list_of_points_2'].t, a['symmetry'].t
    L = S0.fld('Function', 'list_of_class_constraints', f)
    n0, n2 = S0.len(L), S0.len(l2)
    T = L_.var('table_of_constraints', 1).t
    i, j, i2, r = fresh('i', I), fresh('j', I), fresh('i2', I), fresh('r', I)
    row = lambda k: H.elt(T, k)
    c = lambda a_, b_: cnt(l1, l2, sym, a_, b_)
    before = lambda i_, j_: z3.Or(i_ < i_now, z3.And(i_ == i_now, j_ < j_now))
    out = [('table', z3.And(T >= S0.alloc, T < H.alloc, H.cls(T) == tag('list'), T != L, T != l1, T != l2, H.len(T) == i_now)),
           ('rows', z3.And(z3.ForAll([i], z3.Implies(z3.And(i >= 0, i < i_now), z3.And(row(i) >= S0.alloc, row(i) < H.alloc, H.cls(row(i)) == tag('list'), row(i) != T,
                                                                                        row(i) != L, H.len(row(i)) == n2)), patterns=[H.elt(T, i)]),
                           z3.ForAll([i, i2], z3.Implies(z3.And(i >= 0, i < i2, i2 < i_now), row(i) != row(i2))))),
           ('appended', z3.And(H.len(L) == n0 + c(i_now, j_now), c(i_now, j_now) >= 0, old_prefix_kept(S0, H, L))),
           ('cells', z3.ForAll([i, j], z3.Implies(z3.And(i >= 0, i < i_now, j >= 0, j < n2), cell_ok(S0, H, a, L, n0, H.elt(row(i), j), i, j)))),
           ('earlier_positions_below', z3.ForAll([i, j], z3.Implies(z3.And(i >= 0, j >= 0, j < n2, i < S0.len(l1), before(i, j), emits(S0, l1, l2, sym, i, j)),
                                                                    c(i, j) < c(i_now, j_now)))),
           ('function_untouched', z3.And(H.fld('Function', 'list_of_class_constraints', f) == L,
                                         H.fld('Function', 'tables_of_constraints', f) == S0.fld('Function', 'tables_of_constraints', f))),
           ('no_new_leaf', no_new_leaf(S0, H))]
    return out, (S0, H, a, L, n0, n2, T, c)


def two_outer(L_):
    out, _ = two_common(L_, L_.i, z3.IntVal(0), False)
    S0, H = L_.H0, L_.H
    T = L_.var('table_of_constraints', 1).t
    r, i = fresh('r', I), fresh('i', I)
    return out


def two_inner(L_):
    i_now = L_.outer(1)['i']
    out, (S0, H, a, L, n0, n2, T, c) = two_common(L_, i_now, L_.i, True)
    R = L_.var('row_of_constraints', 8).t
    j, k, r, i = fresh('j', I), fresh('k', I), fresh('r', I), fresh('i', I)
    out.append(('row', z3.And(R >= S0.alloc, R < H.alloc, H.cls(R) == tag('list'), R != T, R != L, H.len(R) == L_.i,
                              z3.ForAll([k], z3.Implies(z3.And(k >= 0, k < i_now), H.elt(T, k) != R)),
                              z3.ForAll([j], z3.Implies(z3.And(j >= 0, j < L_.i), cell_ok(S0, H, a, L, n0, H.elt(R, j), i_now, j))))))
    return out


def two_lemmas_inner(L_):
    a = L_.args
    l1, l2, sym = a['list_of_points_1'].t, a['list_of_points_2'].t, a['symmetry'].t
    i_now = L_.outer(1)['i']
    c = lambda a_, b_: cnt(l1, l2, sym, a_, b_)
    return [c(i_now, L_.i + 1) == c(i_now, L_.i) + z3.If(emits(L_.H0, l1, l2, sym, i_now, L_.i), 1, 0)]


def two_lemmas_outer(L_):
    a = L_.args
    l1, l2, sym = a['list_of_points_1'].t, a['list_of_points_2'].t, a['symmetry'].t
    c = lambda a_, b_: cnt(l1, l2, sym, a_, b_)
    return [c(L_.i + 1, 0) == c(L_.i, L_.H0.len(l2))]


def two_mods(inner):
    def mods(L_):
        Lc = L_.H0.fld('Function', 'list_of_class_constraints', L_.args['self'].t)
        T = L_.var('table_of_constraints', 1).t
        if inner:
            R = L_.var('row_of_constraints', 8).t
            return {n: (lambda r: z3.Or(r == Lc, r == R)) for n in ('len', 'eltI')}
        return {n: (lambda r: z3.Or(r == Lc, r == T)) for n in ('len', 'eltI')}
    return mods


contract(
    FP + 'add_constraints_from_two_lists_of_points',
    [('self', FT), ('list_of_points_1', TList(TRIP)), ('list_of_points_2', TList(TRIP)), ('constraint_name', TStr),
     ('set_class_constraint_i_j', T('callable', 'callable::class_constraint_2')), ('symmetry', TBool)],
    defaults={'symmetry': lambda: sx.vbool(False)},
    returns=TNone, requires=helper_requires(['list_of_points_1', 'list_of_points_2']), ensures=two_ens,
    defs=lambda S, a: cnt_defs(S, a['list_of_points_1'].t, a['list_of_points_2'].t, a['symmetry'].t),
    modifies=helper_modifies, touches=HELPER_TOUCH, mod_globals=['Constraint.counter'],
    loops={1: dict(inv=two_outer, lemmas=two_lemmas_outer, mods=two_mods(False)), 2: dict(inv=two_inner, lemmas=two_lemmas_inner, mods=two_mods(True))},
    local_types={'table_of_constraints': TList(TList(CT)), 'row_of_constraints': TList(CT), 1: TList(TList(CT)), 8: TList(CT)},
)
REG.by_key[FP + 'add_constraints_from_two_lists_of_points'].no_runtime = 'pandas objects; the bounded pair-helper harness (harness/pairs.py) is the run-time counterpart'
