"""Contract of PEP.solve (C14, C16, C13: every option of a solve reaches the internal solve under its own name, whichever back-end ends up being used).

`_solve_with_wrapper` is NOT verified here (skeleton obligations + the bounded harness): its contract below is ASSUMED and says only that its result is a
function SWW of its arguments, taken by parameter name.  `solve` is then proved to return SWW of exactly the options it was given, with a wrapper built for the
requested back-end when its package is found and licensed, for cvxpy otherwise."""
import z3
from .common import *          # noqa
from pyvc.symex import STR_LOWER, str_code, T

PEPP = 'PEPit/pep.py::PEP.'
PEPT, WT = TRef('PEP'), TRef('Wrapper')
KW = T('kwargs')
sx.FIELD_TYPES.update({'PEP.wrapper_name': TStr, 'PEP.wrapper': WT, 'Wrapper.made_from': TStr, 'Wrapper.verbose': TInt})

SWW = z3.Function('solve_with_wrapper', I, I, I, I, B, I, R, R, I, I)      # (problem, wrapper object, verbose, mode, heuristic is None, heuristic, eig, tol, solver options)
FOUND = z3.Function('package_found', I, B)
LICENSED = z3.Function('license_found', I, B)
CVXPY, MOSEK = z3.IntVal(str_code('cvxpy')), z3.IntVal(str_code('mosek'))


def _find_spec(eng, st, args, kw, e):
    name = args[0]
    if name.ty.k != 'str':
        raise sx.OutOfSubset('find_spec of %r' % (name.ty,))
    return sx.V(TOpt(TInt), fresh('spec', I), none=z3.Not(FOUND(name.t)))


REG.externals[('attr', ('attr', ('module', 'importlib'), 'util'), 'find_spec')] = _find_spec
REG.module_globals['WRAPPERS'] = lambda eng, st: sx.V(T('calltable'), py=('callable::wrapper_class', lambda name: z3.Or(name == CVXPY, name == MOSEK)))


def sww(S, self_, w, a):
    h = a['dimension_reduction_heuristic']
    return SWW(self_, w, a['verbose'].t, a['return_primal_or_dual'].t, h.none, h.t, a['eig_regularization'].t, a['tol_dimension_reduction'].t, a['kwargs'].t)


contract('callable::wrapper_class', [('name', TStr), ('verbose', TInt)], returns=WT, assumed=True,
         ensures=lambda S0, S, a, res: [('fresh', z3.And(res.t >= S0.alloc, res.t < S.alloc, S.cls(res.t) == tag('Wrapper'))),
                                        ('for', z3.And(S.fld('Wrapper', 'made_from', res.t) == a['name'].t, S.fld('Wrapper', 'verbose', res.t) == a['verbose'].t))],
         touches=lambda S, a: ['cls', 'f:Wrapper.made_from', 'f:Wrapper.verbose'],
         note='assumed: WRAPPERS[name](verbose=v) builds a new wrapper for that back-end with that verbosity')
contract('PEPit/wrapper.py::Wrapper.check_license', [('self', WT)], returns=TBool, pure=True, assumed=True,
         ensures=lambda S0, S, a, res: [('license', res.t == LICENSED(S0.fld('Wrapper', 'made_from', a['self'].t)))],
         note='assumed: the licence test depends on the back-end only')

OPTS = [('verbose', TInt), ('return_primal_or_dual', TStr), ('dimension_reduction_heuristic', TOpt(TStr)), ('eig_regularization', TReal), ('tol_dimension_reduction', TReal)]
DEFAULTS = {'verbose': lambda: sx.vint(1), 'return_primal_or_dual': lambda: sx.vstr('dual'), 'dimension_reduction_heuristic': lambda: sx.VNONE,
            'eig_regularization': lambda: sx.vreal(1e-3), 'tol_dimension_reduction': lambda: sx.vreal(1e-4)}

contract(PEPP + '_solve_with_wrapper', [('self', PEPT), ('wrapper', WT)] + OPTS + [('kwargs', KW)], returns=TAny, assumed=True, defaults=DEFAULTS,
         ensures=lambda S0, S, a, res: [('value', res.t == sww(S0, a['self'].t, a['wrapper'].t, a))],
         note='ASSUMED (not verified): the internal solve is a function of its arguments; its effects on the model are not described - solve returns right after it')


def solve_ens(S0, S, a, res):
    p = a['self'].t
    n = STR_LOWER(a['wrapper'].t)
    w = S.fld('PEP', 'wrapper', p)
    backend = z3.If(z3.And(FOUND(n), LICENSED(n)), n, CVXPY)
    return [
        ('every_option_reaches_the_internal_solve', res.t == sww(S0, p, w, a), 'property'),
        ('new_wrapper', z3.And(w >= S0.alloc, w < S.alloc, S.cls(w) == tag('Wrapper'), S.fld('Wrapper', 'verbose', w) == a['verbose'].t), 'property'),
        ('requested_backend_or_cvxpy', z3.And(S.fld('Wrapper', 'made_from', w) == backend, S.fld('PEP', 'wrapper_name', p) == backend), 'property'),
    ]


contract(PEPP + 'solve', [('self', PEPT), ('wrapper', TStr), ('return_primal_or_dual', TStr), ('verbose', TInt), ('dimension_reduction_heuristic', TOpt(TStr)),
                          ('eig_regularization', TReal), ('tol_dimension_reduction', TReal), ('kwargs', KW)], returns=TAny,
         defaults=dict(DEFAULTS, wrapper=lambda: sx.vstr('cvxpy')),
         requires=lambda S, a: [('known_backend', z3.Or(STR_LOWER(a['wrapper'].t) == CVXPY, STR_LOWER(a['wrapper'].t) == MOSEK))],
         ensures=solve_ens,
         modifies=lambda S, a: {'f:PEP.wrapper_name': lambda r: r == a['self'].t, 'f:PEP.wrapper': lambda r: r == a['self'].t},
         touches=lambda S, a: ['cls', 'f:Wrapper.made_from', 'f:Wrapper.verbose', 'f:PEP.wrapper_name', 'f:PEP.wrapper'],
         note='the effects of the internal solve are not part of this contract')
REG.by_key[PEPP + 'solve'].no_runtime = 'clauses over uninterpreted functions of the internal solve; the option scenarios of C14 / C16 (fall-back path, tolerances, modes) are the run-time counterpart'
