"""Contracts of PEPit/function.py (C07: oracle bookkeeping on LEAF functions; composite functions are covered by the bounded
call-sequence harness).  Representation invariant I1: stored samples are pruned."""
import z3
from .common import *          # noqa
from . import point as _p, expression as _e, dict_operations as _d     # noqa

FP = 'PEPit/function.py::Function.'
FT, PT, ET = TRef('Function'), TRef('Point'), TRef('Expression')
TRIP = THeapTuple(PT, PT, ET)
sx.FIELD_TYPES.update({
    'Function.list_of_points': TList(TRIP), 'Function.list_of_stationary_points': TList(TRIP),
    'Function._is_leaf': TBool, 'Function.reuse_gradient': TBool,
})


def t0(S, t): return S.fld(None, 't0', t)
def t1(S, t): return S.fld(None, 't1', t)
def t2(S, t): return S.fld(None, 't2', t)


def same_point(S, x, y):
    """two points denote the same combination (same coefficient map)"""
    return forall_k(lambda k: coeff(S, 'Point', x, k) == coeff(S, 'Point', y, k))


def pruned_obj(S, cls, r):
    d = S.dd(cls, r)
    return forall_k(lambda k: z3.Implies(S.has(d, k), S.get(d, k) != 0))


def samples_wf(S, f):
    """I1 on the stored samples of f: allocated triplets whose points are pruned"""
    L = S.fld('Function', 'list_of_points', f)
    i = fresh('i', I)
    t = S.elt(L, i)
    return z3.ForAll([i], z3.Implies(z3.And(i >= 0, i < S.len(L)), z3.And(
        t >= 0, t < S.alloc, S.cls(t) == tag('tuple'), t0(S, t) >= 0, t0(S, t) < S.alloc, isinstance_f(S.A('cls'), t0(S, t), 'Point'),
        pruned_obj(S, 'Point', t0(S, t)))), patterns=[S.elt(L, i)])


# ------------------------------------------------------------------------------- _is_already_evaluated_on_point
def found_ens(S0, S, a, res):
    f, x = a['self'].t, a['point'].t
    L = S0.fld('Function', 'list_of_points', f)
    i, j = fresh('i', I), fresh('j', I)
    hit = lambda idx: same_point(S0, t0(S0, S0.elt(L, idx)), x)
    return [
        ('none_iff_never_evaluated', res.none == z3.Not(z3.Exists([i], z3.And(i >= 0, i < S0.len(L), hit(i)))), 'property'),
        ('first_sample_at_that_point', z3.Implies(z3.Not(res.none), z3.Exists([i], z3.And(
            i >= 0, i < S0.len(L), hit(i), z3.ForAll([j], z3.Implies(z3.And(j >= 0, j < i), z3.Not(hit(j)))),
            res.items[0].t == t1(S0, S0.elt(L, i)), res.items[1].t == t2(S0, S0.elt(L, i))))), 'property'),
    ]


def found_inv(L):
    S0 = L.H0
    f, x = L.args['self'].t, L.args['point'].t
    Lp = S0.fld('Function', 'list_of_points', f)
    q = L.var('point_decomposition_dict', 0).t
    j = fresh('j', I)
    d = S0.dd('Point', x)
    return [('pruned_query', z3.And(q >= S0.alloc, q < L.H.alloc,
                                    forall_k(lambda k: L.H.has(q, k) == z3.And(S0.has(d, k), S0.get(d, k) != 0)),
                                    forall_k(lambda k: z3.Implies(L.H.has(q, k), L.H.get(q, k) == S0.get(d, k))))),
            ('not_yet', z3.ForAll([j], z3.Implies(z3.And(j >= 0, j < L.i), z3.Not(same_point(S0, t0(S0, S0.elt(Lp, j)), x)))))]


contract(
    FP + '_is_already_evaluated_on_point', [('self', FT), ('point', PT)], returns=TOpt(TTuple(PT, ET)),
    requires=lambda S, a: [('samples', samples_wf(S, a['self'].t))],
    ensures=found_ens, touches=lambda S, a: ['dom', 'valR', 'cls'],
    loops={1: dict(inv=found_inv, mods=lambda L: {})},
)


# ------------------------------------------------------------------------------------------------- add_point (leaf function)
def pruned_copy(S0, S, cls, r):
    """the object's dict was rebound to a fresh pruned copy: same coefficients, no zero entry"""
    d = S.dd(cls, r)
    return z3.And(d >= S0.alloc, d < S.alloc, S.cls(d) == tag('dict'),
                  forall_k(lambda k: coeff(S, cls, r, k) == coeff(S0, cls, r, k)),
                  forall_k(lambda k: S.has(d, k) == (coeff(S0, cls, r, k) != 0)))


def list_appended(S0, S, L, x):
    i = fresh('i', I)
    return z3.And(S.len(L) == S0.len(L) + 1, S.elt(L, S0.len(L)) == x,
                  z3.ForAll([i], z3.Implies(z3.And(i >= 0, i < S0.len(L)), S.elt(L, i) == S0.elt(L, i))))


def list_same(S0, S, L):
    i = fresh('i', I)
    return z3.And(S.len(L) == S0.len(L), z3.ForAll([i], z3.Implies(z3.And(i >= 0, i < S0.len(L)), S.elt(L, i) == S0.elt(L, i))))


def is_zero_point(S, g):
    return forall_k(lambda k: coeff(S, 'Point', g, k) == 0)


def add_point_ens(S0, S, a, res):
    f = a['self'].t
    x, g, v = [i.t for i in a['triplet'].items]
    Lp, Ls = S0.fld('Function', 'list_of_points', f), S0.fld('Function', 'list_of_stationary_points', f)
    t = S.elt(Lp, S0.len(Lp))
    return [
        ('recorded', z3.And(list_appended(S0, S, Lp, t), t >= S0.alloc, t < S.alloc, S.cls(t) == tag('tuple'),
                            t0(S, t) == x, t1(S, t) == g, t2(S, t) == v), 'property'),
        ('stationary_iff_zero_gradient', z3.If(is_zero_point(S0, g), list_appended(S0, S, Ls, t), list_same(S0, S, Ls)), 'property'),
        ('pruned.point', pruned_copy(S0, S, 'Point', x), 'property'),
        ('pruned.gradient', pruned_copy(S0, S, 'Point', g), 'property'),
        ('pruned.value', pruned_copy(S0, S, 'Expression', v), 'property'),
        ('same_lists', z3.And(S.fld('Function', 'list_of_points', f) == Lp, S.fld('Function', 'list_of_stationary_points', f) == Ls), 'aux'),
    ]


def add_point_mods(S, a):
    f = a['self'].t
    x, g, v = [i.t for i in a['triplet'].items]
    Lp, Ls = S.fld('Function', 'list_of_points', f), S.fld('Function', 'list_of_stationary_points', f)
    return {'f:decomposition_dict': lambda r: z3.Or(r == x, r == g, r == v),
            'len': lambda r: z3.Or(r == Lp, r == Ls), 'eltI': lambda r: z3.Or(r == Lp, r == Ls)}


contract(
    FP + 'add_point', [('self', FT), ('triplet', TTuple(PT, PT, ET))], returns=TNone,
    requires=lambda S, a: [('leaf_function', S.fld('Function', '_is_leaf', a['self'].t)),
                           ('distinct_lists', S.fld('Function', 'list_of_points', a['self'].t) != S.fld('Function', 'list_of_stationary_points', a['self'].t)),
                           ('value_is_not_a_point', z3.And(a['triplet'].items[2].t != a['triplet'].items[0].t, a['triplet'].items[2].t != a['triplet'].items[1].t))],
    ensures=add_point_ens, modifies=add_point_mods,
    touches=lambda S, a: ['f:decomposition_dict', 'len', 'eltI', 'dom', 'valR', 'cls', 'f:t0', 'f:t1', 'f:t2'],
    array_sorts={'f:t0': IA_I, 'f:t1': IA_I, 'f:t2': IA_I},
    note='leaf functions only (requires _is_leaf): the composite branch is covered by the bounded call-sequence harness',
)


# ------------------------------------------------------------------------------ stationary_point / fixed_point (leaf function)
def private_lists(S, f):
    Lp, Ls = S.fld('Function', 'list_of_points', f), S.fld('Function', 'list_of_stationary_points', f)
    regs = [S.g('Point.list_of_leaf_points'), S.g('Expression.list_of_leaf_expressions')]
    return z3.And(Lp != Ls, *[z3.And(Lp != r, Ls != r) for r in regs])


def fresh_leaf(S0, S, cls, r):
    return z3.And(r >= S0.alloc, r < S.alloc, S.cls(r) == tag(cls), S.fld(cls, '_is_leaf', r))


def sp_ens(S0, S, a, res):
    f = a['self'].t
    Lp, Ls = S0.fld('Function', 'list_of_points', f), S0.fld('Function', 'list_of_stationary_points', f)
    t = S.elt(Lp, S0.len(Lp))
    return [('new_leaf_point', fresh_leaf(S0, S, 'Point', res.t), 'property'),
            ('recorded', z3.And(list_appended(S0, S, Lp, t), t0(S, t) == res.t, fresh_leaf(S0, S, 'Expression', t2(S, t))), 'property'),
            ('zero_gradient', z3.And(t1(S, t) >= S0.alloc, is_zero_point(S, t1(S, t))), 'property'),
            ('stationary', list_appended(S0, S, Ls, t), 'property')]


SP_TOUCH = lambda S, a: sorted(set(['len', 'eltI', 'dom', 'valR', 'cls', 'f:t0', 'f:t1', 'f:t2'] + obj_arrays('Point') + obj_arrays('Expression')))


def sp_mods(S, a):
    f = a['self'].t
    Lp, Ls = S.fld('Function', 'list_of_points', f), S.fld('Function', 'list_of_stationary_points', f)
    regs = [S.g('Point.list_of_leaf_points'), S.g('Expression.list_of_leaf_expressions')]
    pred = lambda r: z3.Or(r == Lp, r == Ls, *[r == x for x in regs])
    return {'len': pred, 'eltI': pred}


contract(
    FP + 'stationary_point', [('self', FT), ('return_gradient_and_function_value', TBool), ('name', TOpt(TStr))], returns=PT,
    defaults={'return_gradient_and_function_value': lambda: sx.vbool(False), 'name': lambda: sx.VNONE},
    requires=lambda S, a: [('leaf_function', S.fld('Function', '_is_leaf', a['self'].t)), ('private_lists', private_lists(S, a['self'].t)),
                           ('point_only', z3.Not(a['return_gradient_and_function_value'].t))],
    ensures=sp_ens, modifies=sp_mods, touches=SP_TOUCH, array_sorts={'f:t0': IA_I, 'f:t1': IA_I, 'f:t2': IA_I},
    mod_globals=['Point.counter', 'Expression.counter'],
)


def fp_ens(S0, S, a, res):
    f = a['self'].t
    Lp, Ls = S0.fld('Function', 'list_of_points', f), S0.fld('Function', 'list_of_stationary_points', f)
    t = S.elt(Lp, S0.len(Lp))
    x, g, v = [i.t for i in res.items]
    return [('new_leaves', z3.And(fresh_leaf(S0, S, 'Point', x), fresh_leaf(S0, S, 'Expression', v)), 'property'),
            ('image_is_the_point', g == x, 'property'),
            ('recorded', z3.And(list_appended(S0, S, Lp, t), t0(S, t) == x, t1(S, t) == x, t2(S, t) == v), 'property'),
            ('not_stationary', list_same(S0, S, Ls), 'aux')]


contract(
    FP + 'fixed_point', [('self', FT), ('name', TOpt(TStr))], returns=TTuple(PT, PT, ET),
    defaults={'name': lambda: sx.VNONE},
    requires=lambda S, a: [('leaf_function', S.fld('Function', '_is_leaf', a['self'].t)), ('private_lists', private_lists(S, a['self'].t))],
    ensures=fp_ens, modifies=sp_mods, touches=SP_TOUCH, array_sorts={'f:t0': IA_I, 'f:t1': IA_I, 'f:t2': IA_I},
    mod_globals=['Point.counter', 'Expression.counter'],
)


# ----------------------------------------------------------------------------------- oracle / value / (sub)gradient (leaf function)
def hit(S, L, idx, x):
    return same_point(S, t0(S, S.elt(L, idx)), x)


def some_hit(S, L, x):
    i = fresh('i', I)
    return z3.Exists([i], z3.And(i >= 0, i < S.len(L), hit(S, L, i, x)))


def at_first_hit(S, L, x, body):
    """body(t) holds for the FIRST stored sample t whose point denotes the same combination as x (vacuous without such a sample)"""
    i, j = fresh('i', I), fresh('j', I)
    return z3.ForAll([i], z3.Implies(z3.And(i >= 0, i < S.len(L), hit(S, L, i, x), z3.ForAll([j], z3.Implies(z3.And(j >= 0, j < i), z3.Not(hit(S, L, j, x))))),
                                     body(S.elt(L, i))))


def recorded_sample(S0, S, f, x, g, v):
    Lp = S0.fld('Function', 'list_of_points', f)
    t = S.elt(Lp, S0.len(Lp))
    return z3.And(list_appended(S0, S, Lp, t), t >= S0.alloc, t < S.alloc, t0(S, t) == x, t1(S, t) == g, t2(S, t) == v)


def oracle_ens(S0, S, a, res):
    f, x = a['self'].t, a['point'].t
    g, v = res.items[0].t, res.items[1].t
    Lp, Ls = S0.fld('Function', 'list_of_points', f), S0.fld('Function', 'list_of_stationary_points', f)
    reuse = S0.fld('Function', 'reuse_gradient', f)
    was = some_hit(S0, Lp, x)
    return [
        ('one_value', at_first_hit(S0, Lp, x, lambda t: v == t2(S0, t)), 'property'),
        ('differentiable.same_gradient', z3.Implies(reuse, at_first_hit(S0, Lp, x, lambda t: g == t1(S0, t))), 'property'),
        ('differentiable.nothing_recorded', z3.Implies(z3.And(reuse, was), z3.And(list_same(S0, S, Lp), list_same(S0, S, Ls))), 'property'),
        ('otherwise.new_subgradient', z3.Implies(z3.Not(z3.And(reuse, was)), fresh_leaf(S0, S, 'Point', g)), 'property'),
        ('otherwise.recorded', z3.Implies(z3.Not(z3.And(reuse, was)), recorded_sample(S0, S, f, x, g, v)), 'property'),
        ('first_evaluation.new_value', z3.Implies(z3.Not(was), fresh_leaf(S0, S, 'Expression', v)), 'property'),
        ('queried_point_keeps_its_coefficients', forall_k(lambda k: coeff(S, 'Point', x, k) == coeff(S0, 'Point', x, k)), 'property'),
        ('same_lists', z3.And(S.fld('Function', 'list_of_points', f) == Lp, S.fld('Function', 'list_of_stationary_points', f) == Ls,
                              S.fld('Function', 'reuse_gradient', f) == reuse, S.fld('Function', '_is_leaf', f)), 'aux'),
    ]


def oracle_mods(S, a):
    f, x = a['self'].t, a['point'].t
    Lp, Ls = S.fld('Function', 'list_of_points', f), S.fld('Function', 'list_of_stationary_points', f)
    regs = [S.g('Point.list_of_leaf_points'), S.g('Expression.list_of_leaf_expressions')]
    pred = lambda r: z3.Or(r == Lp, r == Ls, *[r == y for y in regs])
    i = fresh('i', I)
    # the dictionaries of self (pruned), of the queried point and of the stored value handed out again are rebound to pruned copies (same coefficients)
    stored_value = lambda r: z3.Exists([i], z3.And(i >= 0, i < S.len(Lp), r == t2(S, S.elt(Lp, i))))
    return {'len': pred, 'eltI': pred, 'f:decomposition_dict': lambda r: z3.Or(r == f, r == x, stored_value(r))}


def oracle_req(S, a):
    f = a['self'].t
    return [('leaf_function', S.fld('Function', '_is_leaf', f)), ('private_lists', private_lists(S, f)), ('samples', samples_wf(S, f)),
            ('own_weight_one', z3.And(S.dd('Function', f) >= 0, S.dd('Function', f) < S.alloc, S.cls(S.dd('Function', f)) == tag('dict'),
                                      forall_k(lambda k: S.has(S.dd('Function', f), k) == (k == Obj(f))), S.get(S.dd('Function', f), Obj(f)) == 1))]


# the three-way classification of the terms of self at a point; for a LEAF function the only term is the function itself
FW = THeapTuple(FT, TReal)


def sep_ens(S0, S, a, res):
    f, x = a['self'].t, a['point'].t
    Lp = S0.fld('Function', 'list_of_points', f)
    reuse = S0.fld('Function', 'reuse_gradient', f)
    was = some_hit(S0, Lp, x)
    n0, n1, n2 = [S.len(it.t) for it in res.items]
    return [
        ('fresh_lists', z3.And(*[z3.And(it.t >= S0.alloc, it.t < S.alloc) for it in res.items]), 'aux'),
        ('need_nothing', n0 == z3.If(z3.And(was, reuse), 1, 0), 'property'),
        ('need_gradient_only', n1 == z3.If(z3.And(was, z3.Not(reuse)), 1, 0), 'property'),
        ('need_gradient_and_value', n2 == z3.If(was, 0, 1), 'property'),
    ]


def sep_inv(L):
    S0 = L.H0
    f, x = L.args['self'].t, L.args['point'].t
    Lp = S0.fld('Function', 'list_of_points', f)
    reuse = S0.fld('Function', 'reuse_gradient', f)
    was = some_hit(S0, Lp, x)
    done = L.seen[Obj(f)]
    ls = [L.var(i, i).t for i in range(3)]
    return [('local_lists', z3.And(z3.Distinct(*ls), *[z3.And(l >= S0.alloc, l < L.H.alloc, L.H.cls(l) == tag('list')) for l in ls])),
            ('need_nothing', L.H.len(ls[0]) == z3.If(z3.And(done, was, reuse), 1, 0)),
            ('need_gradient_only', L.H.len(ls[1]) == z3.If(z3.And(done, was, z3.Not(reuse)), 1, 0)),
            ('need_gradient_and_value', L.H.len(ls[2]) == z3.If(z3.And(done, z3.Not(was)), 1, 0))]


contract(
    FP + '_separate_leaf_functions_regarding_their_need_on_point', [('self', FT), ('point', PT)], returns=TTuple(TList(FW), TList(FW), TList(FW)),
    requires=lambda S, a: oracle_req(S, a), ensures=sep_ens,
    touches=lambda S, a: ['len', 'eltI', 'cls', 'dom', 'valR', 'f:t0', 'f:t1'],
    local_types={0: TList(FW), 1: TList(FW), 2: TList(FW), 3: 'Function'},
    loops={1: dict(inv=sep_inv, mods=lambda L: (lambda ls: {'len': lambda r: z3.Or(*[r == l for l in ls]), 'eltI': lambda r: z3.Or(*[r == l for l in ls])})([L.var(i, i).t for i in range(3)]))},
    note='leaf functions only: the classification of the single term {self: 1}',
)

OR_TOUCH = lambda S, a: sorted(set(SP_TOUCH(S, a) + ['valI']))
OR_SORTS = {'f:t0': IA_I, 'f:t1': IA_I, 'f:t2': IA_I}

contract(
    FP + 'oracle', [('self', FT), ('point', PT)], returns=TTuple(PT, ET),
    requires=oracle_req, ensures=oracle_ens, modifies=oracle_mods, touches=OR_TOUCH, array_sorts=OR_SORTS,
    mod_globals=['Point.counter', 'Expression.counter'],
    # the two loops combine the samples of the TERMS of a sum: for a leaf function they are never entered (its only term needs what the function needs)
    loops={n: dict(inv=lambda L: [('not_entered_by_a_leaf_function', z3.BoolVal(False))], mods=lambda L: {}) for n in (1, 2)},
    local_types={'function': 'Function'},
    note='leaf functions only (requires _is_leaf and the constructor\'s own decomposition {self: 1}): sums of functions are covered by the bounded call-sequence harness',
)


def value_ens(S0, S, a, res):
    f, x, v = a['self'].t, a['point'].t, res.t
    Lp, Ls = S0.fld('Function', 'list_of_points', f), S0.fld('Function', 'list_of_stationary_points', f)
    was = some_hit(S0, Lp, x)
    return [
        ('one_value', at_first_hit(S0, Lp, x, lambda t: v == t2(S0, t)), 'property'),
        ('evaluated.nothing_recorded', z3.Implies(was, z3.And(list_same(S0, S, Lp), list_same(S0, S, Ls))), 'property'),
        ('first_evaluation.new_value', z3.Implies(z3.Not(was), fresh_leaf(S0, S, 'Expression', v)), 'property'),
        ('first_evaluation.recorded', z3.Implies(z3.Not(was), z3.And(S.len(Lp) == S0.len(Lp) + 1, t0(S, S.elt(Lp, S0.len(Lp))) == x, t2(S, S.elt(Lp, S0.len(Lp))) == v)), 'property'),
    ]


def named_mods(cls):
    def mods(S, a):
        m = oracle_mods(S, a)
        m['f:name'] = lambda r: z3.BoolVal(True)          # the name of the returned object (old or new): set when a name is given
        m['f:name?none'] = lambda r: z3.BoolVal(True)
        return m
    return mods


for _n in ('value', '__call__'):
    contract(
        FP + _n, [('self', FT), ('point', PT)] + ([('name', TOpt(TStr))] if _n == 'value' else []), returns=ET,
        defaults={'name': lambda: sx.VNONE} if _n == 'value' else {},
        requires=oracle_req, ensures=value_ens, modifies=named_mods('Expression'), touches=OR_TOUCH, array_sorts=OR_SORTS,
        mod_globals=['Point.counter', 'Expression.counter'], note='leaf functions only',
    )


def grad_ens(S0, S, a, res):
    f, x, g = a['self'].t, a['point'].t, res.t
    Lp, Ls = S0.fld('Function', 'list_of_points', f), S0.fld('Function', 'list_of_stationary_points', f)
    reuse = S0.fld('Function', 'reuse_gradient', f)
    was = some_hit(S0, Lp, x)
    tn = S.elt(Lp, S0.len(Lp))
    return [
        ('differentiable.same_gradient', z3.Implies(reuse, at_first_hit(S0, Lp, x, lambda t: g == t1(S0, t))), 'property'),
        ('differentiable.nothing_recorded', z3.Implies(z3.And(reuse, was), z3.And(list_same(S0, S, Lp), list_same(S0, S, Ls))), 'property'),
        ('otherwise.new_subgradient', z3.Implies(z3.Not(z3.And(reuse, was)), fresh_leaf(S0, S, 'Point', g)), 'property'),
        ('otherwise.recorded', z3.Implies(z3.Not(z3.And(reuse, was)), z3.And(S.len(Lp) == S0.len(Lp) + 1, t0(S, tn) == x, t1(S, tn) == g)), 'property'),
        ('otherwise.one_value', z3.Implies(z3.Not(z3.And(reuse, was)), at_first_hit(S0, Lp, x, lambda t: t2(S, tn) == t2(S0, t))), 'property'),
    ]


for _n in ('subgradient', 'gradient'):
    contract(
        FP + _n, [('self', FT), ('point', PT), ('name', TOpt(TStr))], returns=PT, defaults={'name': lambda: sx.VNONE},
        requires=oracle_req, ensures=grad_ens, modifies=named_mods('Point'), touches=OR_TOUCH, array_sorts=OR_SORTS,
        mod_globals=['Point.counter', 'Expression.counter'], note='leaf functions only',
    )


# ----------------------------------------------------------------------------------------- constructor and operators (weights)
sx.FIELD_TYPES.update({'Function.tables_of_constraints': TDict(TInt), 'Function.name': TOpt(TStr)})
FLISTS = ['list_of_stationary_points', 'list_of_points', 'list_of_constraints', 'list_of_psd', 'list_of_class_constraints', 'list_of_class_psd']
F_ARRAYS = ['f:Function.%s' % n for n in FLISTS] + ['f:Function.tables_of_constraints', 'f:Function._is_leaf', 'f:Function.reuse_gradient', 'f:decomposition_dict',
                                                    'f:counter', 'f:counter?none', 'f:Function.name', 'f:Function.name?none']


def fcoeff(S, f, k): return S.coeff('Function', f, k)
def fhas(S, f, k): return S.hask('Function', f, k)


def finit_ens(S0, S, a, res):
    s, leaf = a['self'].t, a['is_leaf'].t
    d = S.dd('Function', s)
    lists = [S.fld('Function', n, s) for n in FLISTS]
    reg = S0.g('Function.list_of_functions')
    return [
        ('flags', z3.And(S.fld('Function', '_is_leaf', s) == leaf, S.fld('Function', 'reuse_gradient', s) == a['reuse_gradient'].t), 'property'),
        ('registered', list_appended(S0, S, reg, s), 'aux'),
        ('leaf.dict', z3.Implies(leaf, z3.And(d >= S0.alloc, S.cls(d) == tag('dict'), forall_k(lambda k: S.has(d, k) == (k == Obj(s))), S.get(d, Obj(s)) == 1)), 'property'),
        ('leaf.counter', z3.Implies(leaf, z3.And(z3.Not(S.fld_none('Function', 'counter', s)), S.fld('Function', 'counter', s) == S0.g('Function.counter'),
                                                 S.g('Function.counter') == S0.g('Function.counter') + 1)), 'aux'),
        ('nonleaf', z3.Implies(z3.Not(leaf), z3.And(d == a['decomposition_dict'].t, S.fld_none('Function', 'counter', s), S.g('Function.counter') == S0.g('Function.counter'))), 'property'),
        ('fresh_empty_lists', z3.And(*[z3.And(L >= S0.alloc, L < S.alloc, S.cls(L) == tag('list'), S.len(L) == 0) for L in lists] + [z3.Distinct(*lists)]), 'property'),
    ]


def finit_mods(S0, a):
    s = a['self'].t
    m = {n: (lambda r: r == s) for n in F_ARRAYS}
    reg = S0.g('Function.list_of_functions')
    m['len'] = lambda r: r == reg
    m['eltI'] = lambda r: r == reg
    return m


contract(
    FP + '__init__', [('self', FT), ('is_leaf', TBool), ('decomposition_dict', TOpt(CDict)), ('reuse_gradient', TBool), ('name', TOpt(TStr))],
    defaults={'is_leaf': lambda: sx.vbool(True), 'decomposition_dict': lambda: sx.VNONE, 'reuse_gradient': lambda: sx.vbool(False), 'name': lambda: sx.VNONE},
    requires=lambda S, a: [('registry_not_self', S.g('Function.list_of_functions') != a['self'].t)],
    raises=[('*', lambda S, a: z3.Or(z3.And(a['is_leaf'].t, z3.Not(a['decomposition_dict'].none)), z3.And(z3.Not(a['is_leaf'].t), a['decomposition_dict'].none)))],
    ensures=finit_ens, modifies=finit_mods,
    touches=lambda S, a: sorted(set(F_ARRAYS + ['len', 'eltI', 'dom', 'valR', 'valI', 'cls'])), mod_globals=['Function.counter'],
)

F_TOUCH = lambda S, a: sorted(set(F_ARRAYS + ['len', 'eltI', 'dom', 'valR', 'valI', 'cls']))
F_MODS = lambda S, a: {'len': lambda r: r == S.g('Function.list_of_functions'), 'eltI': lambda r: r == S.g('Function.list_of_functions')}
FOTHER = {'other': [Scalar, PT, TAny]}


def new_function(S0, S, res):
    d = S.dd('Function', res.t)
    return [('res.fresh', z3.And(res.t >= S0.alloc, res.t < S.alloc, S.cls(res.t) == tag('Function')), 'property'),
            ('res.nonleaf', z3.Not(S.fld('Function', '_is_leaf', res.t)), 'property'),
            ('res.own_dict', z3.And(d >= S0.alloc, d < S.alloc, S.cls(d) == tag('dict')), 'property'),
            ('res.no_samples', z3.And(S.len(S.fld('Function', 'list_of_points', res.t)) == 0, S.fld('Function', 'list_of_points', res.t) >= S0.alloc), 'aux')]


def is_fn(v): return v.ty.k == 'ref' and v.ty.a[0] == 'Function'


def lin_f(sgn):
    def ens(S0, S, a, res):
        out = new_function(S0, S, res)
        if is_fn(a['other']):
            s, o = a['self'].t, a['other'].t
            out += [('weights', forall_k(lambda k: fcoeff(S, res.t, k) == fcoeff(S0, s, k) + sgn * fcoeff(S0, o, k)), 'property'),
                    ('terms_kept', forall_k(lambda k: fhas(S, res.t, k) == z3.Or(fhas(S0, s, k), fhas(S0, o, k))), 'aux'),
                    ('differentiable_iff_both', S.fld('Function', 'reuse_gradient', res.t) == z3.And(S0.fld('Function', 'reuse_gradient', s), S0.fld('Function', 'reuse_gradient', o)), 'property')]
        return out
    return ens


for _n, _s in (('__add__', 1), ('__sub__', -1)):
    contract(FP + _n, [('self', FT), ('other', FT)], variants=FOTHER, returns=FT, raises=[('*', lambda S, a: z3.Not(inst(S, a['other'], 'Function')))],
             ensures=lin_f(_s), modifies=F_MODS, touches=F_TOUCH, mod_globals=['Function.counter'])


def scale_f(factor):
    def ens(S0, S, a, res):
        out = new_function(S0, S, res)
        c = factor(a)
        if c is not None:
            s = a['self'].t
            out += [('weights', forall_k(lambda k: c(fcoeff(S, res.t, k)) == fcoeff(S0, s, k)) if factor is _div else
                     forall_k(lambda k: fcoeff(S, res.t, k) == c * fcoeff(S0, s, k)), 'property'),
                    ('terms_kept', forall_k(lambda k: fhas(S, res.t, k) == fhas(S0, s, k)), 'aux'),
                    ('differentiability_kept', S.fld('Function', 'reuse_gradient', res.t) == S0.fld('Function', 'reuse_gradient', s), 'property')]
        return out
    return ens


def _mulf(a): return scalar_term(a['other']) if a['other'].ty.k in ('real', 'int') else None
def _negf(a): return z3.RealVal(-1)
def _div(a): return (lambda x: x * scalar_term(a['denominator'])) if a['denominator'].ty.k in ('real', 'int') else None


def frmul_loop(L):
    new = L.var('new_decomposition_dict', 0).t
    d = L.H0.dd('Function', L.args['self'].t)
    return [('new_local', z3.And(new >= L.H0.alloc, new < L.H.alloc, L.H.cls(new) == tag('dict'))),
            ('has', forall_k(lambda k: L.H.has(new, k) == L.seen[k])),
            ('val', forall_k(lambda k: z3.Implies(L.H.has(new, k), L.H.get(new, k) == L.H0.get(d, k) * scalar_term(L.args['other']))))]


for _n in ('__rmul__', '__mul__'):
    contract(FP + _n, [('self', FT), ('other', Scalar)], variants={'other': [FT, PT, TAny]}, returns=FT,
             raises=[('*', lambda S, a: z3.Not(is_scalar(S, a['other'])))], ensures=scale_f(_mulf), modifies=F_MODS, touches=F_TOUCH, mod_globals=['Function.counter'],
             loops={1: dict(inv=frmul_loop, mods=lambda L: {'dom': lambda r: r == L.var('new_decomposition_dict', 0).t,
                                                             'valR': lambda r: r == L.var('new_decomposition_dict', 0).t})} if _n == '__rmul__' else {})
contract(FP + '__neg__', [('self', FT)], returns=FT, ensures=scale_f(_negf), modifies=F_MODS, touches=F_TOUCH, mod_globals=['Function.counter'])
contract(FP + '__truediv__', [('self', FT), ('denominator', Scalar)], variants={'denominator': [FT, TAny]}, returns=FT,
         raises=[('*', lambda S, a: z3.Or(z3.Not(is_scalar(S, a['denominator'])),
                                           scalar_term(a['denominator']) == 0 if a['denominator'].ty.k in ('real', 'int') else z3.BoolVal(True)))],
         ensures=scale_f(_div), modifies=F_MODS, touches=F_TOUCH, mod_globals=['Function.counter'])


# ============================================================ run-time side (bounded stand-in): generators
def _leaf_function(w, rng, samples=True):
    from PEPit.functions import SmoothConvexFunction, ConvexFunction
    f = w.problem.declare_function(rng.choice([SmoothConvexFunction, ConvexFunction]), **({'L': 2.} if False else {})) if False else None
    cls = rng.choice([SmoothConvexFunction, ConvexFunction])
    f = w.problem.declare_function(cls, L=2.) if cls is SmoothConvexFunction else w.problem.declare_function(cls)
    if samples:
        if rng.random() < 0.35:
            # a sample recorded at a COMBINATION that reduces to a leaf (momentum started with x_prev = x0, a step of size 0): the leaf itself is the same point
            x0, x1 = w.leaf_points[0], w.leaf_points[1]
            f.oracle(rng.choice([x0 * 1, x0 + x1 - x1, x0 - x1 * 0]))
        for p in rng.sample(w.leaf_points, rng.choice([0, 1, 2])):
            f.oracle(p)
        if rng.random() < 0.4:
            f.oracle(w.leaf_points[0] - w.leaf_points[1])
        if rng.random() < 0.3:
            f.oracle(w.leaf_points[0] * 0)
    return f


def gen_found(w, rng):
    f = _leaf_function(w, rng)
    x0, x1 = w.leaf_points[0], w.leaf_points[1]
    q = rng.choice([x0, x0 - x1 + x1, x0 * 1, x0 - x1, x1 * 0, x0 * 0 + x1 * 0, w.point(), w.Point(is_leaf=False, decomposition_dict={x0: 1, x1: 0})])
    return {'self': f, 'point': q}


def gen_add_point(w, rng):
    f = _leaf_function(w, rng)
    x = w.point()
    g = rng.choice([w.point(), w.Point(is_leaf=False, decomposition_dict={}), w.Point(is_leaf=False, decomposition_dict={w.leaf_points[0]: 0}), x])
    return {'self': f, 'triplet': (x, g, w.expression())}


def gen_leaf_fn(w, rng):
    return {'self': _leaf_function(w, rng), 'name': rng.choice([None, 'xs'])}


REG.by_key[FP + '_is_already_evaluated_on_point'].gen = gen_found
REG.by_key[FP + 'add_point'].gen = gen_add_point
REG.by_key[FP + 'stationary_point'].gen = lambda w, rng: dict(gen_leaf_fn(w, rng), return_gradient_and_function_value=False)
REG.by_key[FP + 'fixed_point'].gen = gen_leaf_fn
for _n in ('oracle', '__call__', '_separate_leaf_functions_regarding_their_need_on_point'):
    REG.by_key[FP + _n].gen = gen_found
for _n in ('value', 'subgradient', 'gradient'):
    REG.by_key[FP + _n].gen = lambda w, rng: dict(gen_found(w, rng), name=rng.choice([None, None, 'named']))


def gen_finit(w, rng):
    from PEPit.function import Function
    leaf = rng.random() < 0.5
    dd = None if (leaf and rng.random() < 0.8) or (not leaf and rng.random() < 0.2) else {_leaf_function(w, rng, False): rng.choice([1, 2, 0])}
    return {'self': Function.__new__(Function), 'is_leaf': leaf, 'decomposition_dict': dd, 'reuse_gradient': rng.random() < 0.5, 'name': None}


REG.by_key[FP + '__init__'].gen = gen_finit


def _any_function(w, rng):
    f1, f2 = _leaf_function(w, rng, False), _leaf_function(w, rng, False)
    return rng.choice([f1, f1 + f2, 2 * f1 - f2, f1 + 0 * f2])


def gen_fbin(w, rng):
    other = rng.choice([_any_function(w, rng), _any_function(w, rng), w.scalar(), w.point(), w.opaque()])
    return {'self': _any_function(w, rng), 'other': other}


def gen_fscale(w, rng):
    return {'self': _any_function(w, rng), 'other': rng.choice([w.scalar(), w.scalar(), _any_function(w, rng), w.opaque()])}


for _n in ('__add__', '__sub__'):
    REG.by_key[FP + _n].gen = gen_fbin
for _n in ('__rmul__', '__mul__'):
    REG.by_key[FP + _n].gen = gen_fscale
REG.by_key[FP + '__neg__'].gen = lambda w, rng: {'self': _any_function(w, rng)}
REG.by_key[FP + '__truediv__'].gen = lambda w, rng: {'self': _any_function(w, rng), 'denominator': rng.choice([2, 0.5, 0, -4, w.opaque(), _any_function(w, rng)])}
