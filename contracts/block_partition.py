"""Contracts of PEPit/block_partition.py (C15: blocks sum back to the point, same blocks on later requests, d = 1 is the identity)."""
import z3
from .common import *          # noqa
from . import point as _point   # noqa (callee contracts: Point.__init__, __add__, __sub__)

BP = 'PEPit/block_partition.py::BlockPartition.'
BT, PT = TRef('BlockPartition'), TRef('Point')
sx.FIELD_TYPES.update({'BlockPartition.d': TInt, 'BlockPartition.blocks_dict': TDict(TList(PT))})

NULL_POINT = z3.Int('null_point')      # the module-level object PEPit.point.null_point (written by no statement: C12 inventory)


def null_point_wf(S):
    d = S.dd('Point', NULL_POINT)
    return z3.And(NULL_POINT >= 0, NULL_POINT < S.alloc, S.cls(NULL_POINT) == tag('Point'), z3.Not(S.fld('Point', '_is_leaf', NULL_POINT)),
                  forall_k(lambda k: z3.Not(S.has(d, k))))


REG.module_globals['null_point'] = lambda eng, st: sx.V(PT, NULL_POINT)


def is_fresh_leaf(S0, S, r):
    d = S.dd('Point', r)
    return z3.And(r >= S0.alloc, r < S.alloc, S.cls(r) == tag('Point'), S.fld('Point', '_is_leaf', r),
                  d >= S0.alloc, d < S.alloc, S.cls(d) == tag('dict'),
                  forall_k(lambda k: S.has(d, k) == (k == Obj(r))), S.get(d, Obj(r)) == 1)


def among(S, B, n, k):
    """key k is the leaf key of one of the first n blocks"""
    j = fresh('j', I)
    return z3.Exists([j], z3.And(j >= 0, j < n, k == Obj(S.elt(B, j))))


def among_cf(S, B, c0, n, k):
    """closed form of `among` (no quantifier): the j-th fresh block leaf has counter c0 + j, so its index is its counter minus c0"""
    r = oid(k)
    j = S.fld('Point', 'counter', r) - c0
    return z3.And(is_Obj(k), j >= 0, j < n, z3.Not(S.fld_none('Point', 'counter', r)), S.elt(B, j) == r)


def gb_requires(S, a):
    p = a['self'].t
    bd = S.fld('BlockPartition', 'blocks_dict', p)
    return [('d', S.fld('BlockPartition', 'd', p) >= 1), ('null_point', null_point_wf(S)),
            ('registry', S.g('Point.list_of_leaf_points') != bd),
            ('stored_partitions', forall_k(lambda k: z3.Implies(S.has(bd, k), z3.And(S.geti(bd, k) >= 0, S.geti(bd, k) < S.alloc, S.cls(S.geti(bd, k)) == tag('list'),
                                                                                   S.len(S.geti(bd, k)) == S.fld('BlockPartition', 'd', p)))))]


def gb_ens(S0, S, a, res):
    p, x, n = a['self'].t, a['point'].t, a['block_number'].t
    d = S0.fld('BlockPartition', 'd', p)
    bd = S0.fld('BlockPartition', 'blocks_dict', p)
    known = S0.has(bd, Obj(x))
    B = S.geti(bd, Obj(x))
    i, j = fresh('i', I), fresh('j', I)
    last = S.elt(B, d - 1)
    return [
        ('same_dict_object', S.fld('BlockPartition', 'blocks_dict', p) == bd, 'aux'),
        ('returns_stored_block', z3.And(S.has(bd, Obj(x)), res.t == S.elt(B, n)), 'property'),
        ('idempotent', z3.Implies(known, z3.And(B == S0.geti(bd, Obj(x)), res.t == S0.elt(S0.geti(bd, Obj(x)), n))), 'property'),
        ('other_points_untouched', forall_k(lambda k: z3.Implies(k != Obj(x), z3.And(S.has(bd, k) == S0.has(bd, k), z3.Implies(S0.has(bd, k), S.geti(bd, k) == S0.geti(bd, k))))), 'property'),
        ('new.length', z3.Implies(z3.Not(known), z3.And(B >= S0.alloc, S.len(B) == d)), 'property'),
        ('new.leaves', z3.Implies(z3.Not(known), z3.ForAll([i], z3.Implies(z3.And(i >= 0, i < d - 1), is_fresh_leaf(S0, S, S.elt(B, i))))), 'property'),
        ('new.distinct', z3.Implies(z3.Not(known), z3.ForAll([i, j], z3.Implies(z3.And(i >= 0, i < j, j < d - 1), S.elt(B, i) != S.elt(B, j)))), 'property'),
        # blocks sum back to the point: the last block is the point minus the d-1 fresh unit blocks
        ('new.counters', z3.Implies(z3.Not(known), z3.ForAll([i], z3.Implies(z3.And(i >= 0, i < d - 1), z3.And(
            z3.Not(S.fld_none('Point', 'counter', S.elt(B, i))), S.fld('Point', 'counter', S.elt(B, i)) == S0.g('Point.counter') + i)))), 'aux'),
        # (k is the leaf key of one of the d-1 fresh blocks  <=>  among_cf: the j-th fresh block has counter c0 + j)
        ('new.sum', z3.Implies(z3.Not(known), z3.And(last >= S0.alloc, forall_k(lambda k: coeff(S, 'Point', last, k) ==
                                                                               coeff(S0, 'Point', x, k) - z3.If(among_cf(S, B, S0.g('Point.counter'), d - 1, k), 1, 0)))), 'property'),
        ('one_block_is_identity', z3.Implies(z3.And(z3.Not(known), d == 1), forall_k(lambda k: coeff(S, 'Point', res.t, k) == coeff(S0, 'Point', x, k))), 'property'),
    ]


def gb_inv(L):
    S0, H = L.H0, L.H
    B = L.var('point_partition', 0).t
    acc = L.var('accumulation', 1).t
    i, j = fresh('i', I), fresh('j', I)
    c0 = L.H_entry.g('Point.counter')
    return [('list_local', z3.And(B >= S0.alloc, B < H.alloc, H.cls(B) == tag('list'), H.len(B) == L.i, B != H.g('Point.list_of_leaf_points'))),
            ('acc_point', z3.And(acc >= 0, acc < H.alloc, isinstance_f(H.A('cls'), acc, 'Point'),
                                 H.dd('Point', acc) >= 0, H.dd('Point', acc) < H.alloc, H.cls(H.dd('Point', acc)) == tag('dict'))),
            ('leaves', z3.ForAll([i], z3.Implies(z3.And(i >= 0, i < L.i), is_fresh_leaf(S0, H, H.elt(B, i))))),
            ('distinct', z3.ForAll([i, j], z3.Implies(z3.And(i >= 0, i < j, j < L.i), H.elt(B, i) != H.elt(B, j)))),
            ('counters', z3.And(H.g('Point.counter') == c0 + L.i,
                                z3.ForAll([i], z3.Implies(z3.And(i >= 0, i < L.i), z3.And(z3.Not(H.fld_none('Point', 'counter', H.elt(B, i))),
                                                                                      H.fld('Point', 'counter', H.elt(B, i)) == c0 + i))))),
            ('acc', forall_k(lambda k: coeff(H, 'Point', acc, k) == z3.If(among_cf(H, B, c0, L.i, k), 1, 0))),
            ('registry_is_a_list', z3.And(H.g('Point.list_of_leaf_points') == L.H_entry.g('Point.list_of_leaf_points')))]


contract(
    BP + 'get_block', [('self', BT), ('point', PT), ('block_number', TInt)], returns=PT,
    requires=gb_requires, ensures=gb_ens,
    raises=[('*', lambda S, a: z3.Not(z3.And(a['block_number'].t >= 0, a['block_number'].t <= S.fld('BlockPartition', 'd', a['self'].t) - 1)))],
    modifies=lambda S, a: {'dom': lambda r: r == S.fld('BlockPartition', 'blocks_dict', a['self'].t),
                           'valI': lambda r: r == S.fld('BlockPartition', 'blocks_dict', a['self'].t),
                           'len': lambda r: r == S.g('Point.list_of_leaf_points'), 'eltI': lambda r: r == S.g('Point.list_of_leaf_points')},
    touches=lambda S, a: sorted(set(['dom', 'valI', 'valR', 'len', 'eltI', 'cls'] + obj_arrays('Point'))),
    mod_globals=['Point.counter'],
    loops={1: dict(inv=gb_inv, mods=lambda L: {'len': lambda r: z3.Or(r == L.var('point_partition', 0).t, r == L.H_entry.g('Point.list_of_leaf_points')),
                                                'eltI': lambda r: z3.Or(r == L.var('point_partition', 0).t, r == L.H_entry.g('Point.list_of_leaf_points'))})},
)


def _null_point():
    from PEPit.point import null_point
    return null_point


def gen_get_block(w, rng):
    from PEPit.block_partition import BlockPartition
    part = BlockPartition(d=rng.choice([1, 2, 3, 4]))
    pts = [w.point() for _ in range(2)]
    if rng.random() < 0.5:
        part.get_block(pts[0], 0)             # already decomposed
    n = rng.choice(list(range(part.d)) + [part.d, -1]) if rng.random() < 0.2 else rng.randrange(part.d)
    return {'self': part, 'point': rng.choice(pts), 'block_number': n}


_c = REG.by_key[BP + 'get_block']
_c.gen = gen_get_block
_c.runtime_roots = lambda: [_null_point()]
_c.runtime_facts = lambda av, ab: [NULL_POINT == ab.oid(_null_point())]
