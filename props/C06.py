"""C06 - Point / expression algebra is a faithful vector-space and inner-product calculus."""
from pyvc import components, runner

KEYS = None


def keys():
    REG = runner.load_contracts()
    return [k for k, c in REG.by_key.items() if not c.assumed and (
        k.startswith('PEPit/tools/dict_operations.py') or k.startswith('PEPit/point.py') or
        k.startswith('PEPit/expression.py') or k.startswith('PEPit/constraint.py'))]


def run(run):
    from pyvc import leancheck
    leancheck.check(run, 'Den.lean', 'linearity / bilinearity of the denotation of coefficient maps')
    ks = keys()
    components.ast_functions(run, ks, run.tier)
    run.trust('pyvc AST engine + z3 5.1 / cvc5 1.0.3')
    run.assume('operands of the foreign kind `opaque` are modelled as objects without special methods',
               'tuple dict keys are pairs (the only tuple keys the DSL creates)')
