"""C06 - Point / expression algebra is a faithful vector-space and inner-product calculus."""
from pyvc import components, runner

KEYS = None


def keys():
    REG = runner.load_contracts()
    return [k for k, c in REG.by_key.items() if not c.assumed and (
        k.startswith('PEPit/tools/dict_operations.py') or k.startswith('PEPit/point.py') or
        k.startswith('PEPit/expression.py') or k.startswith('PEPit/constraint.py'))]


def run(run):
    from pyvc import leancheck
    leancheck.check(run, 'Den.lean', 'linearity / bilinearity of the denotation of coefficient maps')
    ks = keys()
    components.ast_functions(run, ks, run.tier)
    surface(run)
    from harness import opforms
    opforms.component(run)
    run.trust('pyvc AST engine + z3 5.1 / cvc5 1.0.3')
    run.assume('operands of the foreign kind `opaque` are modelled as objects without special methods',
               'tuple dict keys are pairs (the only tuple keys the DSL creates)')


ALLOWED_WITHOUT_CONTRACT = {'PEPit/expression.py::Expression.__hash__': 'identity hash of object (`return super().__hash__()`): no algebraic meaning'}


def surface(run):
    """every special method defined by Point / Expression / Constraint is under contract: Python dispatches operators (also `op=`) to the most specific special
    method, so a NEW one would bypass every proved contract"""
    import ast, os
    REG = runner.load_contracts()
    root = os.environ.get('PEPIT_REPO', '/repo')
    for path, cls in (('PEPit/point.py', 'Point'), ('PEPit/expression.py', 'Expression'), ('PEPit/constraint.py', 'Constraint')):
        tree = ast.parse(open(os.path.join(root, path)).read())
        for node in tree.body:
            if isinstance(node, ast.ClassDef) and node.name == cls:
                for fn in node.body:
                    if isinstance(fn, ast.FunctionDef) and fn.name.startswith('__') and fn.name.endswith('__'):
                        key = '%s::%s.%s' % (path, cls, fn.name)
                        ok = (key in REG.by_key and not REG.by_key[key].assumed) or key in ALLOWED_WITHOUT_CONTRACT
                        oid = 'C06/operator-surface[%s.%s]' % (cls, fn.name)
                        run.count(oid, ok, 'static inventory of special methods (ast)', 0.0, 'property', 'unsat' if ok else 'unknown')
                        if not ok:
                            run.undecide(oid, 'special method %s.%s (line %d) has no contract: operators dispatched to it are not covered by the proved contracts; '
                                              'the bounded operator-forms harness decides whether it breaks the algebra' % (cls, fn.name, fn.lineno))


def replay(rec, path):
    if rec.get('kind') == 'op-forms':
        from harness import opforms
        mine = opforms.replay(rec)
        print('operator form %r, clause %s, seed %s iteration %s' % (rec['form'], rec['clause'], rec['seed'], rec['iteration']))
        for f in mine:
            print('failed:', f[2])
        if mine:
            print('VIOLATION property=C06 replay=%s' % path)
            return 1
        print('not reproduced on the current tree')
        return 0
    print('unknown replay kind', rec.get('kind'))
    return 3
