"""C05 - The problem handed to the solver is exactly the declared model."""
from pyvc import components, runner
from harness import components as hc, models

FUNCS = ['PEPit/tools/expressions_to_matrices.py::expression_to_matrices', 'PEPit/tools/expressions_to_matrices.py::expression_to_sparse_matrices',
         'PEPit/pep.py::PEP.add_constraint', 'PEPit/pep.py::PEP.set_initial_condition', 'PEPit/pep.py::PEP.set_performance_metric',
         'PEPit/function.py::Function.add_constraint', 'PEPit/block_partition.py::BlockPartition.add_constraint',
         'PEPit/function.py::Function.set_class_constraints'] + ['PEPit/wrappers/cvxpy_wrapper.py::CvxpyWrapper.' + n for n in (
             '_expression_to_solver', 'send_constraint_to_solver', 'send_lmi_constraint_to_solver', 'set_main_variables', 'generate_problem')]


def tasks(run):
    n = 33 if run.tier == 'quick' else 165
    out = [('program', (name, seed, {})) for (name, seed) in models.programs(run.seed, n)]
    for (name, seed) in models.programs(run.seed + 3, 11):
        out.append(('resolve', (name, seed, 'new_iterate')))
    out += [('program', ('T_user_lmi', v, {})) for v in (0, 1, 4, 5, 10, 22)]    # LMIs of equal size on the problem AND on a function; LMI declared from a reused array
    out += [('program', ('T_blocks', v, {})) for v in range(4)]                     # user constraint on the partition / an unused partition declared first
    out += [('program', ('T_linear', 3, {})), ('program', ('T_linear', 7, {}))]   # an operator class with ONE sample: its class LMI is all there is
    out += [('program', ('T_duplicates', v, {})) for v in range(2)]
    out += [('program', ('T_inexact', v, {})) for v in (2, 5, 8, 11)]               # a function built by calling its class: the side constraints of its steps are sent
    out += [('program', ('T_scaled', v, {})) for v in range(2)]                     # rows with coefficients of order 1e3: sent as declared
    out += [('unused_function', (k + (run.seed % 21),)) for k in range(21 if run.tier != 'quick' else 7)]       # a declared, never evaluated function adds nothing          # an object registered twice is sent once per registration
    return out


def run(run):
    from pyvc import skeleton
    skeleton.apply(run, 'C05')
    runner.load_contracts()
    components.ast_functions(run, FUNCS, run.tier, rt_quick=25, rt_thorough=150)
    hc.solve_scenarios(run, 'C05', tasks(run), 'rt-solve-sent',
                       'seeded DSL programs; a recording subclass of the real CvxpyWrapper (installed from outside) logs what is sent: the sequence must equal '
                       'SPEC_SEQ(model) computed from the declared sources (metrics, problem constraints and LMIs, class constraints / LMIs per leaf function, '
                       'function constraints / LMIs, partition constraints), each exactly once, and every cvxpy row / LMI entry row must denote the symbolic '
                       'expression at a random (G,F); also after a re-solve')
    run.trust('pyvc AST engine + z3 5.1 / cvc5 1.0.3')
    run.assume('cvxpy API meaning is assumed and modelled by denotation (pyvc/cvxmodel.py): Variable, F @ w, sum(multiply(G, W)), +, <= 0, == 0, >= c, M[i,j] == e, >> 0, '
               'Problem(Maximize / Minimize, constraints); Problem keeps the given constraints in order',
               'PSDMatrix.__getitem__ returns the stored entry (numpy object-array indexing, assumed); an LMI of shape n0 x n1 is tied by rows stored at position '
               '1 + i*n1 + j with 0 <= j < n1: that every (i, j) has its row follows from the row count 1 + n0*n1 by uniqueness of Euclidean division (arithmetic fact, not machine-checked)',
               'numpy arrays created locally are values (np.zeros, element store, .T, +, /): assumed external algebra',
               'leaf registries are injective (Reg): objects created before the last PEP() are outside every contract')


def replay(rec, path):
    return hc.replay_scenario(rec, 'C05', path)
