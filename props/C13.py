"""C13 - Solving again gives fresh, consistent answers."""
from harness import components as hc, models


def tasks(run):
    n = 11 if run.tier == 'quick' else 44
    out = []
    for (name, seed) in models.programs(run.seed, n):
        for e in ('add_metric', 'add_lmi', 'new_iterate', 'add_constraint'):
            out.append(('resolve', (name, seed, e)))
    out += [('resolve', (name, seed, 'replace_metrics')) for (name, seed) in models.programs(run.seed + 3, 13)]
    out += [('resolve_none', (run.seed + i,)) for i in range(2)]
    out += [('resolve_replaced', (run.seed + i,)) for i in range(3)]         # replaced (not only added) constraints / LMIs, function-level constraints
    out += [('resolve', ('T_qg', v, 'add_metric')) for v in range(4)]        # minimiser declared first / last / created by the class (two classes) at the first solve
    out += [('dual_tables', (name, seed, True)) for (name, seed) in models.programs(run.seed + 1, 12)]      # tables / multipliers of the LATEST solve
    return out


def run(run):
    from pyvc import skeleton
    skeleton.apply(run, 'C13')
    from pyvc import components, runner
    runner.load_contracts()
    # per-solve freshness of the class lists (F4), and values of derived objects are recomputed from the current leaf values (F6)
    components.ast_functions(run, ['PEPit/function.py::Function.set_class_constraints', 'PEPit/expression.py::Expression.eval',
                                   'PEPit/point.py::Point.eval', 'PEPit/constraint.py::Constraint.eval', 'PEPit/psd_matrix.py::PSDMatrix.eval', 'PEPit/pep.py::PEP._eval_points_and_function_values'], run.tier, rt_quick=12, rt_thorough=60)
    run.trust('pyvc AST engine + z3 5.1 / cvc5 1.0.3')
    hc.solve_scenarios(run, 'C13', tasks(run), 'rt-solve-resolve',
                       'seeded DSL programs from 11 templates; solve, solve again, edit (add a metric / a constraint / an LMI / a new oracle call), '
                       'solve, compare with a freshly built equivalent model; user-held objects re-evaluated; dual tables after a re-solve; solver CLARABEL, tolerance 2e-5(1+|tau|)',
                       also=('C17',))


def replay(rec, path):
    return hc.replay_scenario(rec, 'C13', path)
