"""C04 - Class constraints are complete and independent of declaration order."""
from sym import run as symrun
from harness import components as hc

HELPERS = ['PEPit/function.py::Function.add_constraints_from_one_list_of_points', 'PEPit/function.py::Function.add_constraints_from_two_lists_of_points']
HELPER_ASSUMPTIONS = [
    'a class closure passed to the pair helpers allocates one Constraint plus non-leaf expressions / points / dicts and changes nothing that existed (assumed abstract '
    'contract; the closures themselves are checked by contract-level execution, C03/C04)',
    'pandas / numpy by denotation: DataFrame(cells, columns, index) keeps what it is given, np.array of a list of rows has shape (0,) iff there is no row, '
    'reshape(1, -1) of a flat list is one row; str.format is an uninterpreted function (congruence only)',
    'spec function cnt (number of cells holding a constraint before a position, row-major) is defined by recursion; "exactly these constraints" is the length equation '
    'plus one distinct position per required pair',
]


def run(run):
    from pyvc import leancheck
    leancheck.check(run, 'Perm.lean', 'the generated condition set is invariant under permutation of the samples')
    symrun.class_formulas(run)                                   # (b)-(e): call structure, formulas, symmetry flags, completeness
    # (a): the generic pair helpers, proved from the real source (one constraint per required ordered pair, by one closure call on that pair, in row-major order)
    from pyvc import components, runner
    runner.load_contracts()
    components.ast_functions(run, HELPERS, run.tier)
    run.trust('pyvc AST engine + z3 5.1 / cvc5 1.0.3')
    run.assume(*HELPER_ASSUMPTIONS)
    hc.pair_helpers(run, clauses=['pairs', 'appended'])          # ... and their bounded run-time contract on real objects (all list shapes <= 3-4 samples)


def replay(rec, path):
    if rec.get('kind') == 'pairs-case':
        return hc.replay_pairs(rec, 'C04', path)
    if rec.get('kind') == 'class-formula':
        out = symrun.replay_formula(rec.get('signature', {}), rec.get('model'))
        print(out)
        if out.get('reproduced'):
            print('VIOLATION property=C04 replay=%s' % path)
            return 1
    return 0
