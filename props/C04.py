"""C04 - Class constraints are complete and independent of declaration order."""
from sym import run as symrun
from harness import components as hc


def run(run):
    from pyvc import leancheck
    leancheck.check(run, 'Perm.lean', 'the generated condition set is invariant under permutation of the samples')
    symrun.class_formulas(run)                                   # (b)-(e): call structure, formulas, symmetry flags, completeness
    hc.pair_helpers(run, clauses=['pairs', 'appended'])          # (a): bounded run-time contract of the generic pair helpers


def replay(rec, path):
    if rec.get('kind') == 'pairs-case':
        return hc.replay_pairs(rec, 'C04', path)
    if rec.get('kind') == 'class-formula':
        out = symrun.replay_formula(rec.get('signature', {}), rec.get('model'))
        print(out)
        if out.get('reproduced'):
            print('VIOLATION property=C04 replay=%s' % path)
            return 1
    return 0
