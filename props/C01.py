"""C01 - Returned upper bound is backed by a complete, checkable dual certificate."""
from harness import components as hc, models


def tasks(run):
    n = 33 if run.tier == 'quick' else 165
    out = [('program', (name, seed, {})) for (name, seed) in models.programs(run.seed, n)]
    out += [('program', (name, seed, {'solver': 'SCS', 'eps_abs': 1e-9, 'eps_rel': 1e-9, 'max_iters': 200000}))
            for (name, seed) in models.programs(run.seed + 1, 11)]
    out += [('program', (name, seed, {'dimension_reduction_heuristic': 'trace'})) for (name, seed) in models.programs(run.seed + 2, 11)]
    # a solve asked for the primal value exposes the same certificate
    out += [('program', (name, seed, {'return_primal_or_dual': 'primal'})) for (name, seed) in models.programs(run.seed + 4, 7)]
    # every variant of the LMI template: symmetric as written or not, non-binding function LMI or not, binding LMI on the problem / on the function
    out += [('program', ('T_user_lmi', v, {})) for v in range(16)]
    # the same Constraint / PSDMatrix object registered twice: each registration is sent, and the exposed multipliers still certify the bound
    out += [('program', ('T_duplicates', v, {})) for v in range(4)]
    # stiff models (L = 30..100, unit radius): the multiplier of G >> 0 has genuine eigenvalues more than 1e3 apart - all of them belong to the certificate
    out += [('program', ('T_illcond', v, {})) for v in range(4)]
    # rows with large coefficients (radius 20 / 50): the exposed multiplier is that of the constraint AS DECLARED
    out += [('program', ('T_scaled', v, {})) for v in range(4)]          # (2, 3: a constraint written in huge units, its exact multiplier is of order 1e-10)
    return out


FUNCS = ['PEPit/wrappers/cvxpy_wrapper.py::CvxpyWrapper._recover_dual_values', 'PEPit/wrapper.py::Wrapper.assign_dual_values',
         'PEPit/wrappers/mosek_wrapper.py::MosekWrapper._get_Gram_from_mosek']


def run(run):
    from pyvc import skeleton
    skeleton.apply(run, 'C01')
    from pyvc import leancheck
    leancheck.check(run, 'Certificate.lean', 'weak duality from the certificate identity')
    from pyvc import components, runner
    runner.load_contracts()
    components.ast_functions(run, FUNCS, run.tier, rt_quick=12, rt_thorough=60)
    run.trust('pyvc AST engine + z3 5.1 / cvc5 1.0.3')
    run.assume('cvxpy: Problem.constraints holds the constraints it was given, in order; constraint.dual_value is the multiplier of that constraint (assumed API)',
               'spec function pos (position of the first solver object of the k-th tracked object) and off (column offsets of a packed lower triangle) are defined '
               'by recursion; their monotonicity, used as a lemma, follows by induction (stated, not machine-checked)',
               'each tracked object is sent once (distinct objects in the tracked list): precondition of assign_dual_values')
    hc.solve_scenarios(run, 'C01', tasks(run), 'rt-solve-certificate',
                       'seeded DSL programs (11 templates x variants: several metrics, user / function / class LMIs written symmetrically or not, composite functions, '
                       'partitions, steps); after each finite solve the identity objective - tau = sum(lambda x constraint) - <S,G> - sum<Z,T> is recomputed by the harness '
                       'from the exposed multipliers over all (G,F), signs and PSD-ness checked; solvers CLARABEL and SCS; tolerance 1e-4(1+|tau|) on coefficients')
    run.assume('KKT multipliers returned by the numerical solver satisfy Lagrangian stationarity for the problem it was given (assumed solver contract)')


def replay(rec, path):
    return hc.replay_scenario(rec, 'C01', path)
