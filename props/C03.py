"""C03 - Class constraints never exclude a real member of the class."""
from sym import run as symrun


def run(run):
    symrun.class_formulas(run, soundness_only=True)       # generated formula == documented formula (all parameters, all points)
    symrun.member_families(run)      # documented / generated conditions hold on decidable member families
