"""C17 - Dual tables report each multiplier at the pair of points it belongs to."""
from harness import components as hc


def run(run):
    hc.pair_helpers(run, clauses=['table', 'name', 'duals'], label='pair-helpers-tables')
    from harness import models
    n = 22 if run.tier == 'quick' else 110
    hc.solve_scenarios(run, 'C17', [('dual_tables', (name, seed)) for (name, seed) in models.programs(run.seed, n)] +
                       [('dual_tables', (name, seed, True)) for (name, seed) in models.programs(run.seed + 1, 12)], 'rt-solve-dual-tables',
                       'after a real solve of seeded programs over 11 templates: for every leaf function each per-condition table is a table with one column per '
                       'sample, the dual table has the same shape and its (i,j) cell is the multiplier of the constraint in that cell (0 elsewhere), every class '
                       'constraint sits in a table cell and has a name')


def replay(rec, path):
    if rec.get('kind') == 'pairs-case':
        return hc.replay_pairs(rec, 'C17', path)
    return hc.replay_scenario(rec, 'C17', path)
