"""C17 - Dual tables report each multiplier at the pair of points it belongs to."""
from harness import components as hc


def run(run):
    hc.pair_helpers(run, clauses=['table', 'name', 'duals'], label='pair-helpers-tables')
    run.obligations += 0


def replay(rec, path):
    if rec.get('kind') == 'pairs-case':
        return hc.replay_pairs(rec, 'C17', path)
    return 0
