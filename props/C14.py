"""C14 - Dimension-reduction post-processing keeps the guarantee it started from."""
from harness import components as hc, models


def tasks(run):
    n = 22 if run.tier == 'quick' else 88
    out = []
    for i, (name, seed) in enumerate(models.programs(run.seed, n)):
        out.append(('dimred', (name, seed, 'trace')))
        if i % 2 == 0:
            out.append(('dimred', (name, seed, 'logdet%d' % (1 + i % 3))))
        if i % 5 == 0:
            out.append(('dimred', (name, seed, 'trace', 1e-2)))
    out += [('dimred', ('T_scaled', i, h)) for i in range(2) for h in ('trace', 'logdet1')]
    # several reweighted solves with a LARGE tolerance: the objective stays within ONE tolerance of the optimum, whatever the number of iterations
    out += [('dimred', (name, seed, 'logdet4', 1e-2)) for (name, seed) in models.programs(run.seed + 5, 4)]
    # non-default options far apart: tolerance 1e-6 on the objective, regularisation 0.2 of the logdet weights (each must reach its own use)
    out += [('dimred', ('T_gd_ssc', run.seed + i, h, 1e-6, 0.2)) for i in range(2) for h in ('trace', 'logdet2')]
    # an LMI whose auxiliary solver matrix has a trace that decreases when a Gram entry grows: the trace heuristic weighs the Gram matrix only
    out += [('dimred', ('T_lmi_trace', v, 'trace')) for v in range(2)]
    # a stated tolerance of exactly zero (float and int) is a tolerance, not an unset option
    out += [('dimred', ('T_gd_ssc', run.seed + 3, h, z)) for h, z in (('trace', 0.0), ('logdet1', 0))]
    # the same through the announced fall-back (requested back-end not installed -> cvxpy): identical to wrapper='cvxpy' with the same options
    out += [('dimred_fallback', ('T_gd_ssc', run.seed + i, h, 1e-6, 0.2)) for i, h in enumerate(('trace', 'logdet2'))]
    return out


def run(run):
    from pyvc import skeleton
    skeleton.apply(run, 'C14')
    from pyvc import components, runner
    runner.load_contracts()
    components.ast_functions(run, ['PEPit/wrappers/cvxpy_wrapper.py::CvxpyWrapper.prepare_heuristic', 'PEPit/wrappers/cvxpy_wrapper.py::CvxpyWrapper.heuristic',
                                   'PEPit/pep.py::PEP.solve'],
                             run.tier)
    run.trust('pyvc AST engine + z3 5.1 / cvc5 1.0.3', 'cvxpy modelled by denotation (pyvc/cvxmodel.py, assumed)')
    hc.solve_scenarios(run, 'C14', tasks(run), 'rt-solve-dimension-reduction',
                       'seeded DSL programs solved without and with the heuristic (trace, logdet1-3, two tolerances): same dual bound, same multipliers, certificate '
                       'valid for the bound, primal objective >= optimum - tolerance, all sent constraints hold at the returned instance, trace not increased')
    run.assume('PEP.solve: importlib.util.find_spec and str.lower are uninterpreted functions (package_found, str_lower); the wrapper table WRAPPERS has the keys cvxpy and mosek (precondition known_backend)')
    run.assume('solver numerics (tolerances as stated); a SolverError of the numerical solver on an ill-conditioned heuristic problem is inconclusive')


def replay(rec, path):
    return hc.replay_scenario(rec, 'C14', path)
