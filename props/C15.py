"""C15 - Block partitions behave as orthogonal coordinate-block projections."""
from harness import components as hc, models


def tasks(run):
    n = 40 if run.tier == 'quick' else 400
    out = [('partitions', (run.seed + i,)) for i in range(n)]
    out += [('program', ('T_blocks', run.seed % 1000 + i, {})) for i in range(4)]
    out += [('resolve', ('T_blocks', run.seed % 1000 + i, e)) for i in range(2) for e in ('add_metric', 'new_iterate')]
    out += [('partition_resolve', (run.seed % 1000 + i,)) for i in range(3)]
    out += [('partition_dropped_handle', (i,)) for i in range(2)]
    out += [('partition_real', (i,)) for i in range(12 if run.tier == 'quick' else 48)]      # value 1 and real projections; direct instantiation; a block decomposed again
    return out


def run(run):
    from pyvc import skeleton
    skeleton.apply(run, 'C15')
    from pyvc import leancheck
    leancheck.check(run, 'Blocks.lean', 'orthogonal block projections satisfy the imposed relations')
    from pyvc import components, runner
    runner.load_contracts()
    components.ast_functions(run, ['PEPit/block_partition.py::BlockPartition.get_block', 'PEPit/block_partition.py::BlockPartition.add_constraint'],
                             run.tier, rt_quick=15, rt_thorough=80)
    # "block-smooth functions are constrained block by block": the class's conditions on the blocks, by contract-level execution (same obligations as C03 / C04)
    from sym import run as symrun
    symrun.class_formulas(run, only=['BlockSmoothConvexFunction'], prefix='C15')
    run.trust('pyvc AST engine + z3 5.1 / cvc5 1.0.3')
    run.assume('the module-level object null_point is the empty combination and is written by no statement (C12 inventory)')
    res_tasks = tasks(run)
    hc.solve_scenarios(run, 'C15', res_tasks, 'partition-scenarios',
                       'seeded partitions with 1-4 blocks, 1-3 decomposed points (leaves and combinations, any order): blocks sum back to the point, repeated '
                       'requests return the same objects, d=1 is the identity, add_partition_constraints imposes exactly the m^2 d(d-1)/2 cross-block orthogonality '
                       'equalities; block-smooth models solved and re-solved')
    # the solve-level failures of block models are attributed to C05 / C13 clauses; count them here too when they concern partitions
    run.assume('real orthogonal coordinate-block projections satisfy the imposed relations (linear algebra, see lean/Blocks.lean)')


def replay(rec, path):
    if rec.get('kind') == 'class-formula':
        from sym import run as symrun
        out = symrun.replay_formula(rec.get('signature', {}), rec.get('model'))
        print(out)
        if out.get('reproduced'):
            print('VIOLATION property=C15 replay=%s' % path)
            return 1
        return 0
    return hc.replay_scenario(rec, 'C15', path)
