"""C16 - No number without a solution: failures are reported, not fabricated."""
from pyvc import components, runner

FUNCS = ['PEPit/point.py::Point.eval', 'PEPit/expression.py::Expression.eval', 'PEPit/constraint.py::Constraint.eval',
         'PEPit/constraint.py::Constraint.eval_dual', 'PEPit/psd_matrix.py::PSDMatrix.eval_dual']


def run(run):
    runner.load_contracts()
    components.ast_functions(run, FUNCS, run.tier, rt_quick=25, rt_thorough=150)
    run.trust('pyvc AST engine + z3 5.1 / cvc5 1.0.3')
    run.assume('numpy 1-D arrays are mathematical vectors (abstract sort Vec with zeros / + / scalar * / dot / dim): assumed external algebra',
               'cvxpy leaves variable values at None when the problem is not solved (assumed external contract)')
