"""C16 - No number without a solution: failures are reported, not fabricated."""
from pyvc import components, runner
from harness import components as hc

FUNCS = ['PEPit/point.py::Point.eval', 'PEPit/expression.py::Expression.eval', 'PEPit/constraint.py::Constraint.eval',
         'PEPit/constraint.py::Constraint.eval_dual', 'PEPit/psd_matrix.py::PSDMatrix.eval_dual', 'PEPit/psd_matrix.py::PSDMatrix.eval',
         'PEPit/pep.py::PEP.solve']          # the mode option (and every other one) reaches the internal solve under its own name


def run(run):
    from pyvc import skeleton
    skeleton.apply(run, 'C16')
    runner.load_contracts()
    components.ast_functions(run, FUNCS, run.tier, rt_quick=25, rt_thorough=150)
    run.assume('PEP.solve: importlib.util.find_spec and str.lower are uninterpreted functions (package_found, str_lower); the wrapper table WRAPPERS has the keys cvxpy and mosek (precondition known_backend)')
    hc.solve_scenarios(run, 'C16', [('no_value', (run.seed + i,)) for i in range(4 if run.tier == 'quick' else 20)] + [('invalid_options', (run.seed,))] +
                       [('resolve_none', (run.seed + i,)) for i in range(2)],
                       'rt-solve-no-value', 'unbounded and infeasible models solved in both return modes with two solvers: solve returns None and every accessor '
                       '(leaf / derived point, expression, objective, constraint value and dual) raises ValueError; also after a successful solve followed by one without value '
                       '(derived point, expression, constraint, LMI); invalid option values of solve and of the primitive steps raise ValueError', also=('C13',))
    run.trust('pyvc AST engine + z3 5.1 / cvc5 1.0.3')
    run.assume('numpy 1-D arrays are mathematical vectors (abstract sort Vec with zeros / + / scalar * / dot / dim): assumed external algebra',
               'cvxpy leaves variable values at None when the problem is not solved (assumed external contract)')


def replay(rec, path):
    return hc.replay_scenario(rec, 'C16', path)
