"""C12 - A model's result does not depend on what happened earlier in the process."""
import random
from harness import components as hc, models


def tasks(run):
    rng = random.Random(run.seed)
    names = [t.__name__ for t in models.TEMPLATES]
    out = []
    n = 22 if run.tier == 'quick' else 110
    for i in range(n):
        hist = [(rng.choice(names), rng.randrange(1000), rng.choice(['build', 'solve', 'fail', 'abandon'])) for _ in range(rng.choice([1, 2, 3]))]
        out.append(('history', (names[i % len(names)], 100 + i // len(names), hist)))
    # the composite template whose last addition brings several leaf functions at once (order of new dict keys), after address-shifting histories
    for i in range(6 if run.tier == 'quick' else 24):
        hist = [(rng.choice(names), rng.randrange(1000), rng.choice(['build', 'abandon', 'build'])) for _ in range(rng.choice([2, 3, 4]))]
        out.append(('history', ('T_composite', 2 + 3 * i, hist)))
    # an earlier model solved with explicit, crude solver options: the options of one solve are not those of the next
    out += [('history', (n_, 40 + i, [(rng.choice(names), rng.randrange(1000), 'solve_crude'), (rng.choice(names), rng.randrange(1000), 'build')]))
            for i, n_ in enumerate(('T_gd_ssc', 'T_prox_convex', 'T_metrics'))]
    # an earlier copy of the same program failed in the middle of the translation of a malformed hand-written constraint
    out += [('history', (n_, 60 + i, [(n_, 0, 'fail_translation')])) for i, n_ in enumerate(('T_gd_ssc', 'T_prox_convex', 'T_quadratic', 'T_blocks'))]
    out += [('verbosity', (names[i], 7)) for i in range(0, len(names), 3)]
    out += [('verbosity', ('T_gd_ssc', 5, 'logdet2')), ('verbosity', ('T_metrics', 6, 'logdet3'))]      # the reweighting loop of the heuristic at every verbosity
    out += [('fresh_process', ('T_gd_ssc', 3, 'objects')), ('fresh_process', ('T_blocks', 4, 'objects')), ('fresh_process', ('T_quadratic', 5, 'model'))]
    return out


def run(run):
    from pyvc import inventory, components, runner
    runner.load_contracts()
    obs, inv = inventory.obligations()
    for oid, ok, detail in obs:
        run.count(oid, ok, 'static analysis of the AST of /repo (pyvc.inventory)', 0.0, 'property', 'unsat' if ok else 'sat',
                  sample={'obligation': oid, 'verdict': 'discharged' if ok else 'refuted', 'detail': detail[:160]})
        if not ok and ('/is_reset' in oid or '/reset_to_initial' in oid or '/mutable_is_reset' in oid) and _dynamically_reset(oid):
            # the syntactic inventory did not SEE the reset (e.g. it is written as a loop with setattr), but running the real PEP() on dirtied state shows the
            # location back at its class-body value: the finding is an analysis limit, not a violation
            run.undecide(oid, detail + ' [syntactic inventory only: executing PEP() on dirtied state does reset this location]')
        elif not ok and ('called_only_when_a_model_is_created' in oid or 'no_mutable_default' in oid):
            # another caller is not by itself a violation (an explicit user-invoked reset would be legitimate): the histories below decide
            run.undecide(oid, detail)
        elif not ok:
            run.violation(oid, detail, replay={'kind': 'inventory', 'detail': detail, 'reset_assigns': {'%s.%s' % k: v for k, v in inv['reset'].items()},
                                               'writes': {'%s.%s' % k: v for k, v in inv['writes'].items()}},
                          signature={'location': oid.split('/')[2]}, reproduced=False)
    # (the module-level null_point / null_expression outlive every model: their values must be recomputed from the current registries, never kept)
    components.ast_functions(run, ['PEPit/pep.py::PEP._reset_classes', 'PEPit/point.py::Point.eval', 'PEPit/expression.py::Expression.eval'], run.tier, rt_quick=25, rt_thorough=100)
    run.trust('pyvc.inventory: syntactic inventory of class-level / module-level state and of the statements that write it',
              'pyvc AST engine + z3 5.1 / cvc5 1.0.3')
    run.assume('objects created before the last PEP() are outside every contract (documented usage): they keep references to the old registries',
               'C12-O4 (every function reads global state only through inventoried locations) follows from the inventory being the complete set of class-level '
               'bindings written anywhere under PEPit/ (examples excluded); attribute writes through dynamic names (setattr, __dict__) do not occur in the tree and are '
               'searched for syntactically')
    hc.solve_scenarios(run, 'C12', tasks(run), 'rt-solve-histories',
                       'a model B (11 templates) is built and solved, then again after a random history of 1-3 other models that are only built, solved, '
                       'fail (unbounded / infeasible) or are abandoned mid-way; the SHA-256 of everything that reaches the solver (kinds, senses, dense '
                       'coefficient arrays, sizes) and the result must be identical; verbosity 0/1/2 must not change solver input or result')


def replay(rec, path):
    return hc.replay_scenario(rec, 'C12', path)


_DYN = {}


def _dynamically_reset(oid):
    """dirty every class-level location (build and solve a model with a partition, an LMI, a composite function), create a new PEP(), and read the
    location named in the obligation id: True iff it is back at the value the class body gives it"""
    import ast, importlib, os
    if 'state' not in _DYN:
        try:
            from harness import models
            from harness.solve import solve
            for name, seed in (('T_blocks', 3), ('T_user_lmi', 2), ('T_composite', 1)):
                pep, _ = models.build(name, seed)
                solve(pep)
                if name == 'T_user_lmi':
                    solve(pep, dimension_reduction_heuristic='logdet1')
            from PEPit import PEP
            try:
                PEP._reset_classes()                      # (the reset alone: PEP.__init__ goes on to count the new problem)
            except TypeError:
                PEP.__new__(PEP)._reset_classes()
            _DYN['state'] = 'ok'
        except Exception as e:       # noqa
            _DYN['state'] = 'error: %s' % e
    if _DYN['state'] != 'ok':
        return False
    loc = oid.split('/')[2]
    cname, attr = loc.split('.', 1)
    from pyvc import inventory
    a = inventory.analyse()
    rp = a['classes'].get(cname)
    init = a['class_level'].get((cname, attr))
    if rp is None or init is None:
        return False
    mod = importlib.import_module(rp[:-3].replace('/', '.'))
    cur = getattr(getattr(mod, cname), attr, None)
    try:
        want = ast.literal_eval(init) if init not in ('list()', 'dict()', 'set()') else {'list()': [], 'dict()': {}, 'set()': set()}[init]
    except Exception:       # noqa
        return False
    return cur == want
