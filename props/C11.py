"""C11 - Both solver back-ends solve the same problem and report duals in one convention."""
from pyvc import components, runner
from harness import components as hc, models

MW = 'PEPit/wrappers/mosek_wrapper.py::MosekWrapper.'
FUNCS = [MW + n for n in ('set_main_variables', 'send_constraint_to_solver', 'send_lmi_constraint_to_solver', 'generate_problem', 'prepare_heuristic', '_get_Gram_from_mosek')] + [
    'PEPit/tools/expressions_to_matrices.py::expression_to_sparse_matrices']


def tasks(run):
    n = 44 if run.tier == 'quick' else 132
    out = []
    for i, (name, seed) in enumerate(models.programs(run.seed, n)):
        out.append(('backends', (name, seed, None, False)))
        if i % 3 == 0:
            out.append(('backends', (name, seed, 'trace', False)))
        out.append(('backends', (name, seed, None, True)))
        if i % 11 == 5:
            out.append(('backends', (name, seed, 'logdet2', False)))
    out += [('backends', ('T_user_lmi', v, None, False)) for v in range(16)]       # every declaration order of LMIs and scalar constraints (row index != running count)
    out += [('mosek_many_rows', (11,)), ('mosek_no_value', (run.seed,)), ('mosek_no_value', (run.seed + 1,))]
    return out


def sig(kind, args, info, f):
    return {'scenario': kind}


def run(run):
    # deductive part: the rows / objective the MOSEK wrapper emits, stated against ASSUMED contracts of the MOSEK Optimizer API (contracts/mosek.py),
    # denote the same affine functions as the dense (cvxpy) encoding: same `sparse_facts` / coefficient statements as C05
    from pyvc import leancheck
    leancheck.check(run, 'Rows.lean', 'the row-major index spec function ridx has the closed form i*n + j, injective on cells')
    runner.load_contracts()
    components.ast_functions(run, FUNCS, run.tier, rt_quick=25, rt_thorough=150)
    run.assume('MOSEK Optimizer API (getnumcon, getmaxnumvar, appendcons, appendvars, appendbarvars, appendsparsesymmat, putbaraij, putaijlist, putconbound, '
               'putvarbound, putclist, putobjsense) is modelled by assumed contracts over ghost task state written from the documented meaning of each call '
               '(contracts/mosek.py): lower-triangular triplets without duplicates, appended variables fixed at zero, appended rows free and empty',
               'numpy broadcasting `int + zeros(shape, dtype=int)` is an integer array of the same length (python ints: no overflow); the pre-fix np.int8 is outside the subset',
               'not under contract for MOSEK: _recover_dual_values, solve, heuristic (bounded stand-in only)')
    hc.solve_scenarios(run, 'C11', tasks(run), 'rt-solve-backends',
                       'seeded DSL programs from 11 templates solved through the cvxpy back-end and through the real MosekWrapper running on a '
                       'recording / translating STAND-IN of the MOSEK Optimizer API (standins/mosek, not MOSEK): same value, valid certificate and '
                       'instance for the same constraint list; with and without dimension reduction and on a second solve; >128 rows; models without value',
                       known_clause_signature=sig)
    run.assume('MOSEK Optimizer-API semantics and dual sign conventions are those built into the stand-in (standins/mosek/__init__.py): '
               'cannot be validated without MOSEK')


def replay(rec, path):
    return hc.replay_scenario(rec, 'C11', path)
