"""C11 - Both solver back-ends solve the same problem and report duals in one convention."""
from harness import components as hc, models


def tasks(run):
    n = 44 if run.tier == 'quick' else 132
    out = []
    for i, (name, seed) in enumerate(models.programs(run.seed, n)):
        out.append(('backends', (name, seed, None, False)))
        if i % 3 == 0:
            out.append(('backends', (name, seed, 'trace', False)))
        out.append(('backends', (name, seed, None, True)))
        if i % 11 == 5:
            out.append(('backends', (name, seed, 'logdet2', False)))
    out += [('mosek_many_rows', (11,)), ('mosek_no_value', (run.seed,)), ('mosek_no_value', (run.seed + 1,))]
    return out


def sig(kind, args, info, f):
    return {'scenario': kind}


def run(run):
    hc.solve_scenarios(run, 'C11', tasks(run), 'rt-solve-backends',
                       'seeded DSL programs from 11 templates solved through the cvxpy back-end and through the real MosekWrapper running on a '
                       'recording / translating STAND-IN of the MOSEK Optimizer API (standins/mosek, not MOSEK): same value, valid certificate and '
                       'instance for the same constraint list; with and without dimension reduction and on a second solve; >128 rows; models without value',
                       known_clause_signature=sig)
    run.assume('MOSEK Optimizer-API semantics and dual sign conventions are those built into the stand-in (standins/mosek/__init__.py): '
               'cannot be validated without MOSEK')


def replay(rec, path):
    return hc.replay_scenario(rec, 'C11', path)
