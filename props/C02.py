"""C02 - Primal output is a feasible, self-consistent worst-case instance."""
from pyvc import components, runner
from harness import components as hc, models

FUNCS = ['PEPit/point.py::Point.eval', 'PEPit/expression.py::Expression.eval', 'PEPit/constraint.py::Constraint.eval', 'PEPit/psd_matrix.py::PSDMatrix.eval', 'PEPit/pep.py::PEP._eval_points_and_function_values']


def run(run):
    from pyvc import skeleton
    skeleton.apply(run, 'C02')
    runner.load_contracts()
    components.ast_functions(run, FUNCS, run.tier, rt_quick=25, rt_thorough=150)
    n = 33 if run.tier == 'quick' else 165
    tasks = [('program', (name, seed, {})) for (name, seed) in models.programs(run.seed, n)]
    tasks += [('program', (name, seed, {'dimension_reduction_heuristic': 'trace'})) for (name, seed) in models.programs(run.seed + 2, 12)]
    tasks += [('program', ('T_user_lmi', v, {})) for v in (8, 10, 12, 14)]          # LMIs with a constant in the off-diagonal entries (primal <= dual)
    tasks += [('program', ('T_scaled', i, {'dimension_reduction_heuristic': h})) for i in range(2) for h in (None, 'trace', 'logdet1')]
    hc.solve_scenarios(run, 'C02', tasks, 'rt-solve-instance',
                       'seeded DSL programs; after each finite solve: inner products of evaluated leaf points vs PSD projection of the Gram matrix, every handle '
                       'evaluates to the combination of its operands, every sent constraint / LMI holds, objective = smallest metric, primal <= dual (tolerance 2e-5(1+|tau|) scaled)')
    run.trust('pyvc AST engine + z3 5.1 / cvc5 1.0.3')
    run.assume('numpy 1-D arrays are mathematical vectors (abstract sort Vec with zeros / + / scalar * / dot / dim): assumed external algebra')


def replay(rec, path):
    return hc.replay_scenario(rec, 'C02', path)
