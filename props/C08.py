"""C08 - Primitive steps encode exactly their defining optimality conditions."""
from sym import run as symrun


def run(run):
    symrun.primitive_steps(run)
