"""C07 - Oracle bookkeeping is coherent for leaf and composite functions."""


FUNCS = ['PEPit/function.py::Function.' + n for n in ('_is_already_evaluated_on_point', 'add_point', 'stationary_point', 'fixed_point', '__init__',
                                                       '_separate_leaf_functions_regarding_their_need_on_point', 'oracle', 'value', '__call__', 'subgradient', 'gradient',
                                                       '__add__', '__sub__', '__neg__', '__rmul__', '__mul__', '__truediv__')]


def run(run):
    from pyvc import components, runner
    runner.load_contracts()
    components.ast_functions(run, FUNCS, run.tier, rt_quick=10, rt_thorough=60)
    run.trust('pyvc AST engine + z3 5.1 / cvc5 1.0.3')
    run.assume('add_point / stationary_point / fixed_point / oracle / value / __call__ / (sub)gradient are proved for LEAF functions (precondition _is_leaf and the '
               'constructor\'s own decomposition {self: 1}); sums of functions (the composite branches of oracle and add_point) are covered by the bounded call-sequence harness only')
    from harness import oracle_seq as o
    n, res = o.run_all(run.seed, thorough=run.tier != 'quick')
    seen = set()
    for (lay, seq), fails in res:
        clause = fails[0][0]
        key = (clause, 'zero-or-cancelling-weights' if lay in ('zero_weight', 'cancelling') else 'ordinary-weights',
               'zero-point' if any(a[2] in ('zero_a', 'zero_b') for a in seq if a[2]) else 'ordinary-point')
        if key in seen:
            continue
        seen.add(key)
        run.violation('C07/call-sequences/%s' % clause, '%s [composite layout %s, call sequence %s]' % (fails[0][1], lay, list(seq)),
                      replay={'kind': 'oracle-sequence', 'layout': lay, 'sequence': [list(a) for a in seq], 'observed': [list(f) for f in fails]},
                      signature={'clause': clause, 'weights': key[1], 'point': key[2]}, reproduced=True)
    run.bounded['oracle-call-sequences'] = {
        'evaluations': n, 'failing': len(res), 'exhaustive': False,
        'rule': 'call sequences over 58 actions (oracle / gradient / value at 5 points incl. two spellings of the zero point and of x0, stationary_point, fixed_point, '
                'proximal_step incl. a step of size 0 as first call) on 3 leaf functions (two differentiable, one not) and 7 composite layouts (sum, weighted, zero weight, cancelling weights, nested, scaled '
                'nested): all sequences of length 1, %s of length 2, random ones of length 3-4; invariant I1-I4 + return consistency (returned triples are recorded samples) after every call'
                % ('all' if run.tier != 'quick' else '300 per layout'),
        'summary': '%d call sequences on real functions, %d break the representation invariant' % (n, len(res))}
    run.assume('the composite branch of Function.oracle / add_point (mutual recursion) is covered by the bounded call-sequence enumerator only')
    nflag, ffails = o.constructor_flags()
    seenf = set()
    for clause, text in ffails:
        if clause in seenf:
            continue
        seenf.add(clause)
        run.violation('C07/class-flags/%s' % clause, text, replay={'kind': 'class-flags', 'observed': [list(x) for x in ffails][:10]}, signature={'clause': clause}, reproduced=True)
    run.bounded['class-flags'] = {'evaluations': nflag, 'failing': len(ffails),
                                  'rule': 'every shipped function / operator class declared with reuse_gradient omitted / True / its default and a name: the function carries '
                                          'the flag asked for (expectation read from the class signature) and a differentiable one returns one gradient per point'}


def replay(rec, path):
    from harness import oracle_seq as o
    if rec.get('kind') == 'class-flags':
        n, fails = o.constructor_flags()
        print('failed:', fails[:5])
        if fails:
            print('VIOLATION property=C07 replay=%s' % path)
            return 1
        print('not reproduced on the current tree')
        return 0
    seq = [tuple(a) for a in rec['sequence']]
    fails = o.run_sequence(rec['layout'], seq)
    print('layout', rec['layout'], 'sequence', seq)
    print('failed:', fails)
    if fails:
        print('VIOLATION property=C07 replay=%s' % path)
        return 1
    print('not reproduced on the current tree')
    return 0
